(* Proofs about Model/Archive.v: the queries, bulk loading under the primary key, the
   traversal (termination within |V|+|E|+2 iterations, one visitor call per reachable task),
   archive selection, restore atomicity / success, archive->restore round trip. *)
From Coq Require Import List NArith PeanoNat Bool Lia ZifyBool ZifyN ZifyNat.
From Conductor Require Import Lib.Str Model.Archive.
Import ListNotations.
Open Scope N_scope.

(* ================================================================== basics *)
Lemma mem_In x l : mem x l = true <-> In x l.
Proof.
  unfold mem. rewrite existsb_exists. split.
  - intros [y [Hy E]]. apply str_eqb_spec in E. now subst.
  - intros H. exists x. split; [assumption | apply str_eqb_refl].
Qed.
Lemma mem_false x l : mem x l = false <-> ~ In x l.
Proof.
  rewrite <- mem_In. destruct (mem x l); split; intros; try congruence; try tauto.
Qed.

Lemma key_eqb_spec a b : key_eqb a b = true <-> a = b.
Proof.
  destruct a as [a1 a2], b as [b1 b2]. unfold key_eqb. simpl.
  rewrite andb_true_iff, str_eqb_spec, N.eqb_eq. split; [intros [-> ->]; reflexivity | intros H; inversion H; auto].
Qed.
Lemma key_eqb_refl a : key_eqb a a = true.
Proof. now apply key_eqb_spec. Qed.
Lemma key_eqb_false a b : key_eqb a b = false <-> a <> b.
Proof.
  rewrite <- key_eqb_spec. destruct (key_eqb a b); split; intros; try congruence; try tauto.
Qed.

Lemma has_key_In k t : has_key k t = true <-> In k (map row_key t).
Proof.
  unfold has_key. rewrite existsb_exists, in_map_iff. split.
  - intros [r [Hr E]]. apply key_eqb_spec in E. eauto.
  - intros [r [E Hr]]. exists r. split; [assumption|]. subst. apply key_eqb_refl.
Qed.
Lemma has_key_false k t : has_key k t = false <-> ~ In k (map row_key t).
Proof.
  rewrite <- has_key_In. destruct (has_key k t); split; intros; try congruence; try tauto.
Qed.

Definition keys_unique (t : table) : Prop := NoDup (map row_key t).

Lemma keys_unique_inj t r r' :
  keys_unique t -> In r t -> In r' t -> row_key r = row_key r' -> r = r'.
Proof.
  unfold keys_unique. induction t as [|a t IH]; simpl; intros Hnd Hr Hr' E; [tauto|].
  inversion Hnd as [|? ? Hn Hnd']; subst.
  destruct Hr as [->|Hr], Hr' as [->|Hr'].
  - reflexivity.
  - exfalso. apply Hn. rewrite E. now apply in_map.
  - exfalso. apply Hn. rewrite <- E. now apply in_map.
  - now apply IH.
Qed.

Lemma NoDup_map_filter {A B} (f : A -> B) p (l : list A) :
  NoDup (map f l) -> NoDup (map f (filter p l)).
Proof.
  induction l as [|a l IH]; simpl; intros H; [constructor|].
  inversion H as [|? ? Hn Hnd]; subst. destruct (p a); simpl; [|auto].
  constructor; [|auto]. intros Hin. apply Hn.
  apply in_map_iff in Hin as [y [E Hy]]. apply filter_In in Hy as [Hy _].
  rewrite <- E. now apply in_map.
Qed.

(* ================================================================== the queries *)
Lemma q_for_task_In T t r : In r (q_for_task T t) <-> In r t /\ r_task r = T.
Proof. unfold q_for_task. rewrite filter_In, str_eqb_spec. tauto. Qed.

Lemma list_max_ge l x : In x l -> x <= list_max l.
Proof.
  induction l as [|a l IH]; simpl; [tauto|]. intros [->|H]; [lia|]. specialize (IH H). lia.
Qed.
Lemma list_max_in l : l <> [] -> In (list_max l) l.
Proof.
  induction l as [|a l IH]; [congruence|]. intros _. simpl.
  destruct l as [|b l].
  - simpl. left. lia.
  - assert (Hne : b :: l <> []) by discriminate. specialize (IH Hne).
    destruct (N.max_spec a (list_max (b :: l))) as [[_ E]|[_ E]]; rewrite E; auto.
Qed.

(* a row is the newest of its task *)
Definition newest (t : table) (r : row) : Prop :=
  forall r', In r' t -> r_task r' = r_task r -> r_ts r' <= r_ts r.

Lemma group_max_newest t r :
  In r t -> (r_ts r = list_max (map r_ts (q_for_task (r_task r) t)) <-> newest t r).
Proof.
  intros Hr. split.
  - intros E r' Hr' ET. rewrite E. apply list_max_ge. apply in_map.
    apply q_for_task_In. auto.
  - intros Hn.
    assert (Hin : In r (q_for_task (r_task r) t)) by (apply q_for_task_In; auto).
    assert (Hne : map r_ts (q_for_task (r_task r) t) <> []).
    { destruct (q_for_task (r_task r) t); [destruct Hin | discriminate]. }
    pose proof (list_max_in _ Hne) as Hm. apply in_map_iff in Hm as [m [Em Hm]].
    apply q_for_task_In in Hm as [Hm1 Hm2].
    pose proof (Hn m Hm1 Hm2).
    assert (r_ts r <= list_max (map r_ts (q_for_task (r_task r) t))).
    { apply list_max_ge. now apply in_map. }
    lia.
Qed.

Lemma dedup_In l x : In x (dedup l) <-> In x l.
Proof.
  induction l as [|a l IH]; simpl; [tauto|]. rewrite filter_In, IH.
  destruct (str_eq_dec a x) as [->|Hne].
  - tauto.
  - assert (negb (str_eqb a x) = true).
    { apply negb_true_iff. now apply str_eqb_false. }
    split; [tauto|]. intros [E|H']; [contradiction|]. right. split; assumption.
Qed.
Lemma dedup_NoDup l : NoDup (dedup l).
Proof.
  induction l as [|a l IH]; simpl; constructor.
  - rewrite filter_In. intros [_ H]. rewrite str_eqb_refl in H. discriminate.
  - now apply NoDup_filter.
Qed.

Lemma latest_entries_fst t : map fst (latest_entries t) = dedup (map r_task t).
Proof. unfold latest_entries. rewrite map_map. simpl. apply map_id. Qed.

(* joining one row against a table whose join column is duplicate-free yields it at most once *)
Lemma join_once c (L : list (str * N)) :
  NoDup (map fst L) ->
  flat_map (fun l => if join_on c l then [c] else []) L
  = if existsb (join_on c) L then [c] else [].
Proof.
  induction L as [|l L IH]; simpl; intros Hnd; [reflexivity|].
  inversion Hnd as [|? ? Hn Hnd']; subst. rewrite IH by assumption.
  destruct (join_on c l) eqn:E; simpl; [|reflexivity].
  destruct (existsb (join_on c) L) eqn:E2; [|reflexivity].
  exfalso. apply existsb_exists in E2 as [l' [Hl' E']].
  unfold join_on in E, E'. apply andb_true_iff in E as [E _]. apply andb_true_iff in E' as [E' _].
  apply str_eqb_spec in E, E'. apply Hn. rewrite <- E, E'. now apply in_map.
Qed.

Definition is_latest (t : table) (c : row) : bool := existsb (join_on c) (latest_entries t).

Lemma join_filter (L : list (str * N)) :
  NoDup (map fst L) -> forall u,
  flat_map (fun c => flat_map (fun l => if join_on c l then [c] else []) L) u
  = filter (fun c => existsb (join_on c) L) u.
Proof.
  intros HL. induction u as [|c u IH]; simpl; [reflexivity|]. rewrite IH, join_once by assumption.
  destruct (existsb (join_on c) L); reflexivity.
Qed.

Lemma q_latest_per_task_filter t : q_latest_per_task t = filter (is_latest t) t.
Proof.
  unfold q_latest_per_task, is_latest. apply join_filter.
  rewrite latest_entries_fst. apply dedup_NoDup.
Qed.

Lemma is_latest_spec t c : In c t -> (is_latest t c = true <-> newest t c).
Proof.
  intros Hc. unfold is_latest. rewrite existsb_exists. rewrite <- (group_max_newest t c Hc). split.
  - intros [l [Hl E]]. unfold latest_entries in Hl. apply in_map_iff in Hl as [T [<- HT]].
    unfold join_on in E. simpl in E. apply andb_true_iff in E as [E1 E2].
    apply str_eqb_spec in E1. apply N.eqb_eq in E2. now rewrite E1.
  - intros E. exists (r_task c, list_max (map r_ts (q_for_task (r_task c) t))). split.
    + unfold latest_entries. apply in_map_iff. exists (r_task c). split; [reflexivity|].
      apply dedup_In. now apply in_map.
    + unfold join_on. simpl. rewrite str_eqb_refl. simpl. now apply N.eqb_eq.
Qed.

Lemma q_latest_per_task_In t r : In r (q_latest_per_task t) <-> In r t /\ newest t r.
Proof.
  rewrite q_latest_per_task_filter, filter_In. split.
  - intros [H1 H2]. split; [assumption|]. now apply is_latest_spec.
  - intros [H1 H2]. split; [assumption|]. now apply is_latest_spec.
Qed.

Lemma q_latest_per_task_keys t : keys_unique t -> keys_unique (q_latest_per_task t).
Proof. intros H. rewrite q_latest_per_task_filter. now apply NoDup_map_filter. Qed.

(* every task that has a row has its newest row selected *)
Lemma newest_exists t T :
  (exists r, In r t /\ r_task r = T) -> exists r, In r t /\ r_task r = T /\ newest t r.
Proof.
  intros [r0 [H0 E0]].
  assert (Hin : In r0 (q_for_task T t)) by (apply q_for_task_In; auto).
  assert (Hne : map r_ts (q_for_task T t) <> []).
  { destruct (q_for_task T t); [destruct Hin | discriminate]. }
  pose proof (list_max_in _ Hne) as Hm. apply in_map_iff in Hm as [m [Em Hm]].
  apply q_for_task_In in Hm as [Hm1 Hm2]. exists m. repeat split; auto.
  intros r' Hr' ET. rewrite Em. apply list_max_ge. apply in_map. apply q_for_task_In.
  split; [assumption | congruence].
Qed.

Lemma pick_latest_spec l :
  match pick_latest l with
  | None => l = []
  | Some m => In m l /\ forall r, In r l -> r_ts r <= r_ts m
  end.
Proof.
  induction l as [|r l IH]; simpl; [reflexivity|].
  destruct (pick_latest l) as [m|].
  - destruct IH as [Hm Hmax]. destruct (r_ts m <? r_ts r) eqn:E.
    + split; [auto|]. intros r' [<-|Hr']; [lia|]. specialize (Hmax r' Hr'). lia.
    + split; [auto|]. intros r' [<-|Hr']; [lia|]. now apply Hmax.
  - subst. split; [auto|]. intros r' [<-|[]]. lia.
Qed.

Lemma q_latest_for_task_In T t r :
  keys_unique t ->
  (In r (q_latest_for_task T t) <-> In r t /\ r_task r = T /\ newest t r).
Proof.
  intros Hk. unfold q_latest_for_task. pose proof (pick_latest_spec (q_for_task T t)) as H.
  destruct (pick_latest (q_for_task T t)) as [m|].
  - destruct H as [Hm Hmax]. apply q_for_task_In in Hm as [Hm1 Hm2]. simpl. split.
    + intros [<-|[]]. repeat split; auto. intros r' Hr' ET. apply Hmax. apply q_for_task_In.
      split; [assumption | congruence].
    + intros [Hr [ET Hn]]. left.
      apply (keys_unique_inj t); auto. unfold row_key. f_equal; [congruence|].
      assert (r_ts r <= r_ts m) by (apply Hmax; apply q_for_task_In; auto).
      assert (r_ts m <= r_ts r) by (apply Hn; [assumption | congruence]).
      lia.
  - simpl. split; [tauto|]. intros [Hr [ET _]].
    assert (In r (q_for_task T t)) by (apply q_for_task_In; auto). rewrite H in H0. destruct H0.
Qed.

Lemma q_latest_for_task_sub T t r : In r (q_latest_for_task T t) -> In r t /\ r_task r = T.
Proof.
  unfold q_latest_for_task. pose proof (pick_latest_spec (q_for_task T t)) as H.
  destruct (pick_latest (q_for_task T t)) as [m|]; simpl; [|tauto].
  intros [<-|[]]. destruct H as [Hm _]. now apply q_for_task_In in Hm.
Qed.

Lemma q_latest_for_task_keys T t : keys_unique (q_latest_for_task T t).
Proof.
  unfold q_latest_for_task, keys_unique. destruct (pick_latest (q_for_task T t)); simpl.
  - constructor; [simpl; tauto | constructor].
  - constructor.
Qed.

(* ================================================================== bulk load *)
Lemma db_insert_some r d d' :
  db_insert r d = Some d' ->
  ~ In (row_key r) (map row_key (db_view d)) /\
  d_committed d' = d_committed d /\ d_pending d' = d_pending d ++ [r].
Proof.
  unfold db_insert. destruct (has_key (row_key r) (db_view d)) eqn:E; [discriminate|].
  intros H. inversion H; subst; simpl. apply has_key_false in E. auto.
Qed.

Lemma bulk_load_true rows : forall d d',
  bulk_load rows d = (d', true) ->
  d_committed d' = d_committed d /\ d_pending d' = d_pending d ++ rows /\
  NoDup (map row_key rows) /\
  (forall r, In r rows -> ~ In (row_key r) (map row_key (db_view d))).
Proof.
  induction rows as [|r rows IH]; simpl; intros d d' H.
  - inversion H; subst. rewrite app_nil_r. split; [reflexivity|]. split; [reflexivity|].
    split; [constructor|]. intros r [].
  - destruct (db_insert r d) as [d1|] eqn:E; [|discriminate].
    apply db_insert_some in E as [Hn [Ec Ep]]. apply IH in H as [Hc [Hp [Hnd Hdis]]].
    split; [congruence|]. split; [rewrite Hp, Ep, <- app_assoc; reflexivity|].
    assert (Hview : db_view d1 = db_view d ++ [r]).
    { unfold db_view. rewrite Ec, Ep. now rewrite app_assoc. }
    split.
    + constructor; [|assumption]. intros Hin. apply in_map_iff in Hin as [r' [E' Hr']].
      apply (Hdis r' Hr'). rewrite Hview, map_app, in_app_iff. right. simpl. left. congruence.
    + intros r' [<-|Hr']; [assumption|]. intros Hin. apply (Hdis r' Hr').
      rewrite Hview, map_app, in_app_iff. now left.
Qed.

Lemma bulk_load_ok rows : forall d,
  NoDup (map row_key rows) ->
  (forall r, In r rows -> ~ In (row_key r) (map row_key (db_view d))) ->
  exists d', bulk_load rows d = (d', true).
Proof.
  induction rows as [|r rows IH]; simpl; intros d Hnd Hdis; [eauto|].
  inversion Hnd as [|? ? Hn Hnd']; subst.
  unfold db_insert. assert (E : has_key (row_key r) (db_view d) = false).
  { apply has_key_false. apply Hdis. now left. }
  rewrite E. apply IH; [assumption|].
  intros r' Hr'. unfold db_view. simpl. rewrite app_assoc, map_app, in_app_iff. simpl.
  intros [H|[H|[]]].
  - apply (Hdis r'); [now right | exact H].
  - apply Hn. rewrite H. now apply in_map.
Qed.

Lemma bulk_load_false_committed rows : forall d d',
  bulk_load rows d = (d', false) -> d_committed d' = d_committed d.
Proof.
  induction rows as [|r rows IH]; simpl; intros d d' H; [discriminate|].
  destruct (db_insert r d) as [d1|] eqn:E.
  - apply db_insert_some in E as [_ [Ec _]]. apply IH in H. congruence.
  - inversion H; reflexivity.
Qed.

(* the loop over cursors is one bulk load of their concatenation *)
Lemma copy_loop_ok bs : forall d n d' m,
  copy_loop bs d n = (d', Some m) ->
  bulk_load (concat bs) d = (d', true) /\ m = (n + length (concat bs))%nat.
Proof.
  induction bs as [|b bs IH]; simpl; intros d n d' m H.
  - inversion H; subst. split; [reflexivity | lia].
  - destruct (bulk_load b d) as [d1 [|]] eqn:E; [|discriminate].
    apply IH in H as [H1 H2]. split.
    + clear - E H1. revert d E. induction b as [|r b IHb]; simpl; intros d E.
      * inversion E; subst. assumption.
      * destruct (db_insert r d); [|discriminate]. now apply IHb.
    + rewrite app_length. lia.
Qed.

Lemma bulk_load_app b c : forall d,
  bulk_load (b ++ c) d =
  match bulk_load b d with (d1, true) => bulk_load c d1 | (d1, false) => (d1, false) end.
Proof.
  induction b as [|r b IH]; simpl; intros d; [reflexivity|].
  destruct (db_insert r d); [apply IH | reflexivity].
Qed.

Lemma copy_loop_total bs : forall d n,
  (exists d', bulk_load (concat bs) d = (d', true)) ->
  exists d', copy_loop bs d n = (d', Some (n + length (concat bs))%nat).
Proof.
  induction bs as [|b bs IH]; simpl; intros d n [d' H].
  - exists d. f_equal. f_equal. lia.
  - rewrite bulk_load_app in H. destruct (bulk_load b d) as [d1 [|]] eqn:E.
    + destruct (IH d1 (n + length b)%nat (ex_intro _ d' H)) as [d2 H2]. exists d2.
      rewrite H2. rewrite app_length. f_equal. f_equal. lia.
    + inversion H.
Qed.

(* ================================================================== traversal *)
Inductive Reach (g : graph) (root : str) : str -> Prop :=
| reach_root : Reach g root root
| reach_step : forall u t d,
    Reach g root u -> get_task g u = Some t -> In d (t_deps t) -> Reach g root d.

Lemma push_deps_In deps vis : forall st y,
  In y (push_deps deps vis st) <-> In y st \/ (In y deps /\ ~ In y vis).
Proof.
  unfold push_deps. induction deps as [|d deps IH]; simpl; intros st y; [tauto|].
  rewrite IH. destruct (mem d vis) eqn:E.
  - apply mem_In in E. split; [tauto|]. intros [H|[[<-|H] Hn]]; tauto.
  - apply mem_false in E. simpl. split.
    + intros [[<-|H]|H]; tauto.
    + intros [H|[[<-|H] Hn]]; tauto.
Qed.

Lemma push_deps_length deps vis : forall st,
  (length (push_deps deps vis st) <= length st + length deps)%nat.
Proof.
  unfold push_deps. induction deps as [|d deps IH]; simpl; intros st; [lia|].
  destruct (mem d vis).
  - specialize (IH st). lia.
  - specialize (IH (d :: st)). simpl in IH. lia.
Qed.

(* dependency edges that leave a task not yet visited *)
Fixpoint weight (g : graph) (vis : list str) : nat :=
  match g with
  | [] => O
  | (k, t) :: g' => ((if mem k vis then O else length (t_deps t)) + weight g' vis)%nat
  end.

Lemma weight_mono g vis x : (weight g (x :: vis) <= weight g vis)%nat.
Proof.
  induction g as [|[k t] g IH]; simpl; [lia|].
  destruct (str_eqb k x); simpl; destruct (mem k vis); simpl; lia.
Qed.

Lemma weight_visit g : forall vis cur t,
  get_task g cur = Some t -> mem cur vis = false ->
  (weight g (cur :: vis) + length (t_deps t) <= weight g vis)%nat.
Proof.
  induction g as [|[k t0] g IH]; simpl; intros vis cur t Hg Hm; [discriminate|].
  destruct (str_eqb k cur) eqn:E.
  - inversion Hg; subst. apply str_eqb_spec in E. subst. rewrite Hm. simpl.
    pose proof (weight_mono g vis cur). lia.
  - specialize (IH vis cur t Hg Hm). simpl. destruct (mem k vis); simpl; lia.
Qed.

Lemma weight_le_edges g vis : (weight g vis <= edges g)%nat.
Proof.
  induction g as [|[k t] g IH]; simpl; [lia|]. destruct (mem k vis); simpl; lia.
Qed.

Lemma traverse_loop_fuel g : forall fuel stack vis calls,
  (length stack + weight g vis < fuel)%nat ->
  traverse_loop fuel g stack vis calls <> TFuel.
Proof.
  induction fuel as [|f IH]; intros stack vis calls Hlt; [lia|].
  simpl. destruct stack as [|cur st]; [discriminate|].
  destruct (mem cur vis) eqn:Em.
  - apply IH. simpl in Hlt. lia.
  - destruct (get_task g cur) as [t|] eqn:Eg; [|discriminate].
    apply IH. pose proof (weight_visit g vis cur t Eg Em).
    pose proof (push_deps_length (t_deps t) (cur :: vis) st). simpl in Hlt. lia.
Qed.

Record tinv (g : graph) (root : str) (stack vis calls : list str) : Prop := {
  ti_calls : calls = vis;
  ti_nodup : NoDup vis;
  ti_reach : forall v, In v vis \/ In v stack -> Reach g root v;
  ti_closed : forall v t d, In v vis -> get_task g v = Some t -> In d (t_deps t) ->
                            In d vis \/ In d stack;
  ti_root : In root vis \/ In root stack
}.

Lemma traverse_loop_spec g root : forall fuel stack vis calls l,
  tinv g root stack vis calls ->
  traverse_loop fuel g stack vis calls = TOk l ->
  NoDup l /\ forall x, In x l <-> Reach g root x.
Proof.
  induction fuel as [|f IH]; intros stack vis calls l Hinv H; [discriminate|].
  simpl in H. destruct stack as [|cur st].
  - inversion H; subst. destruct Hinv as [Hc Hnd Hr Hcl Hroot]. subst calls. split.
    + now apply NoDup_rev.
    + intros x. rewrite <- in_rev. split; [intros; apply Hr; now left|].
      intros HR. induction HR as [|u t d HR IHR Hg Hd].
      * destruct Hroot as [?|[]]; assumption.
      * destruct (Hcl u t d IHR Hg Hd) as [?|[]]; assumption.
  - destruct (mem cur vis) eqn:Em.
    + apply mem_In in Em. apply (IH st vis calls l); [|assumption].
      destruct Hinv as [Hc Hnd Hr Hcl Hroot]. constructor; auto.
      * intros v [Hv|Hv]; apply Hr; [now left | right; now right].
      * intros v t d Hv Hg Hd. destruct (Hcl v t d Hv Hg Hd) as [?|[<-|?]]; auto.
      * destruct Hroot as [?|[<-|?]]; auto.
    + apply mem_false in Em. destruct (get_task g cur) as [t|] eqn:Eg; [|discriminate].
      apply (IH _ _ _ l) in H; [assumption|].
      destruct Hinv as [Hc Hnd Hr Hcl Hroot]. constructor.
      * now f_equal.
      * now constructor.
      * intros v [[<-|Hv]|Hv].
        -- apply Hr. right. now left.
        -- apply Hr. now left.
        -- apply push_deps_In in Hv as [Hv|[Hv _]].
           ++ apply Hr. right. now right.
           ++ apply (reach_step g root cur t v); auto. apply Hr. right. now left.
      * intros v t' d [<-|Hv] Hg Hd.
        -- rewrite Eg in Hg. inversion Hg; subst t'.
           destruct (in_dec str_eq_dec d (cur :: vis)) as [Hin|Hnin]; [now left|].
           right. apply push_deps_In. right. split; assumption.
        -- destruct (Hcl v t' d Hv Hg Hd) as [?|[<-|?]].
           ++ left. now right.
           ++ left. now left.
           ++ right. apply push_deps_In. now left.
      * destruct Hroot as [?|[<-|?]].
        -- left. now right.
        -- left. now left.
        -- right. apply push_deps_In. now left.
Qed.

Lemma traverse_loop_no_missing g root :
  (forall v, Reach g root v -> get_task g v <> None) ->
  forall fuel stack vis calls id,
  tinv g root stack vis calls ->
  traverse_loop fuel g stack vis calls <> TMissing id.
Proof.
  intros Hclosed. induction fuel as [|f IH]; intros stack vis calls id Hinv; [discriminate|].
  simpl. destruct stack as [|cur st]; [discriminate|].
  destruct (mem cur vis) eqn:Em.
  - apply mem_In in Em. apply IH.
    destruct Hinv as [Hc Hnd Hr Hcl Hroot]. constructor; auto.
    + intros v [Hv|Hv]; apply Hr; [now left | right; now right].
    + intros v t d Hv Hg Hd. destruct (Hcl v t d Hv Hg Hd) as [?|[<-|?]]; auto.
    + destruct Hroot as [?|[<-|?]]; auto.
  - apply mem_false in Em. destruct (get_task g cur) as [t|] eqn:Eg.
    + apply IH. destruct Hinv as [Hc Hnd Hr Hcl Hroot]. constructor.
      * now f_equal.
      * now constructor.
      * intros v [[<-|Hv]|Hv].
        -- apply Hr. right. now left.
        -- apply Hr. now left.
        -- apply push_deps_In in Hv as [Hv|[Hv _]].
           ++ apply Hr. right. now right.
           ++ apply (reach_step g root cur t v); auto. apply Hr. right. now left.
      * intros v t' d [<-|Hv] Hg Hd.
        -- rewrite Eg in Hg. inversion Hg; subst t'.
           destruct (in_dec str_eq_dec d (cur :: vis)) as [Hin|Hnin]; [now left|].
           right. apply push_deps_In. right. split; assumption.
        -- destruct (Hcl v t' d Hv Hg Hd) as [?|[<-|?]].
           ++ left. now right.
           ++ left. now left.
           ++ right. apply push_deps_In. now left.
      * destruct Hroot as [?|[<-|?]].
        -- left. now right.
        -- left. now left.
        -- right. apply push_deps_In. now left.
    + exfalso. apply (Hclosed cur); [|assumption]. apply (ti_reach _ _ _ _ _ Hinv). right. now left.
Qed.

Lemma tinv_init g root : tinv g root [root] [] [].
Proof.
  constructor.
  - reflexivity.
  - constructor.
  - intros v [[]|[<-|[]]]. constructor.
  - intros v t d [].
  - right. now left.
Qed.

Lemma traverse_no_fuel g root : traverse g root <> TFuel.
Proof.
  unfold traverse, traverse_fuel. apply traverse_loop_fuel. simpl.
  pose proof (weight_le_edges g []). lia.
Qed.

Lemma traverse_spec g root l :
  traverse g root = TOk l -> NoDup l /\ forall x, In x l <-> Reach g root x.
Proof. unfold traverse. apply traverse_loop_spec. apply tinv_init. Qed.

Lemma traverse_total g root :
  (forall v, Reach g root v -> get_task g v <> None) -> exists l, traverse g root = TOk l.
Proof.
  intros Hc. pose proof (traverse_no_fuel g root) as H1.
  pose proof (fun id => traverse_loop_no_missing g root Hc (traverse_fuel g) [root] [] [] id (tinv_init g root)) as H2.
  fold (traverse g root) in H2. destruct (traverse g root) as [l|id|]; [eauto | | congruence].
  exfalso. now apply (H2 id).
Qed.

Theorem traverse_nodup : forall g root,
  traverse g root <> TFuel /\
  (forall l, traverse g root = TOk l -> NoDup l /\ forall x, In x l <-> Reach g root x) /\
  ((forall v, Reach g root v -> get_task g v <> None) -> exists l, traverse g root = TOk l).
Proof.
  intros g root. split; [apply traverse_no_fuel|]. split; [apply traverse_spec | apply traverse_total].
Qed.

(* ================================================================== archive selection *)
Lemma NoDup_app_intro {A} (l l' : list A) :
  NoDup l -> NoDup l' -> (forall x, In x l -> ~ In x l') -> NoDup (l ++ l').
Proof.
  induction l as [|a l IH]; simpl; intros H1 H2 Hd; [assumption|].
  inversion H1 as [|? ? Hn Hnd]; subst. constructor.
  - rewrite in_app_iff. intros [H|H]; [contradiction|]. apply (Hd a); auto.
  - apply IH; auto.
Qed.

Lemma concat_tasks_keys (f : str -> list row) ts :
  NoDup ts -> (forall T, keys_unique (f T)) -> (forall T r, In r (f T) -> r_task r = T) ->
  keys_unique (concat (map f ts)).
Proof.
  intros Hnd Hk Ht. unfold keys_unique in *. induction ts as [|T ts IH]; simpl; [constructor|].
  inversion Hnd as [|? ? Hn Hnd']; subst. rewrite map_app. apply NoDup_app_intro; auto.
  intros k H1 H2. apply in_map_iff in H1 as [r1 [E1 H1]]. apply in_map_iff in H2 as [r2 [E2 H2]].
  apply in_concat in H2 as [b [Hb H2]]. apply in_map_iff in Hb as [T' [<- HT']].
  apply Ht in H1. apply Ht in H2. apply Hn.
  assert (T = T'); [|congruence]. subst k. unfold row_key in E2. inversion E2. congruence.
Qed.

Lemma batches_keys src tasks latest :
  keys_unique src -> (forall ts, tasks = Some ts -> NoDup ts) ->
  keys_unique (concat (batches src tasks latest)).
Proof.
  intros Hk Hts. unfold batches. destruct tasks as [ts|].
  - apply concat_tasks_keys; [now apply Hts | |].
    + intros T. destruct latest; [apply q_latest_for_task_keys|].
      unfold q_for_task. now apply NoDup_map_filter.
    + intros T r. destruct latest; intros H.
      * now apply q_latest_for_task_sub in H.
      * now apply q_for_task_In in H.
  - simpl. rewrite app_nil_r. destruct latest; [now apply q_latest_per_task_keys | assumption].
Qed.

Definition selected (g : graph) (target : option str) (latest : bool) (t : table) (r : row) : Prop :=
  In r t /\ (latest = true -> newest t r) /\
  (forall T, target = Some T -> Reach g T (r_task r) /\ archivable g (r_task r) = true).

Lemma compute_tasks_spec g T ts :
  compute_tasks_to_archive g (Some T) = inr (Some ts) ->
  NoDup ts /\ forall x, In x ts <-> Reach g T x /\ archivable g x = true.
Proof.
  simpl. destruct (traverse g T) as [l| |] eqn:E; try discriminate.
  intros H. inversion H; subst. apply traverse_spec in E as [Hnd Hin]. split.
  - now apply NoDup_filter.
  - intros x. rewrite filter_In, Hin. tauto.
Qed.

Lemma compute_tasks_none g tasks : compute_tasks_to_archive g None = inr tasks -> tasks = None.
Proof. simpl. congruence. Qed.

Lemma batches_In g target latest t tasks r :
  keys_unique t ->
  compute_tasks_to_archive g target = inr tasks ->
  (In r (concat (batches t tasks latest)) <-> selected g target latest t r).
Proof.
  intros Hk Hc. unfold selected. destruct target as [T|].
  - destruct tasks as [ts|]; [|simpl in Hc; destruct (traverse g T); discriminate].
    apply compute_tasks_spec in Hc as [_ Hts]. unfold batches. rewrite in_concat. split.
    + intros [b [Hb Hr]]. apply in_map_iff in Hb as [T' [<- HT']]. apply Hts in HT' as [HR HA].
      destruct latest.
      * apply q_latest_for_task_In in Hr as [H1 [H2 H3]]; [|assumption]. subst T'.
        split; [assumption|]. split; [auto|]. intros T0 E. inversion E; subst. auto.
      * apply q_for_task_In in Hr as [H1 H2]. subst T'.
        split; [assumption|]. split; [discriminate|]. intros T0 E. inversion E; subst. auto.
    + intros [H1 [H2 H3]]. destruct (H3 T eq_refl) as [HR HA].
      exists (if latest then q_latest_for_task (r_task r) t else q_for_task (r_task r) t). split.
      * apply in_map_iff. exists (r_task r). split; [reflexivity|]. apply Hts. auto.
      * destruct latest.
        -- apply q_latest_for_task_In; auto.
        -- apply q_for_task_In; auto.
  - apply compute_tasks_none in Hc. subst tasks. simpl. rewrite app_nil_r. destruct latest.
    + rewrite q_latest_per_task_In. split.
      * intros [H1 H2]. split; [assumption|]. split; [auto | discriminate].
      * intros [H1 [H2 _]]. auto.
    + unfold q_all. split.
      * intros H. split; [assumption|]. split; discriminate.
      * tauto.
Qed.

(* what a successful archive is made of *)
Lemma archive_ok_inv g target latest P P' A :
  archive g target latest P = (P', AOk A) ->
  exists tasks,
    compute_tasks_to_archive g target = inr tasks /\
    a_rows A = concat (batches (p_rows P) tasks latest) /\
    keys_unique (a_rows A) /\ a_rows A <> [] /\
    collect_dirs (a_rows A) (p_dirs P) = Some (a_dirs A) /\
    P' = set_aidx P None.
Proof.
  unfold archive. destruct (compute_tasks_to_archive g target) as [err|tasks] eqn:Ec.
  - destruct target as [T|]; simpl in Ec; [|discriminate].
    destruct (traverse g T); inversion Ec; subst; intros H; inversion H.
  - assert (G : (let P_end := set_aidx P None in
       match copy_entries_to (p_rows P) tasks latest (db_open []) with
       | (_, None) => (P_end, AIntegrity)
       | (idx, Some n) =>
         if Nat.eqb n 0 then (P_end, ANoOutputs)
         else let rows := q_all (d_committed (db_commit idx)) in
              match collect_dirs rows (p_dirs P) with
              | None => (P_end, ATarFailed)
              | Some ds => (P_end, AOk {| a_rows := rows; a_dirs := ds |})
              end
       end) = (P', AOk A) ->
         a_rows A = concat (batches (p_rows P) tasks latest) /\
         keys_unique (a_rows A) /\ a_rows A <> [] /\
         collect_dirs (a_rows A) (p_dirs P) = Some (a_dirs A) /\ P' = set_aidx P None).
    { cbv zeta. unfold copy_entries_to.
      destruct (copy_loop (batches (p_rows P) tasks latest) (db_open []) 0) as [idx [n|]] eqn:El;
        [|intros H; inversion H].
      apply copy_loop_ok in El as [Hb Hn]. apply bulk_load_true in Hb as [Hc [Hp [Hnd _]]].
      simpl in Hc, Hp.
      assert (Hrows : q_all (d_committed (db_commit idx)) = concat (batches (p_rows P) tasks latest)).
      { unfold q_all, db_commit, db_view. simpl. now rewrite Hc, Hp. }
      rewrite Hrows. destruct (Nat.eqb n 0) eqn:En; [intros H; inversion H|].
      destruct (collect_dirs (concat (batches (p_rows P) tasks latest)) (p_dirs P)) as [ds|] eqn:Ed;
        [|intros H; inversion H].
      intros H. inversion H; subst. simpl. repeat split; auto.
      intros E. rewrite E in En. simpl in En. discriminate. }
    destruct tasks as [[|T ts]|]; [intros H; inversion H | |];
      intros H; eexists; (split; [reflexivity|]); apply G; exact H.
Qed.

Theorem archive_selection g target latest P P' A :
  keys_unique (p_rows P) ->
  archive g target latest P = (P', AOk A) ->
  keys_unique (a_rows A) /\
  (forall r, In r (a_rows A) <-> selected g target latest (p_rows P) r) /\
  (target = None -> latest = false -> a_rows A = p_rows P).
Proof.
  intros Hk H. apply archive_ok_inv in H as [tasks [Hc [Hr [Hu [_ [_ _]]]]]].
  split; [assumption|]. split.
  - intros r. rewrite Hr. now apply batches_In.
  - intros -> ->. apply compute_tasks_none in Hc. subst tasks. rewrite Hr. simpl. apply app_nil_r.
Qed.

(* with the repaired traversal the archive index is never loaded with the same row twice *)
Theorem archive_no_integrity g target latest P :
  keys_unique (p_rows P) ->
  snd (archive g target latest P) <> AIntegrity /\ snd (archive g target latest P) <> AFuel.
Proof.
  intros Hk. unfold archive.
  destruct (compute_tasks_to_archive g target) as [err|tasks] eqn:Ec.
  - simpl. destruct target as [T|]; simpl in Ec; [|discriminate].
    pose proof (traverse_no_fuel g T). destruct (traverse g T); inversion Ec; subst; split; congruence.
  - assert (Hts : forall ts, tasks = Some ts -> NoDup ts).
    { intros ts ->. destruct target as [T|]; [|simpl in Ec; discriminate].
      now apply compute_tasks_spec in Ec as [? _]. }
    pose proof (batches_keys (p_rows P) tasks latest Hk Hts) as Hnd.
    assert (Hl : exists d', copy_entries_to (p_rows P) tasks latest (db_open [])
                            = (d', Some (0 + length (concat (batches (p_rows P) tasks latest)))%nat)).
    { unfold copy_entries_to. apply copy_loop_total. apply bulk_load_ok; [assumption|].
      intros r _. simpl. tauto. }
    destruct Hl as [d' Hl].
    assert (G : forall (X : proj * ares),
      X = (let P_end := set_aidx P None in
       match copy_entries_to (p_rows P) tasks latest (db_open []) with
       | (_, None) => (P_end, AIntegrity)
       | (idx, Some n) =>
         if Nat.eqb n 0 then (P_end, ANoOutputs)
         else let rows := q_all (d_committed (db_commit idx)) in
              match collect_dirs rows (p_dirs P) with
              | None => (P_end, ATarFailed)
              | Some ds => (P_end, AOk {| a_rows := rows; a_dirs := ds |})
              end
       end) -> snd X <> AIntegrity /\ snd X <> AFuel).
    { intros X ->. cbv zeta. rewrite Hl.
      destruct (Nat.eqb _ 0); [simpl; split; discriminate|].
      destruct (collect_dirs _ (p_dirs P)); simpl; split; discriminate. }
    destruct tasks as [[|T ts]|]; [simpl; split; discriminate | now apply G | now apply G].
Qed.

(* archiving leaves the recorded versions and the outputs of the source project alone *)
Theorem archive_source_unchanged g target latest P :
  p_rows (fst (archive g target latest P)) = p_rows P /\
  p_dirs (fst (archive g target latest P)) = p_dirs P /\
  p_stage (fst (archive g target latest P)) = p_stage P.
Proof.
  unfold archive. destruct (compute_tasks_to_archive g target) as [err|tasks]; [simpl; auto|].
  assert (G : forall (X : proj * ares),
      X = (let P_end := set_aidx P None in
       match copy_entries_to (p_rows P) tasks latest (db_open []) with
       | (_, None) => (P_end, AIntegrity)
       | (idx, Some n) =>
         if Nat.eqb n 0 then (P_end, ANoOutputs)
         else let rows := q_all (d_committed (db_commit idx)) in
              match collect_dirs rows (p_dirs P) with
              | None => (P_end, ATarFailed)
              | Some ds => (P_end, AOk {| a_rows := rows; a_dirs := ds |})
              end
       end) -> p_rows (fst X) = p_rows P /\ p_dirs (fst X) = p_dirs P /\ p_stage (fst X) = p_stage P).
  { intros X ->. cbv zeta. destruct (copy_entries_to _ _ _ _) as [idx [n|]]; [|simpl; auto].
    destruct (Nat.eqb n 0); [simpl; auto|]. destruct (collect_dirs _ _); simpl; auto. }
  destruct tasks as [[|T ts]|]; [simpl; auto | now apply G | now apply G].
Qed.

Lemma collect_dirs_spec rows f : forall ds,
  collect_dirs rows f = Some ds ->
  forall r, In r rows ->
    exists c, fs_get (row_key r) f = Some c /\ fs_get (row_key r) ds = Some c.
Proof.
  induction rows as [|r0 rows IH]; simpl; intros ds H r Hr; [destruct Hr|].
  destruct (fs_get (row_key r0) f) as [c0|] eqn:E0; [|discriminate].
  destruct (collect_dirs rows f) as [ds'|]; [|discriminate]. inversion H; subst. simpl.
  destruct (key_eqb (row_key r0) (row_key r)) eqn:Ek.
  - apply key_eqb_spec in Ek. rewrite <- Ek. eauto.
  - destruct Hr as [->|Hr]; [rewrite key_eqb_refl in Ek; discriminate|]. now apply (IH ds').
Qed.

(* ================================================================== restore *)
Definition dirs_ext (f f' : fs) : Prop := forall k c, fs_get k f = Some c -> fs_get k f' = Some c.

Lemma dirs_ext_refl f : dirs_ext f f.
Proof. intros k c H. exact H. Qed.
Lemma dirs_ext_trans f1 f2 f3 : dirs_ext f1 f2 -> dirs_ext f2 f3 -> dirs_ext f1 f3.
Proof. intros H1 H2 k c H. apply H2, H1, H. Qed.

Lemma fs_get_snoc k f k0 c0 :
  fs_get k (f ++ [(k0, c0)]) =
  match fs_get k f with
  | Some c => Some c
  | None => if key_eqb k0 k then Some c0 else None
  end.
Proof.
  induction f as [|[k1 c1] f IH]; simpl; [reflexivity|]. destruct (key_eqb k1 k); auto.
Qed.

Lemma dirs_ext_snoc f k0 c0 : fs_get k0 f = None -> dirs_ext f (f ++ [(k0, c0)]).
Proof. intros _ k c H. rewrite fs_get_snoc, H. reflexivity. Qed.

Definition committed (st : rstate) : table := d_committed (s_db st).

Lemma exec1_dirs e x i ins st st' ok :
  exec1 e x i ins st = (st', ok) -> dirs_ext (s_dirs st) (s_dirs st').
Proof.
  unfold exec1. destruct (e_fail e i).
  - destruct ins; try (intros H; inversion H; subst; apply dirs_ext_refl).
    destruct (fs_get k (s_dirs st)) eqn:E; [intros H; inversion H; subst; apply dirs_ext_refl|].
    destruct (e_partial e i); intros H; inversion H; subst; simpl;
      [now apply dirs_ext_snoc | apply dirs_ext_refl].
  - destruct ins; try (intros H; inversion H; subst; apply dirs_ext_refl).
    + destruct (db_insert r (s_db st)); intros H; inversion H; subst; apply dirs_ext_refl.
    + destruct (fs_get k (s_dirs st)) eqn:E; [intros H; inversion H; subst; apply dirs_ext_refl|].
      destruct (fs_get k (x_dirs x)); intros H; inversion H; subst; simpl;
        [now apply dirs_ext_snoc | apply dirs_ext_refl].
Qed.

Lemma exec1_committed e x i ins st st' ok :
  ins <> ICommit -> exec1 e x i ins st = (st', ok) -> committed st' = committed st.
Proof.
  intros Hne. unfold exec1, committed. destruct (e_fail e i).
  - destruct ins; try (intros H; inversion H; subst; reflexivity).
    destruct (fs_get k (s_dirs st)); [intros H; inversion H; subst; reflexivity|].
    destruct (e_partial e i); intros H; inversion H; subst; reflexivity.
  - destruct ins; try (intros H; inversion H; subst; reflexivity); try congruence.
    + destruct (db_insert r (s_db st)) as [d|] eqn:E; intros H; inversion H; subst; [|reflexivity].
      simpl. now apply db_insert_some in E as [_ [Ec _]].
    + destruct (fs_get k (s_dirs st)); [intros H; inversion H; subst; reflexivity|].
      destruct (fs_get k (x_dirs x)); intros H; inversion H; subst; reflexivity.
Qed.

Lemma run_try_app e x p1 : forall p2 i st,
  run_try e x i (p1 ++ p2) st =
  match run_try e x i p1 st with
  | (tr1, fin1, true) =>
    match run_try e x (i + length p1) p2 fin1 with
    | (tr2, fin2, ok2) => (tr1 ++ tr2, fin2, ok2)
    end
  | (tr1, fin1, false) => (tr1, fin1, false)
  end.
Proof.
  induction p1 as [|ins p1 IH]; intros p2 i st; simpl.
  - rewrite Nat.add_0_r. destruct (run_try e x i p2 st) as [[tr fin] ok]. reflexivity.
  - destruct (exec1 e x i ins st) as [st' [|]]; [|reflexivity].
    rewrite IH. replace (S i + length p1)%nat with (i + S (length p1))%nat by lia.
    destruct (run_try e x (S i) p1 st') as [[tr1 fin1] [|]]; [|reflexivity].
    destruct (run_try e x (i + S (length p1)) p2 fin1) as [[tr2 fin2] ok2]. reflexivity.
Qed.

(* a block without the commit never changes the committed rows nor an existing directory *)
Lemma run_try_nocommit e x prog : forall i st tr fin ok,
  ~ In ICommit prog ->
  run_try e x i prog st = (tr, fin, ok) ->
  forall s, In s (fin :: tr) ->
    committed s = committed st /\ dirs_ext (s_dirs st) (s_dirs s).
Proof.
  induction prog as [|ins prog IH]; intros i st tr fin ok Hn H s Hs; simpl in H.
  - inversion H; subst. destruct Hs as [<-|[]]. split; [reflexivity | apply dirs_ext_refl].
  - destruct (exec1 e x i ins st) as [st' [|]] eqn:E.
    + destruct (run_try e x (S i) prog st') as [[tr' fin'] ok'] eqn:E2. inversion H; subst.
      assert (Hc : committed st' = committed st).
      { apply (exec1_committed e x i ins st st' true); [|assumption]. intros ->. apply Hn. now left. }
      pose proof (exec1_dirs _ _ _ _ _ _ _ E) as Hd.
      assert (Hn' : ~ In ICommit prog) by (intros ?; apply Hn; now right).
      destruct Hs as [<-|[<-|Hs]].
      * destruct (IH _ _ _ _ _ Hn' E2 fin (or_introl eq_refl)) as [H1 H2].
        split; [congruence | eapply dirs_ext_trans; eauto].
      * split; assumption.
      * destruct (IH _ _ _ _ _ Hn' E2 s (or_intror Hs)) as [H1 H2].
        split; [congruence | eapply dirs_ext_trans; eauto].
    + inversion H; subst.
      assert (Hc : committed fin = committed st).
      { apply (exec1_committed e x i ins st fin false); [|assumption]. intros ->. apply Hn. now left. }
      pose proof (exec1_dirs _ _ _ _ _ _ _ E) as Hd.
      destruct Hs as [<-|[<-|[]]]; split; assumption.
Qed.

(* the try block up to the commit *)
Definition pre_program (x : extraction) : list instr :=
  [IMkdir; IExtract; ICheckIndex; ILoadIndex]
  ++ map IInsert (staged_rows x)
  ++ [IListVersions]
  ++ flat_map (fun r => [ICheckSrc (row_key r); ICopy (row_key r); ICheckDst (row_key r)]) (staged_rows x).

Lemma program_split x : program x = pre_program x ++ [ICommit].
Proof. unfold program, pre_program. now rewrite <- !app_assoc. Qed.

Lemma pre_program_nocommit x : ~ In ICommit (pre_program x).
Proof.
  unfold pre_program. rewrite !in_app_iff. intros [H|[H|[H|H]]].
  - simpl in H. repeat (destruct H as [H|H]; [discriminate|]). exact H.
  - apply in_map_iff in H as [r [E _]]. discriminate.
  - simpl in H. destruct H as [H|[]]. discriminate.
  - apply in_flat_map in H as [r [_ H]]. simpl in H.
    repeat (destruct H as [H|H]; [discriminate|]). exact H.
Qed.

Lemma last_snoc {A} (l : list A) a d : last (l ++ [a]) d = a.
Proof.
  induction l as [|b l IH]; simpl; [reflexivity|]. rewrite IH.
  destruct (l ++ [a]) eqn:E; [|reflexivity]. destruct l; discriminate.
Qed.

Lemma nth_or_last_In {A} (l : list A) d k : l <> [] -> In (nth k l (last l d)) l.
Proof.
  intros Hne. destruct (Nat.lt_ge_cases k (length l)) as [H|H].
  - now apply nth_In.
  - rewrite nth_overflow by assumption.
    destruct (exists_last Hne) as [l' [a ->]]. rewrite last_snoc. apply in_app_iff. right. now left.
Qed.

(* shape of a whole run *)
Inductive run_shape (e : env) (x : extraction) (st0 : rstate) : list rstate -> bool -> Prop :=
| shape_nofile : x_file x = false -> run_shape e x st0 [st0] false
| shape_fail_pre : forall tr fin,
    x_file x = true ->
    run_try e x 0 (pre_program x) st0 = (tr, fin, false) ->
    run_shape e x st0 (st0 :: tr ++ [rollback_st fin; rmtree_st (rollback_st fin)]) false
| shape_fail_commit : forall tr fin,
    x_file x = true ->
    run_try e x 0 (pre_program x) st0 = (tr, fin, true) ->
    e_fail e (length (pre_program x)) = true ->
    run_shape e x st0 (st0 :: (tr ++ [fin]) ++ [rollback_st fin; rmtree_st (rollback_st fin)]) false
| shape_ok : forall tr fin,
    x_file x = true ->
    run_try e x 0 (pre_program x) st0 = (tr, fin, true) ->
    e_fail e (length (pre_program x)) = false ->
    run_shape e x st0
      (st0 :: (tr ++ [with_db fin (db_commit (s_db fin))]) ++ [rmtree_st (with_db fin (db_commit (s_db fin)))]) true.

Lemma restore_states_shape e x st0 :
  run_shape e x st0 (fst (restore_states e x st0)) (snd (restore_states e x st0)).
Proof.
  unfold restore_states. destruct (x_file x) eqn:Ef; [|simpl; now constructor].
  cbn [negb]. rewrite program_split, run_try_app.
  destruct (run_try e x 0 (pre_program x) st0) as [[tr fin] [|]] eqn:E1.
  - cbn [run_try Nat.add]. unfold exec1.
    destruct (e_fail e (length (pre_program x))) eqn:Efail; cbn [fst snd].
    + now apply shape_fail_commit.
    + now apply shape_ok.
  - cbn [fst snd]. now apply shape_fail_pre.
Qed.

Definition state_ok (st0 fin_ok : rstate) (ok : bool) (s : rstate) : Prop :=
  dirs_ext (s_dirs st0) (s_dirs s) /\
  (committed s = committed st0 \/
   (ok = true /\ committed s = committed fin_ok /\ s_dirs s = s_dirs fin_ok)).

Lemma run_shape_inv e x st0 sts ok :
  run_shape e x st0 sts ok ->
  sts <> [] /\
  (forall s, In s sts -> state_ok st0 (last sts st0) ok s) /\
  (ok = false -> committed (last sts st0) = committed st0).
Proof.
  intros H. destruct H as [Hf | tr fin Hf Hr | tr fin Hf Hr He | tr fin Hf Hr He].
  - split; [discriminate|]. split; [|reflexivity].
    intros s [<-|[]]. split; [apply dirs_ext_refl | now left].
  - split; [discriminate|].
    pose proof (run_try_nocommit e x _ _ _ _ _ _ (pre_program_nocommit x) Hr) as Hall.
    destruct (Hall fin (or_introl eq_refl)) as [Hfc Hfd].
    split.
    + intros s [<-|Hs]; [split; [apply dirs_ext_refl | now left]|].
      apply in_app_iff in Hs as [Hs|[<-|[<-|[]]]].
      * destruct (Hall s (or_intror Hs)) as [H1 H2]. split; [assumption | now left].
      * split; [exact Hfd | left; exact Hfc].
      * split; [exact Hfd | left; exact Hfc].
    + intros _.
      replace (st0 :: tr ++ [rollback_st fin; rmtree_st (rollback_st fin)])
        with ((st0 :: tr ++ [rollback_st fin]) ++ [rmtree_st (rollback_st fin)])
        by (simpl; now rewrite <- app_assoc).
      rewrite last_snoc. exact Hfc.
  - split; [discriminate|].
    pose proof (run_try_nocommit e x _ _ _ _ _ _ (pre_program_nocommit x) Hr) as Hall.
    destruct (Hall fin (or_introl eq_refl)) as [Hfc Hfd].
    split.
    + intros s [<-|Hs]; [split; [apply dirs_ext_refl | now left]|].
      apply in_app_iff in Hs as [Hs|[<-|[<-|[]]]].
      * apply in_app_iff in Hs as [Hs|[<-|[]]].
        -- destruct (Hall s (or_intror Hs)) as [H1 H2]. split; [assumption | now left].
        -- split; [exact Hfd | left; exact Hfc].
      * split; [exact Hfd | left; exact Hfc].
      * split; [exact Hfd | left; exact Hfc].
    + intros _.
      replace (st0 :: (tr ++ [fin]) ++ [rollback_st fin; rmtree_st (rollback_st fin)])
        with ((st0 :: (tr ++ [fin]) ++ [rollback_st fin]) ++ [rmtree_st (rollback_st fin)])
        by (simpl; now rewrite <- !app_assoc).
      rewrite last_snoc. exact Hfc.
  - split; [discriminate|].
    pose proof (run_try_nocommit e x _ _ _ _ _ _ (pre_program_nocommit x) Hr) as Hall.
    destruct (Hall fin (or_introl eq_refl)) as [Hfc Hfd].
    set (cm := with_db fin (db_commit (s_db fin))).
    assert (Hlast : last (st0 :: (tr ++ [cm]) ++ [rmtree_st cm]) st0 = rmtree_st cm).
    { replace (st0 :: (tr ++ [cm]) ++ [rmtree_st cm]) with ((st0 :: tr ++ [cm]) ++ [rmtree_st cm])
        by reflexivity. apply last_snoc. }
    split; [|discriminate]. rewrite Hlast.
    intros s [<-|Hs]; [split; [apply dirs_ext_refl | now left]|].
    apply in_app_iff in Hs as [Hs|[<-|[]]].
    + apply in_app_iff in Hs as [Hs|[<-|[]]].
      * destruct (Hall s (or_intror Hs)) as [H1 H2]. split; [assumption | now left].
      * split; [exact Hfd|]. right. auto.
    + split; [exact Hfd|]. right. auto.
Qed.

(* C12: whatever the staged content, the project, the environment faults and the kill point *)
Theorem restore_atomic e x P k :
  let Q := restore_crash e x P k in
  dirs_ext (p_dirs P) (p_dirs Q) /\
  (p_rows Q = p_rows P \/
   (snd (restore e x P) = true /\
    p_rows Q = p_rows (fst (restore e x P)) /\ p_dirs Q = p_dirs (fst (restore e x P)))).
Proof.
  unfold restore_crash, restore.
  pose proof (restore_states_shape e x (init_state P)) as Hs.
  destruct (restore_states e x (init_state P)) as [sts ok]. simpl in Hs.
  apply run_shape_inv in Hs as [Hne [Hall _]].
  destruct (Hall _ (nth_or_last_In sts (init_state P) k Hne)) as [Hd Hc]. simpl.
  split; [exact Hd|]. destruct Hc as [Hc|[-> [Hc Hd']]]; [left; exact Hc | right; auto].
Qed.

Theorem restore_failure e x P Q :
  restore e x P = (Q, false) -> p_rows Q = p_rows P /\ dirs_ext (p_dirs P) (p_dirs Q).
Proof.
  unfold restore. pose proof (restore_states_shape e x (init_state P)) as Hs.
  destruct (restore_states e x (init_state P)) as [sts ok]. simpl in Hs.
  apply run_shape_inv in Hs as [Hne [Hall Hf]]. intros H. inversion H; subst. simpl.
  split; [now apply Hf|].
  assert (Hin : In (last sts (init_state P)) sts).
  { destruct (exists_last Hne) as [l' [a ->]]. rewrite last_snoc. apply in_app_iff. right. now left. }
  now destruct (Hall _ Hin) as [Hd _].
Qed.

(* ---- what a successful try block did *)
Lemma run_inserts e x rows : forall i st tr fin,
  run_try e x i (map IInsert rows) st = (tr, fin, true) ->
  bulk_load rows (s_db st) = (s_db fin, true) /\ s_dirs fin = s_dirs st.
Proof.
  induction rows as [|r rows IH]; simpl; intros i st tr fin H.
  - inversion H; subst. auto.
  - unfold exec1 in H. destruct (e_fail e i); [discriminate|].
    destruct (db_insert r (s_db st)) as [d|] eqn:E; [|discriminate].
    destruct (run_try e x (S i) (map IInsert rows) (with_db st d)) as [[tr' fin'] ok'] eqn:E2.
    inversion H; subst. apply IH in E2 as [H1 H2]. simpl in H1, H2. auto.
Qed.

Definition copy_triple (r : row) : list instr :=
  [ICheckSrc (row_key r); ICopy (row_key r); ICheckDst (row_key r)].

Lemma run_copies e x rows : forall i st tr fin,
  run_try e x i (flat_map copy_triple rows) st = (tr, fin, true) ->
  s_db fin = s_db st /\ dirs_ext (s_dirs st) (s_dirs fin) /\
  (forall r, In r rows ->
     fs_get (row_key r) (s_dirs st) = None /\
     exists c, fs_get (row_key r) (x_dirs x) = Some c /\ fs_get (row_key r) (s_dirs fin) = Some c) /\
  (forall k, ~ In k (map row_key rows) -> fs_get k (s_dirs fin) = fs_get k (s_dirs st)).
Proof.
  induction rows as [|r rows IH]; intros i st tr fin H.
  - simpl in H. inversion H; subst. split; [reflexivity|]. split; [apply dirs_ext_refl|].
    split; [intros r []|reflexivity].
  - change (flat_map copy_triple (r :: rows)) with
      (ICheckSrc (row_key r) :: ICopy (row_key r) :: ICheckDst (row_key r) :: flat_map copy_triple rows) in H.
    cbn [run_try] in H. unfold exec1 in H.
    destruct (e_fail e i); [discriminate|].
    destruct (is_some (fs_get (row_key r) (x_dirs x))) eqn:Esrc; [|discriminate].
    destruct (e_fail e (S i)).
    { destruct (fs_get (row_key r) (s_dirs st)); [discriminate|].
      destruct (e_partial e (S i)); discriminate. }
    destruct (fs_get (row_key r) (s_dirs st)) eqn:Edst; [discriminate|].
    destruct (fs_get (row_key r) (x_dirs x)) as [c|] eqn:Ex; [|discriminate].
    destruct (e_fail e (S (S i))); [discriminate|].
    set (st1 := with_dirs st (s_dirs st ++ [(row_key r, c)])) in *.
    destruct (is_some (fs_get (row_key r) (s_dirs st1))); [|discriminate].
    destruct (run_try e x (S (S (S i))) (flat_map copy_triple rows) st1) as [[tr' fin'] ok'] eqn:E2.
    inversion H; subst. apply IH in E2 as [H1 [H2 [H3 H4]]].
    assert (Hst1 : forall k, fs_get k (s_dirs st1) =
              match fs_get k (s_dirs st) with Some c' => Some c' | None => if key_eqb (row_key r) k then Some c else None end).
    { intros k. unfold st1. simpl. apply fs_get_snoc. }
    split; [exact H1|]. split.
    { eapply dirs_ext_trans; [|exact H2]. unfold st1. simpl. now apply dirs_ext_snoc. }
    split.
    + intros r' [<-|Hr'].
      * split; [assumption|]. exists c. split; [assumption|]. apply H2.
        rewrite Hst1, Edst, key_eqb_refl. reflexivity.
      * destruct (H3 r' Hr') as [Hn [c' [Hx Hf]]]. rewrite Hst1 in Hn.
        destruct (fs_get (row_key r') (s_dirs st)); [discriminate|]. split; [reflexivity|]. eauto.
    + intros k Hk. simpl in Hk. rewrite H4 by tauto. rewrite Hst1.
      destruct (fs_get k (s_dirs st)); [reflexivity|].
      destruct (key_eqb (row_key r) k) eqn:Ek; [|reflexivity].
      apply key_eqb_spec in Ek. tauto.
Qed.

Lemma run_head e x st tr fin :
  run_try e x 0 [IMkdir; IExtract; ICheckIndex; ILoadIndex] st = (tr, fin, true) ->
  s_db fin = s_db st /\ s_dirs fin = s_dirs st /\ x_ok x = true /\ exists idx, x_index x = Some idx.
Proof.
  cbn [run_try]. unfold exec1.
  destruct (e_fail e 0); [discriminate|]. destruct (e_fail e 1); [discriminate|].
  destruct (x_ok x); [|discriminate]. destruct (e_fail e 2); [discriminate|].
  destruct (x_index x) as [idx|]; [|discriminate]. simpl. destruct (e_fail e 3); [discriminate|].
  intros H. inversion H; subst. simpl. eauto.
Qed.

Lemma run_list e x i st tr fin :
  run_try e x i [IListVersions] st = (tr, fin, true) -> fin = st.
Proof.
  cbn [run_try]. unfold exec1. destruct (e_fail e i); [discriminate|]. intros H. now inversion H.
Qed.

Lemma pre_program_ok e x st tr fin :
  run_try e x 0 (pre_program x) st = (tr, fin, true) ->
  exists idx, x_index x = Some idx /\ x_ok x = true /\
    d_committed (s_db fin) = d_committed (s_db st) /\
    d_pending (s_db fin) = d_pending (s_db st) ++ idx /\
    dirs_ext (s_dirs st) (s_dirs fin) /\
    (forall r, In r idx ->
       fs_get (row_key r) (s_dirs st) = None /\
       exists c, fs_get (row_key r) (x_dirs x) = Some c /\ fs_get (row_key r) (s_dirs fin) = Some c) /\
    (forall k, ~ In k (map row_key idx) -> fs_get k (s_dirs fin) = fs_get k (s_dirs st)).
Proof.
  unfold pre_program. rewrite run_try_app.
  destruct (run_try e x 0 [IMkdir; IExtract; ICheckIndex; ILoadIndex] st) as [[tr1 f1] [|]] eqn:E1; [|discriminate].
  apply run_head in E1 as [Hdb1 [Hd1 [Hok [idx Hidx]]]].
  rewrite run_try_app.
  destruct (run_try e x _ (map IInsert (staged_rows x)) f1) as [[tr2 f2] [|]] eqn:E2.
  2:{ intros HH; discriminate HH. }
  apply run_inserts in E2 as [Hb Hd2]. apply bulk_load_true in Hb as [Hc [Hp _]].
  rewrite run_try_app.
  destruct (run_try e x _ [IListVersions] f2) as [[tr3 f3] [|]] eqn:E3.
  2:{ intros HH; discriminate HH. }
  apply run_list in E3. subst f3.
  destruct (run_try e x _ (flat_map _ (staged_rows x)) f2) as [[tr4 f4] ok4] eqn:E4.
  intros H. inversion H; subst.
  apply (run_copies e x) in E4 as [Hdb4 [Hext [Hrows Hother]]].
  unfold staged_rows in *. rewrite Hidx in *.
  exists idx. split; [reflexivity|]. split; [assumption|].
  rewrite Hdb4, Hc, Hp, Hdb1, Hd2, Hd1 in *. repeat split; auto; now apply Hrows.
Qed.

Theorem restore_success e x P Q :
  restore e x P = (Q, true) ->
  exists idx, x_index x = Some idx /\
    p_rows Q = p_rows P ++ idx /\
    dirs_ext (p_dirs P) (p_dirs Q) /\
    (forall r, In r idx ->
       fs_get (row_key r) (p_dirs P) = None /\
       exists c, fs_get (row_key r) (x_dirs x) = Some c /\ fs_get (row_key r) (p_dirs Q) = Some c) /\
    (forall k, ~ In k (map row_key idx) -> fs_get k (p_dirs Q) = fs_get k (p_dirs P)).
Proof.
  unfold restore. pose proof (restore_states_shape e x (init_state P)) as Hs.
  destruct (restore_states e x (init_state P)) as [sts ok]. simpl in Hs.
  intros H. inversion H; subst. clear H.
  inversion Hs as [ | | | tr fin Hf Hr He Hsts]; subst.
  replace (init_state P :: (tr ++ [with_db fin (db_commit (s_db fin))]) ++ [rmtree_st (with_db fin (db_commit (s_db fin)))])
    with ((init_state P :: tr ++ [with_db fin (db_commit (s_db fin))]) ++ [rmtree_st (with_db fin (db_commit (s_db fin)))])
    by reflexivity.
  rewrite last_snoc. simpl.
  apply pre_program_ok in Hr as [idx [Hidx [_ [Hc [Hp [Hext [Hrows Hother]]]]]]].
  exists idx. simpl in *. unfold db_view. rewrite Hc, Hp. simpl. repeat split; auto; now apply Hrows.
Qed.

(* ---- the converse: without faults a clean target restores an intact archive *)
Lemma run_inserts_ok e x rows : (forall i, e_fail e i = false) -> forall i st d',
  bulk_load rows (s_db st) = (d', true) ->
  exists tr, run_try e x i (map IInsert rows) st = (tr, with_db st d', true).
Proof.
  intros He. induction rows as [|r rows IH]; simpl; intros i st d' H.
  - inversion H; subst. exists []. destruct st as [d f s]; reflexivity.
  - unfold exec1. rewrite He. destruct (db_insert r (s_db st)) as [d|]; [|discriminate].
    destruct (IH (S i) (with_db st d) d' H) as [tr Htr]. rewrite Htr. eauto.
Qed.

Lemma run_copies_ok e x rows : (forall i, e_fail e i = false) -> forall i st,
  NoDup (map row_key rows) ->
  (forall r, In r rows -> fs_get (row_key r) (s_dirs st) = None /\ fs_get (row_key r) (x_dirs x) <> None) ->
  exists tr fin, run_try e x i (flat_map copy_triple rows) st = (tr, fin, true).
Proof.
  intros He. induction rows as [|r rows IH]; intros i st Hnd Hall.
  - simpl. eauto.
  - change (flat_map copy_triple (r :: rows)) with
      (ICheckSrc (row_key r) :: ICopy (row_key r) :: ICheckDst (row_key r) :: flat_map copy_triple rows).
    cbn [run_try]. unfold exec1. rewrite !He.
    destruct (Hall r (or_introl eq_refl)) as [Hn Hx].
    destruct (fs_get (row_key r) (x_dirs x)) as [c|] eqn:Ex; [|congruence]. simpl. rewrite Hn.
    set (st1 := with_dirs st (s_dirs st ++ [(row_key r, c)])).
    assert (E1 : fs_get (row_key r) (s_dirs st1) = Some c).
    { unfold st1. simpl. rewrite fs_get_snoc, Hn, key_eqb_refl. reflexivity. }
    rewrite E1. simpl. inversion Hnd as [|? ? Hnin Hnd']; subst.
    destruct (IH (S (S (S i))) st1 Hnd') as [tr [fin Hrun]].
    + intros r' Hr'. destruct (Hall r' (or_intror Hr')) as [H1 H2]. split; [|assumption].
      unfold st1. simpl. rewrite fs_get_snoc, H1.
      destruct (key_eqb (row_key r) (row_key r')) eqn:Ek; [|reflexivity].
      apply key_eqb_spec in Ek. exfalso. apply Hnin. rewrite Ek. now apply in_map.
    + rewrite Hrun. eauto.
Qed.

Lemma run_head_ok e x st idx :
  (forall i, e_fail e i = false) -> x_ok x = true -> x_index x = Some idx ->
  exists tr, run_try e x 0 [IMkdir; IExtract; ICheckIndex; ILoadIndex] st = (tr, with_stage st true, true).
Proof.
  intros He Hok Hidx. cbn [run_try]. unfold exec1. rewrite !He, Hok, Hidx. simpl. eauto.
Qed.

Lemma pre_program_run_ok e x st idx :
  (forall i, e_fail e i = false) -> x_ok x = true -> x_index x = Some idx ->
  keys_unique idx ->
  (forall r, In r idx ->
     ~ In (row_key r) (map row_key (db_view (s_db st))) /\
     fs_get (row_key r) (s_dirs st) = None /\ fs_get (row_key r) (x_dirs x) <> None) ->
  exists tr fin, run_try e x 0 (pre_program x) st = (tr, fin, true).
Proof.
  intros He Hok Hidx Hk Hall. unfold pre_program, staged_rows. rewrite Hidx.
  rewrite run_try_app. destruct (run_head_ok e x st idx He Hok Hidx) as [tr1 H1]. rewrite H1.
  set (st1 := with_stage st true).
  destruct (bulk_load_ok idx (s_db st1) Hk) as [d' Hd'].
  { intros r Hr. now apply Hall. }
  rewrite run_try_app.
  destruct (run_inserts_ok e x idx He (0 + length [IMkdir; IExtract; ICheckIndex; ILoadIndex])%nat st1 d' Hd') as [tr2 H2].
  rewrite H2. rewrite run_try_app. cbn [run_try]. unfold exec1 at 1. rewrite He.
  match goal with |- context [run_try e x ?i (flat_map ?f idx) ?s] =>
    destruct (run_copies_ok e x idx He i s Hk) as [tr4 [f4 H4]] end.
  { intros r Hr. destruct (Hall r Hr) as [_ [H3 H5]]. split; assumption. }
  unfold copy_triple in H4. rewrite H4. eauto.
Qed.

Lemma restore_ok_clean e x P idx :
  (forall i, e_fail e i = false) ->
  x_file x = true -> x_ok x = true -> x_index x = Some idx ->
  keys_unique idx ->
  (forall r, In r idx ->
     ~ In (row_key r) (map row_key (p_rows P)) /\
     fs_get (row_key r) (p_dirs P) = None /\ fs_get (row_key r) (x_dirs x) <> None) ->
  snd (restore e x P) = true.
Proof.
  intros He Hf Hok Hidx Hk Hall. unfold restore.
  pose proof (restore_states_shape e x (init_state P)) as Hs.
  destruct (restore_states e x (init_state P)) as [sts ok]. simpl in Hs. simpl.
  destruct (pre_program_run_ok e x (init_state P) idx He Hok Hidx Hk) as [tr [fin Hrun]].
  { intros r Hr. unfold db_view. simpl. rewrite app_nil_r. now apply Hall. }
  inversion Hs; subst; try reflexivity; congruence.
Qed.

(* C11: archive, then restore into a project that has none of the selected versions *)
Theorem archive_restore_roundtrip g target latest P P' A Q e :
  archive g target latest P = (P', AOk A) ->
  (forall i, e_fail e i = false) ->
  (forall r, In r (a_rows A) ->
     ~ In (row_key r) (map row_key (p_rows Q)) /\ fs_get (row_key r) (p_dirs Q) = None) ->
  exists Q',
    restore e (extraction_of A) Q = (Q', true) /\
    p_rows Q' = p_rows Q ++ a_rows A /\
    (forall r, In r (a_rows A) ->
       exists c, fs_get (row_key r) (p_dirs P) = Some c /\ fs_get (row_key r) (p_dirs Q') = Some c) /\
    (forall k, ~ In k (map row_key (a_rows A)) -> fs_get k (p_dirs Q') = fs_get k (p_dirs Q)) /\
    dirs_ext (p_dirs Q) (p_dirs Q').
Proof.
  intros Ha He Hq. apply archive_ok_inv in Ha as [tasks [_ [_ [Hk [_ [Hcd _]]]]]].
  pose proof (collect_dirs_spec _ _ _ Hcd) as Hdirs.
  assert (Hsucc : snd (restore e (extraction_of A) Q) = true).
  { apply (restore_ok_clean e (extraction_of A) Q (a_rows A)); auto.
    intros r Hr. destruct (Hq r Hr) as [H1 H2]. split; [assumption|]. split; [assumption|].
    simpl. destruct (Hdirs r Hr) as [c [_ Hc]]. congruence. }
  destruct (restore e (extraction_of A) Q) as [Q' ok] eqn:Er. simpl in Hsucc. subst ok.
  exists Q'. split; [reflexivity|].
  apply restore_success in Er as [idx [Hidx [Hrows [Hext [Hall Hother]]]]].
  simpl in Hidx. inversion Hidx; subst idx.
  split; [assumption|]. split; [|split; assumption].
  intros r Hr. destruct (Hall r Hr) as [_ [c [Hx Hq']]]. destruct (Hdirs r Hr) as [c' [Hp Hc']].
  simpl in Hx. exists c. split; [congruence | assumption].
Qed.

(* --latest: every task that is selected at all contributes exactly one row *)
Theorem archive_latest_one_per_task g target P P' A :
  keys_unique (p_rows P) ->
  archive g target true P = (P', AOk A) ->
  forall r0, In r0 (p_rows P) ->
    (forall T, target = Some T -> Reach g T (r_task r0) /\ archivable g (r_task r0) = true) ->
    exists r, In r (a_rows A) /\ r_task r = r_task r0 /\
      forall r', In r' (a_rows A) -> r_task r' = r_task r0 -> r' = r.
Proof.
  intros Hk Ha r0 Hr0 Ht. apply archive_selection in Ha as [_ [Hsel _]]; [|assumption].
  destruct (newest_exists (p_rows P) (r_task r0)) as [m [Hm [Em Hn]]]; [eauto|].
  exists m. split; [|split; [assumption|]].
  - apply Hsel. split; [assumption|]. split; [auto|]. rewrite Em. exact Ht.
  - intros r' Hr' Er'. apply Hsel in Hr' as [H1 [H2 _]]. specialize (H2 eq_refl).
    apply (keys_unique_inj (p_rows P)); auto. unfold row_key. f_equal; [congruence|].
    assert (r_ts m <= r_ts r') by (apply H2; [assumption | congruence]).
    assert (r_ts r' <= r_ts m) by (apply Hn; [assumption | congruence]).
    lia.
Qed.
