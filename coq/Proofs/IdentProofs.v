(* Lemmas behind Props/C20.v.  Everything that depends on the patterns of the source is proved
   under two decidable facts about the generated patterns (exact anchoring, language equality
   with the documented grammar by bisimulation certificate); Props/C20.v discharges them by
   computation against Gen/Generated.v. *)
From Coq Require Import List NArith Bool Lia ZifyBool ZifyN.
From Conductor Require Import Lib.Regex Lib.RegexBisim Lib.PyRegex Lib.Str
  Gen.Generated Model.Ident Proofs.IdentSpec.
Import ListNotations.
Local Open Scope N_scope.

Definition tie_ok (p : pyre) (doc : re) : bool := exact p && equiv_check (body p) doc.

Lemma tie_ok_spec p doc s : tie_ok p doc = true -> (py_match p s = true <-> L doc s).
Proof.
  unfold tie_ok. intros H. apply andb_true_iff in H as [He Hq].
  rewrite (py_match_exact p s He), matches_spec. now apply equiv_check_L.
Qed.

Lemma tie_ok_matched_text p doc s :
  tie_ok p doc = true -> py_match p s = true -> matched_text p s = s.
Proof.
  unfold tie_ok. intros H Hm. apply andb_true_iff in H as [He _].
  rewrite (py_match_exact p s He) in Hm. unfold matched_text. now rewrite Hm.
Qed.

(* ---------- string lemmas ---------- *)
Lemma cut_app c a b : ~ In c a -> cut c (a ++ c :: b) = Some (a, b).
Proof.
  induction a as [|x a IH]; simpl; intros H.
  - now rewrite N.eqb_refl.
  - destruct (x =? c) eqn:E.
    + apply N.eqb_eq in E; subst; tauto.
    + rewrite IH by tauto. reflexivity.
Qed.

Lemma strip_slashes_head x t : x <> SLASH -> strip_slashes (x :: t) = x :: t.
Proof.
  intros H. unfold strip_slashes. destruct t as [|y t]; [reflexivity|].
  destruct (x =? SLASH) eqn:E; [apply N.eqb_eq in E; contradiction | reflexivity].
Qed.

Lemma join_snoc c segs l :
  join [c] (segs ++ [l]) = concat (map (fun g => g ++ [c]) segs) ++ l.
Proof.
  induction segs as [|a segs IH]; [reflexivity|].
  change ((a :: segs) ++ [l]) with (a :: (segs ++ [l])).
  destruct (segs ++ [l]) as [|b r] eqn:E.
  - destruct segs; discriminate.
  - change (join [c] (a :: b :: r)) with (a ++ [c] ++ join [c] (b :: r)).
    rewrite IH. simpl. rewrite <- !app_assoc. reflexivity.
Qed.

Lemma no_in_concat c (segs : list str) :
  Forall (fun g => ~ In c g) segs -> Forall (fun g => ~ In c g) segs.
Proof. auto. Qed.

Lemma split_segs (segs : list str) (t : str) :
  Forall (fun g => ~ In SLASH g) segs -> ~ In SLASH t ->
  split SLASH (concat (map (fun g => g ++ [SLASH]) segs) ++ t) = segs ++ [t].
Proof.
  induction 1 as [|g segs Hg _ IH]; intros Ht; simpl.
  - now apply split_no_sep.
  - rewrite <- !app_assoc. simpl. rewrite split_app_sep by assumption. f_equal. auto.
Qed.

Lemma filter_nonempty_all (l : list str) : Forall DocName l -> filter nonempty l = l.
Proof.
  induction 1 as [|g l [Hne _] _ IH]; simpl; [reflexivity|].
  destruct g; [congruence|]. simpl. now rewrite IH.
Qed.

(* the part of an identifier after the optional "//" *)
Definition tail_text (segs : list str) (last : option str) (name : str) : str :=
  concat (map (fun g => g ++ [SLASH]) segs) ++ otext last ++ [COLON] ++ name.

Lemma assemble_tail pfx segs last name :
  assemble pfx segs last name = (if pfx then [SLASH; SLASH] else []) ++ tail_text segs last name.
Proof. reflexivity. Qed.

Lemma tail_text_head segs last name :
  Forall DocName segs -> Forall DocName (olist last) ->
  exists x t, tail_text segs last name = x :: t /\ x <> SLASH.
Proof.
  intros Hs Hl. unfold tail_text. destruct segs as [|g segs].
  - destruct last as [l|]; simpl.
    + inversion Hl; subst. destruct (DocName_head l) as (x & t & -> & Hx); [assumption|].
      exists x, (t ++ COLON :: name). split; [reflexivity|]. now apply ident_char_not in Hx.
    + exists COLON, name. split; [reflexivity | discriminate].
  - inversion Hs; subst. destruct (DocName_head g) as (x & t & -> & Hx); [assumption|].
    simpl. eexists x, _. split; [reflexivity|]. now apply ident_char_not in Hx.
Qed.

Lemma strip_slashes_assemble pfx segs last name :
  Forall DocName segs -> Forall DocName (olist last) ->
  strip_slashes (assemble pfx segs last name) = tail_text segs last name.
Proof.
  intros Hs Hl. rewrite assemble_tail. destruct pfx.
  - reflexivity.
  - simpl. destruct (tail_text_head segs last name Hs Hl) as (x & t & -> & Hx).
    now apply strip_slashes_head.
Qed.

Lemma starts_with_assemble pfx segs last name :
  Forall DocName segs -> Forall DocName (olist last) ->
  starts_with [SLASH; SLASH] (assemble pfx segs last name) = pfx.
Proof.
  intros Hs Hl. rewrite assemble_tail. destruct pfx.
  - reflexivity.
  - simpl app. destruct (tail_text_head segs last name Hs Hl) as (x & t & -> & Hx).
    cbn [starts_with]. destruct (SLASH =? x) eqn:E; [apply N.eqb_eq in E; congruence | reflexivity].
Qed.

Lemma cut_tail_text segs last name :
  Forall DocName segs -> Forall DocName (olist last) ->
  cut COLON (tail_text segs last name) =
  Some (concat (map (fun g => g ++ [SLASH]) segs) ++ otext last, name).
Proof.
  intros Hs Hl. unfold tail_text. rewrite app_assoc. simpl.
  apply cut_app. intros Hin. apply in_app_or in Hin as [Hin|Hin].
  - apply in_concat in Hin as (w & Hw & Hin). apply in_map_iff in Hw as (g & <- & Hg).
    rewrite Forall_forall in Hs. apply in_app_or in Hin as [Hin|[Hin|[]]].
    + eapply DocName_no; [apply Hs, Hg | | exact Hin]. auto.
    + discriminate.
  - destruct last as [l|]; simpl in Hin; [|contradiction]. inversion Hl; subst.
    eapply DocName_no; [eassumption | | exact Hin]. auto.
Qed.

Lemma path_of_tail segs last :
  Forall DocName segs -> Forall DocName (olist last) ->
  filter nonempty (split SLASH (concat (map (fun g => g ++ [SLASH]) segs) ++ otext last))
  = segs ++ olist last.
Proof.
  intros Hs Hl. rewrite split_segs.
  - rewrite filter_app, (filter_nonempty_all segs Hs). f_equal.
    destruct last as [l|]; simpl; [|reflexivity]. inversion Hl; subst.
    destruct (DocName_head l) as (x & t & -> & _); [assumption | reflexivity].
  - eapply Forall_impl; [|exact Hs]. intros g Hg. eapply DocName_no; eauto.
  - destruct last as [l|]; simpl; [|tauto]. inversion Hl; subst. eapply DocName_no; eauto.
Qed.

Section WithTie.
  Hypothesis Hname : tie_ok name_regex doc_name_re = true.
  Hypothesis Hident : tie_ok task_identifier_regex doc_ident_re = true.
  Hypothesis Hrel : tie_ok relative_task_identifier_regex doc_rel_re = true.
  Hypothesis Hsuffix : exists rest, cfg_TASK_OUTPUT_DIR_SUFFIX = DOT :: rest.

  Lemma name_valid_spec s : is_name_valid s = true <-> DocName s.
  Proof. unfold is_name_valid. rewrite (tie_ok_spec _ _ s Hname). apply doc_name_re_spec. Qed.

  Lemma ident_match_spec s : py_match task_identifier_regex s = true <-> DocIdent s.
  Proof. rewrite (tie_ok_spec _ _ s Hident). apply doc_ident_re_spec. Qed.

  Lemma from_str_assemble req pfx segs last name :
    Forall DocName segs -> Forall DocName (olist last) -> DocName name ->
    from_str req (assemble pfx segs last name) =
    if req && negb pfx then None
    else Some {| ipath := segs ++ olist last; iname := name |}.
  Proof.
    intros Hs Hl Hn. unfold from_str.
    assert (Hm : py_match task_identifier_regex (assemble pfx segs last name) = true).
    { apply ident_match_spec. exists pfx, segs, last, name. auto. }
    rewrite Hm. cbn [negb].
    rewrite (starts_with_assemble pfx segs last name Hs Hl).
    destruct (req && negb pfx); [reflexivity|].
    rewrite (tie_ok_matched_text _ _ _ Hident Hm).
    rewrite (strip_slashes_assemble pfx segs last name Hs Hl).
    rewrite (cut_tail_text segs last name Hs Hl).
    rewrite (path_of_tail segs last Hs Hl). reflexivity.
  Qed.

  Lemma from_str_accepts req s :
    (exists i, from_str req s = Some i) <->
    DocIdent s /\ (req = true -> starts_with [SLASH; SLASH] s = true).
  Proof.
    split.
    - intros [i Hi]. unfold from_str in Hi.
      destruct (py_match task_identifier_regex s) eqn:Hm; [|discriminate]. cbn [negb] in Hi.
      split; [now apply ident_match_spec|]. intros ->.
      destruct (starts_with [SLASH; SLASH] s); [reflexivity | discriminate].
    - intros [(pfx & segs & last & name & Hs & Hl & Hn & ->) Hreq].
      rewrite (from_str_assemble req pfx segs last name Hs Hl Hn).
      rewrite (starts_with_assemble pfx segs last name Hs Hl) in Hreq.
      destruct req, pfx; simpl; eauto. specialize (Hreq eq_refl). discriminate.
  Qed.

  Lemma from_str_wf req s i : from_str req s = Some i -> WfIdent i.
  Proof.
    intros Hi.
    assert (Hd : DocIdent s) by (apply (from_str_accepts req s); eauto).
    destruct Hd as (pfx & segs & last & name & Hs & Hl & Hn & ->).
    rewrite (from_str_assemble req pfx segs last name Hs Hl Hn) in Hi.
    destruct (req && negb pfx); [discriminate|]. inversion Hi; subst. split; simpl; [|assumption].
    apply Forall_app; auto.
  Qed.

  Lemma ident_repr_assemble i :
    WfIdent i -> exists segs last,
      Forall DocName segs /\ Forall DocName (olist last) /\
      ipath i = segs ++ olist last /\
      ident_repr i = assemble true segs last (iname i).
  Proof.
    intros [Hp Hn]. unfold ident_repr.
    destruct (ipath i) as [|a p] eqn:Ep.
    - exists [], None. simpl. auto.
    - destruct (@exists_last _ (a :: p)) as (l & x & E); [discriminate|]. rewrite E in *.
      apply Forall_app in Hp as [Hs Hl].
      exists l, (Some x). split; [assumption|]. split; [assumption|]. split; [reflexivity|].
      unfold assemble. rewrite join_snoc. simpl. rewrite <- !app_assoc. reflexivity.
  Qed.

  Lemma roundtrip req i : WfIdent i -> from_str req (ident_repr i) = Some i.
  Proof.
    intros Hwf. destruct (ident_repr_assemble i Hwf) as (segs & last & Hs & Hl & Hp & ->).
    rewrite from_str_assemble by (auto; apply Hwf).
    rewrite andb_false_r. destruct i as [p n]; simpl in *. now rewrite Hp.
  Qed.

  Lemma parse_print_parse req s i :
    from_str req s = Some i -> WfIdent i /\ from_str true (ident_repr i) = Some i.
  Proof. intros H. pose proof (from_str_wf _ _ _ H) as Hwf. split; [assumption | now apply roundtrip]. Qed.

  Lemma from_relative_spec s dir i :
    from_relative_str s dir = Some i <->
    exists n, s = COLON :: n /\ DocName n /\ i = {| ipath := dir; iname := n |}.
  Proof.
    unfold from_relative_str.
    destruct (py_match relative_task_identifier_regex s) eqn:Hm; cbn [negb].
    - rewrite (tie_ok_matched_text _ _ _ Hrel Hm).
      apply (tie_ok_spec _ _ s Hrel), doc_rel_re_spec in Hm as (n & -> & Hn).
      simpl. split.
      + intros H; inversion H; subst. eauto.
      + intros (n' & E & _ & ->). inversion E; subst. reflexivity.
    - split; [discriminate|]. intros (n & -> & Hn & _).
      assert (py_match relative_task_identifier_regex (COLON :: n) = true)
        by (apply (tie_ok_spec _ _ _ Hrel), doc_rel_re_spec; eauto).
      congruence.
  Qed.

  (* a ":name" dependency resolves against the directory of the COND file listing it *)
  Lemma resolve_relative dir n :
    DocName n -> resolve_dep dir (COLON :: n) = Some {| ipath := dir; iname := n |}.
  Proof.
    intros Hn. unfold resolve_dep, is_relative_candidate. simpl.
    apply from_relative_spec. eauto.
  Qed.

  (* ---------- output locations ---------- *)
  Lemma name_dot_split n1 n2 r1 r2 :
    DocName n1 -> DocName n2 -> n1 ++ DOT :: r1 = n2 ++ DOT :: r2 -> n1 = n2 /\ r1 = r2.
  Proof.
    intros H1 H2. assert (N1 : ~ In DOT n1) by (eapply DocName_no; eauto).
    assert (N2 : ~ In DOT n2) by (eapply DocName_no; eauto). clear H1 H2.
    revert n2 N2. induction n1 as [|x n1 IH]; intros [|y n2] N2 E; simpl in *.
    - inversion E; auto.
    - inversion E; subst. tauto.
    - inversion E; subst. tauto.
    - inversion E; subst. destruct (IH (fun H => N1 (or_intror H)) n2 (fun H => N2 (or_intror H)) H1).
      subst; auto.
  Qed.

  Lemma task_output_dir_inj i1 v1 i2 v2 :
    DocName (iname i1) -> DocName (iname i2) ->
    task_output_dir i1 v1 = task_output_dir i2 v2 -> iname i1 = iname i2 /\ v1 = v2.
  Proof.
    intros H1 H2. unfold task_output_dir. destruct Hsuffix as [rest ->]. simpl. intros E.
    apply name_dot_split in E as [En E]; auto. split; [assumption|].
    apply app_inv_head in E.
    destruct v1 as [t1|], v2 as [t2|]; cbn [app] in E.
    - inversion E as [E']. apply dec_inj in E'. congruence.
    - discriminate.
    - discriminate.
    - reflexivity.
  Qed.

  Lemma task_output_dir_has_dot i v : In DOT (task_output_dir i v).
  Proof.
    unfold task_output_dir. destruct Hsuffix as [rest ->]. apply in_or_app. right. left. reflexivity.
  Qed.

  Lemma out_path_inj i1 v1 i2 v2 :
    WfIdent i1 -> WfIdent i2 -> out_path i1 v1 = out_path i2 v2 -> i1 = i2 /\ v1 = v2.
  Proof.
    intros [_ H1] [_ H2]. unfold out_path. intros E. inversion E as [E'].
    apply app_inj_tail in E' as [Ep Ed].
    apply task_output_dir_inj in Ed as [En Ev]; auto.
    destruct i1, i2; simpl in *; subst; auto.
  Qed.

  (* no output directory lies inside (or equals) another task's output directory, and none is
     a package directory that may contain further tasks *)
  Lemma out_path_not_nested i1 v1 i2 v2 rest :
    WfIdent i1 -> WfIdent i2 -> out_path i1 v1 ++ rest = out_path i2 v2 -> rest = [] /\ i1 = i2 /\ v1 = v2.
  Proof.
    intros W1 W2 E.
    assert (rest = []).
    { unfold out_path in E. inversion E as [E']. clear E.
      destruct W2 as [Hp2 _]. pose proof (task_output_dir_has_dot i1 v1) as Hdot.
      destruct rest as [|r rest]; [reflexivity|]. exfalso.
      assert (Hin : In (task_output_dir i1 v1) (ipath i2)).
      { assert (Hlen : In (task_output_dir i1 v1) (removelast (ipath i2 ++ [task_output_dir i2 v2]))).
        { rewrite <- E'. rewrite <- app_assoc. simpl.
          rewrite removelast_app by discriminate. apply in_or_app. right.
          simpl. left. reflexivity. }
        now rewrite removelast_last in Hlen. }
      rewrite Forall_forall in Hp2. apply Hp2 in Hin.
      eapply DocName_no; [exact Hin | | exact Hdot]. auto. }
    subst. rewrite app_nil_r in E. split; [reflexivity|]. now apply out_path_inj.
  Qed.
  (* `cond restore` extracts into cond-out/<ARCHIVE_STAGING> and removes that directory.  It is not the
     output directory of any task, nor a package directory on the way to one: its first character
     is not an identifier character (D23: it used to be `archive-tmp`, a legal package name). *)
  Definition staging_name_ok : bool :=
    match cfg_ARCHIVE_STAGING with c :: _ => negb (ident_char c) | [] => false end.

  Lemma staging_outside i v :
    WfIdent i -> staging_name_ok = true -> nth_error (out_path i v) 1 <> Some cfg_ARCHIVE_STAGING.
  Proof.
    intros [Hp Hn] Hs E. unfold out_path in E. cbn [nth_error] in E. unfold staging_name_ok in Hs.
    assert (Hhead : exists x t, cfg_ARCHIVE_STAGING = x :: t /\ ident_char x = true).
    { destruct (ipath i) as [|seg r] eqn:Ei.
      - cbn [app nth_error] in E. injection E as E'. unfold task_output_dir in E'.
        destruct (DocName_head _ Hn) as (x & t & En & Hx). rewrite En in E'. cbn [app] in E'. exists x. eexists. split; [symmetry; exact E' | exact Hx].
      - cbn [app nth_error] in E. injection E as E'. inversion Hp as [|? ? Hseg _]; subst.
        destruct (DocName_head _ Hseg) as (x & t & En & Hx). exists x, t. split; [congruence | exact Hx]. }
    destruct Hhead as (x & t & Ex & Hx). rewrite Ex in Hs. rewrite Hx in Hs. discriminate.
  Qed.
End WithTie.
