(* "No completion is lost or attributed to the wrong task" at the level of the executor's in-flight table, over the
   reaper protocol: every value wait() returns that names a registered process completes exactly the operation registered
   under that pid, once, with the status that very process exited with; values of unregistered children complete nothing. *)
From Coq Require Import List Arith Bool Lia Permutation.
From Conductor Require Import Model.Reaper Model.Inflight Proofs.ReaperProofs.
Import ListNotations.

Lemma find_in pid o t : tbl_find pid t = Some o -> In (pid, o) t.
Proof.
  induction t as [|[p o'] t IH]; cbn; [discriminate|]. destruct (Nat.eqb_spec pid p) as [->|Hne]; intros H.
  - inversion H; subst. left. reflexivity.
  - right. apply IH. exact H.
Qed.

Lemma in_find pid o t : NoDup (map fst t) -> In (pid, o) t -> tbl_find pid t = Some o.
Proof.
  induction t as [|[p o'] t IH]; cbn; intros Hnd Hin; [contradiction|]. inversion Hnd as [|? ? Hn Hnd']; subst.
  destruct Hin as [E|Hin].
  - inversion E; subst. rewrite Nat.eqb_refl. reflexivity.
  - destruct (Nat.eqb_spec pid p) as [->|Hne]; [|apply IH; auto].
    exfalso. apply Hn. apply in_map_iff. exists (p, o). split; [reflexivity | exact Hin].
Qed.

Lemma find_none pid t : tbl_find pid t = None <-> ~ In pid (map fst t).
Proof.
  induction t as [|[p o] t IH]; cbn; [tauto|]. destruct (Nat.eqb_spec pid p) as [->|Hne].
  - split; [discriminate | intros H; exfalso; apply H; left; reflexivity].
  - rewrite IH. split; [intros H [E|Hin]; [congruence | contradiction] | intros H Hin; apply H; right; exact Hin].
Qed.

Lemma remove_in p o pid t : In (p, o) (tbl_remove pid t) <-> In (p, o) t /\ p <> pid.
Proof.
  induction t as [|[q o'] t IH]; cbn [tbl_remove In]; [tauto|]. destruct (Nat.eqb_spec pid q) as [->|Hne].
  - rewrite IH. split.
    + intros [H Hn]. split; [right; exact H | exact Hn].
    + intros [[E|H] Hn]; [inversion E; subst; contradiction | split; assumption].
  - cbn [In]. rewrite IH. split.
    + intros [E|[H Hn]]; [inversion E; subst; split; [left; reflexivity | congruence] | split; [right; exact H | exact Hn]].
    + intros [[E|H] Hn]; [left; exact E | right; split; assumption].
Qed.

Lemma remove_nodup pid t : NoDup (map fst t) -> NoDup (map fst (tbl_remove pid t)).
Proof.
  induction t as [|[q o] t IH]; cbn; intros H; [constructor|]. inversion H as [|? ? Hn Hnd]; subst.
  destruct (Nat.eqb pid q); [auto|]. cbn. constructor; [|auto].
  intros Hin. apply Hn. apply in_map_iff in Hin as ([p' o'] & E & Hin). cbn in E. subst p'.
  apply remove_in in Hin as [Hin _]. apply in_map_iff. exists (q, o'). split; [reflexivity | exact Hin].
Qed.

(* one call: the operation completed is the one registered under the pid of the value that ended the call, the status is
   that value's, every value consumed before it named an unregistered pid, and exactly that entry leaves the table *)
Theorem next_op_attribution t w o rc t' w' :
  next_op t w = Some (o, rc, t', w') ->
  exists pid skipped,
    w = skipped ++ (pid, rc) :: w' /\ In (pid, o) t /\ t' = tbl_remove pid t /\
    (forall q r, In (q, r) skipped -> ~ In q (map fst t)).
Proof.
  revert o rc t' w'. induction w as [|[q r] w IH]; intros o rc t' w' H; cbn in H; [discriminate|].
  destruct (tbl_find q t) as [o'|] eqn:Ef.
  - inversion H; subst. exists q, []. split; [reflexivity|]. split; [apply find_in; exact Ef|]. split; [reflexivity|]. intros ? ? [].
  - destruct (IH _ _ _ _ H) as (pid & sk & -> & Hin & Ht & Hsk). exists pid, ((q, r) :: sk).
    split; [reflexivity|]. split; [exact Hin|]. split; [exact Ht|].
    intros q' r' [E|Hq]; [inversion E; subst; apply find_none; exact Ef | eapply Hsk; exact Hq].
Qed.

(* the call is still waiting exactly when no value so far names a registered process *)
Theorem next_op_waits_iff t w : next_op t w = None <-> forall q r, In (q, r) w -> ~ In q (map fst t).
Proof.
  induction w as [|[q r] w IH]; cbn; [split; [intros _ ? ? [] | reflexivity]|].
  destruct (tbl_find q t) as [o|] eqn:Ef.
  - split; [discriminate|]. intros H. exfalso. apply (H q r (or_introl eq_refl)). apply find_in in Ef.
    apply in_map_iff. exists (q, o). split; [reflexivity | exact Ef].
  - rewrite IH. split.
    + intros H q' r' [E|Hin]; [inversion E; subst; apply find_none; exact Ef | eapply H; exact Hin].
    + intros H q' r' Hin. eapply H. right. exact Hin.
Qed.

(* all calls: with pairwise distinct pids among the returned values (see F4) and in the table, the completions are, in
   order, exactly the returned values of registered processes, each translated to its operation *)
Definition expected (t : tbl) (w : list (nat * nat)) : list (nat * nat) :=
  flat_map (fun v => match tbl_find (fst v) t with Some o => [(o, snd v)] | None => [] end) w.

Lemma find_remove_other q pid t : q <> pid -> tbl_find q (tbl_remove pid t) = tbl_find q t.
Proof.
  intros Hq. induction t as [|[p o] t IH]; cbn [tbl_remove tbl_find]; [reflexivity|].
  destruct (Nat.eqb_spec pid p) as [->|Hne].
  - rewrite IH. destruct (Nat.eqb_spec q p); [contradiction | reflexivity].
  - cbn [tbl_find]. rewrite IH. reflexivity.
Qed.

Lemma expected_remove_fresh pid t w :
  ~ In pid (map fst w) -> expected (tbl_remove pid t) w = expected t w.
Proof.
  induction w as [|[q r] w IH]; intros Hn; [reflexivity|].
  assert (Hq : q <> pid) by (intros ->; apply Hn; left; reflexivity).
  unfold expected in *. cbn [flat_map fst snd]. rewrite (find_remove_other q pid t Hq). f_equal.
  apply IH. intros H. apply Hn. right. exact H.
Qed.

Lemma next_op_expected t w : NoDup (map fst w) ->
  match next_op t w with
  | Some (o, rc, t', w') => expected t w = (o, rc) :: expected t' w' /\ length w' < length w /\ NoDup (map fst w')
  | None => expected t w = []
  end.
Proof.
  induction w as [|[q r] w IH]; intros Hnd; [reflexivity|].
  inversion Hnd as [|? ? Hq Hnd']; subst. cbn [next_op expected flat_map fst snd].
  destruct (tbl_find q t) as [o|] eqn:Ef; cbn [app].
  - split; [|split; [cbn; lia | exact Hnd']]. f_equal. symmetry. apply expected_remove_fresh. exact Hq.
  - specialize (IH Hnd'). destruct (next_op t w) as [[[[o rc] t'] w']|]; [|exact IH].
    destruct IH as (E & Hl & Hn). split; [exact E|]. split; [cbn; lia | exact Hn].
Qed.

Lemma drain_expected fuel : forall t w, length w <= fuel -> NoDup (map fst w) -> drain fuel t w = expected t w.
Proof.
  induction fuel as [|f IH]; intros t w Hl Hnd.
  - destruct w; [reflexivity | cbn in Hl; lia].
  - cbn [drain]. pose proof (next_op_expected t w Hnd) as H.
    destruct (next_op t w) as [[[[o rc] t'] w']|]; [|symmetry; exact H].
    destruct H as (E & Hlt & Hn). rewrite E. f_equal. apply IH; [lia | exact Hn].
Qed.

Theorem completions_exact t w : NoDup (map fst w) -> completions t w = expected t w.
Proof. intros H. apply drain_expected; [lia | exact H]. Qed.

(* over the reaper: along any run of the protocol in which every child exits once, each completion the executor obtains
   is an operation registered under the pid of a child that did exit, with the status THAT child exited with; and every
   returned value of a registered child yields its completion *)
Lemma snd_inj (t : tbl) p1 p2 o : NoDup (map snd t) -> In (p1, o) t -> In (p2, o) t -> p1 = p2.
Proof.
  induction t as [|[p o'] t IH]; cbn; intros Hnd H1 H2; [contradiction|]. inversion Hnd as [|? ? Hn Hnd']; subst.
  destruct H1 as [E1|H1], H2 as [E2|H2].
  - congruence.
  - inversion E1; subst. exfalso. apply Hn. apply in_map_iff. exists (p2, o). split; [reflexivity | exact H2].
  - inversion E2; subst. exfalso. apply Hn. apply in_map_iff. exists (p1, o). split; [reflexivity | exact H1].
  - apply IH; assumption.
Qed.

Lemma in_expected t w o rc : In (o, rc) (expected t w) <-> exists pid, In (pid, rc) w /\ tbl_find pid t = Some o.
Proof.
  unfold expected. rewrite in_flat_map. split.
  - intros ([pid r] & Hv & Hin). cbn [fst snd] in Hin. destruct (tbl_find pid t) as [o'|] eqn:Ef; [|contradiction].
    destruct Hin as [E|[]]. inversion E; subst. exists pid. split; [exact Hv | exact Ef].
  - intros (pid & Hv & Ef). exists (pid, rc). split; [exact Hv|]. cbn [fst snd]. rewrite Ef. left. reflexivity.
Qed.

Lemma expected_ops_nodup t w : NoDup (map snd t) -> NoDup (map fst w) -> NoDup (map fst (expected t w)).
Proof.
  intros Ht. induction w as [|[q r] w IH]; intros Hnd; [constructor|].
  inversion Hnd as [|? ? Hq Hnd']; subst. unfold expected in *. cbn [flat_map fst snd].
  destruct (tbl_find q t) as [o|] eqn:Ef; cbn [app map fst]; [|apply IH; exact Hnd'].
  constructor; [|apply IH; exact Hnd']. intros Hin. apply in_map_iff in Hin as ([o' rc'] & E & Hin). cbn in E. subst o'.
  apply (proj1 (in_expected t w o rc')) in Hin as (pid & Hv & Ef').
  assert (pid = q) by (eapply snd_inj; [exact Ht | apply find_in; exact Ef' | apply find_in; exact Ef]). subst pid.
  apply Hq. apply in_map_iff. exists (q, rc'). split; [reflexivity | exact Hv].
Qed.

(* over the reaper: along any run of the protocol in which every child exits once, each completion the executor obtains
   is an operation registered under the pid of a child that did exit, with the status THAT child exited with; every
   returned value of a registered child yields its completion; and no operation is completed twice *)
Theorem completions_over_reaper tr s t :
  rrun false rinit tr = Some s -> NoDup (map fst (exits_of tr)) -> NoDup (map fst t) -> NoDup (map snd t) ->
  (forall o rc, In (o, rc) (completions t (returned s)) ->
     exists pid, In (pid, o) t /\ In (pid, rc) (exits_of tr) /\ forall rc', In (pid, rc') (exits_of tr) -> rc' = rc) /\
  (forall pid o rc, In (pid, o) t -> In (pid, rc) (returned s) -> In (o, rc) (completions t (returned s))) /\
  NoDup (map fst (completions t (returned s))).
Proof.
  intros Hrun Hex Ht Hops. destruct (wait_results_admissible tr s Hrun Hex) as (Hnd & Hsub & Huniq).
  rewrite (completions_exact t (returned s) Hnd). split; [|split].
  - intros o rc Hin. apply in_expected in Hin as (pid & Hv & Ef).
    exists pid. split; [apply find_in; exact Ef|]. split; [apply Hsub; exact Hv|].
    intros rc' Hrc'. symmetry. eapply Huniq; eauto.
  - intros pid o rc Hin Hv. apply in_expected. exists pid. split; [exact Hv | apply in_find; assumption].
  - apply expected_ops_nodup; assumption.
Qed.
