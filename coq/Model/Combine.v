(* Model of the combine() task type:
     task_types/combine.py            Combine.__init__      -> ctor_check
     execution/planning/planner.py    (Combine branch)      -> plan_dep_paths
     execution/ops/combine_outputs.py start_execution       -> combine_loop / combine_step
   The combine output directory is a finite map  name -> Link target | Other  (absent = no
   entry); what the file system answers about other paths (is_dir, emptiness, existence of the
   contents of the dependencies' directories) enters as the observation record [fs].  No proofs here. *)
From Coq Require Import List NArith Bool.
From Conductor Require Import Lib.Str Lib.Path Gen.Generated Model.Ident.
Import ListNotations.
Local Open Scope N_scope.

(* an entry of the output directory: a symbolic link with its text (relative path components),
   or anything else (regular file, directory, ...) *)
Inductive entry := Link (target : list str) | Other.

Definition dirmap := list (str * entry).

Fixpoint lookup (n : str) (d : dirmap) : option entry :=
  match d with
  | [] => None
  | (m, e) :: d' => if str_eqb n m then Some e else lookup n d'
  end.

(* Path.unlink *)
Fixpoint remove (n : str) (d : dirmap) : dirmap :=
  match d with
  | [] => []
  | (m, e) :: d' => if str_eqb n m then remove n d' else (m, e) :: remove n d'
  end.

(* Path.symlink_to on a name that has no entry *)
Definition add (n : str) (e : entry) (d : dirmap) : dirmap := (n, e) :: d.

(* observations of the rest of the file system (all paths absolute, normalised) *)
Record fs := {
  fs_is_dir : path -> bool;      (* Path.is_dir() *)
  fs_nonempty : path -> bool     (* any(True for _ in Path.iterdir()) *)
}.

(* _is_conductor_link(link, dep_id, ctx): the link text [t] of the entry in directory [out] leads
   (lexically: os.path.normpath of the joined path) to a task output directory of that name --
   `<name>.task` or `<name>.task.<version>` -- strictly inside the project's output directory
   [co] = ctx.output_path.  Whether that place exists is not looked at: a link Conductor made stays
   one when the version it led to is gone (D27). *)
Definition is_conductor_link (co out : path) (name : str) (t : list str) : bool :=
  match relative_to co (link_dest out t) with
  | Some (c :: rel) =>
    let lastc := last (c :: rel) [] in
    let dir_name := name ++ cfg_TASK_OUTPUT_DIR_SUFFIX in
    str_eqb lastc dir_name || starts_with (dir_name ++ [DOT]) lastc
  | _ => false
  end.

(* may the loop replace the entry found under a dependency's name?  Only a link Conductor made
   (D28: any symbolic link used to be replaced); a regular file, a directory or somebody else's
   link is a conflict *)
Definition replaceable (co out : path) (name : str) (e : entry) : bool :=
  match e with
  | Link t => is_conductor_link co out name t
  | Other => false
  end.

Inductive outcome :=
  | Done
  | ConflictAt (n : str).       (* CombineOutputFileConflict(output_file=copy_into) *)

(* the loop of CombineOutputs.start_execution; on an error the directory is returned as it is
   at that moment (links made for earlier dependencies stay) *)
Fixpoint combine_loop (f : fs) (co out : path) (deps : list (ident * path)) (d : dirmap)
  : outcome * dirmap :=
  match deps with
  | [] => (Done, d)
  | (dep_id, dep_dir) :: rest =>
    if negb (fs_is_dir f dep_dir) || negb (fs_nonempty f dep_dir) then
      combine_loop f co out rest d                                (* continue *)
    else
      let copy_into := iname dep_id in
      let relative_to_target := relpath out dep_dir in            (* relpath(dep_dir, copy_into.parent) *)
      match lookup copy_into d with
      | Some e =>
        (* is_symlink() and _is_conductor_link(): unlink, then link; anything else: conflict *)
        if replaceable co out copy_into e then
          combine_loop f co out rest (add copy_into (Link relative_to_target) (remove copy_into d))
        else (ConflictAt copy_into, d)
      | None =>
        combine_loop f co out rest (add copy_into (Link relative_to_target) d)
      end
  end.

(* start_execution: mkdir(parents=True, exist_ok=True), then the loop *)
Definition combine_step (f : fs) (co out : path) (deps : list (ident * path)) (d : option dirmap)
  : outcome * dirmap :=
  combine_loop f co out deps (match d with Some d0 => d0 | None => [] end).

(* planner, Combine branch: dependencies without an output path are dropped *)
Fixpoint plan_dep_paths (deps : list (ident * option path)) : list (ident * path) :=
  match deps with
  | [] => []
  | (i, Some p) :: rest => (i, p) :: plan_dep_paths rest
  | (_, None) :: rest => plan_dep_paths rest
  end.

(* Combine.__init__: the set task_names; Some n = CombineDuplicateDepName(task_name=n) *)
Fixpoint mem_str (n : str) (l : list str) : bool :=
  match l with [] => false | m :: l' => str_eqb n m || mem_str n l' end.

Fixpoint ctor_check (seen : list str) (deps : list ident) : option str :=
  match deps with
  | [] => None
  | dep :: rest =>
    if mem_str (iname dep) seen then Some (iname dep)
    else ctor_check (iname dep :: seen) rest
  end.

Inductive run_result :=
  | DuplicateDepName (n : str)                 (* raised while loading: nothing is executed *)
  | Ran (o : outcome) (d : dirmap).

(* a combine task from its definition to the end of its operation; [deps] pairs every listed
   dependency with the output path the planner obtains for it at that moment *)
Definition run_combine (f : fs) (co out : path) (deps : list (ident * option path)) (d : option dirmap)
  : run_result :=
  match ctor_check [] (map fst deps) with
  | Some n => DuplicateDepName n
  | None => let (o, d') := combine_step f co out (plan_dep_paths deps) d in Ran o d'
  end.

(* output directories inside a project rooted at [root] (task_types/base.py:get_output_path) *)
Definition abs_out (root : path) (i : ident) (v : option N) : path := root ++ out_path i v.
(* ctx.output_path *)
Definition cond_out_dir (root : path) : path := root ++ [cfg_OUTPUT_DIR].
