(* Model of conductor/cli/gc.py:main.

   cond-out is a rose tree of named entries (directories with their entries in iterdir order, and
   everything that is not a directory).  The walk is transcribed with its explicit stack and with
   the file system as mutable state: every iteration lists the directory it pops in the tree AS IT
   IS THEN (i.e. after the deletions of earlier iterations), exactly as Path.iterdir() does.

   Python list used as a stack  <->  Coq list with the top at the head:
     stack.pop()        = head,   stack.append(x)  = x :: stack.
   The two directory-name patterns come from Gen/Generated.v (the source as it is now).

   Printing is modelled for an invocation from the project root (os.path.relpath(p, cwd) =
   "cond-out/<relative path>"); other working directories are C17's subject. *)
From Coq Require Import List NArith Bool Decimal DecimalN.
From Conductor Require Import Lib.Regex Lib.PyRegex Lib.Str Gen.Generated Model.Ident.
Import ListNotations.
Open Scope N_scope.

Inductive node :=
| File (n : str)                    (* anything for which Path.is_dir() is false *)
| Dir (n : str) (cs : list node).   (* a directory and its entries, in iterdir order *)

Definition fs := list node.         (* the entries of cond-out *)
Definition path := list str.        (* components relative to cond-out *)

Definition node_name (x : node) : str := match x with File n => n | Dir n _ => n end.
Definition node_is_dir (x : node) : bool := match x with File _ => false | Dir _ _ => true end.

Fixpoint find_entry (n : str) (cs : fs) : option node :=
  match cs with
  | [] => None
  | x :: r => if str_eqb (node_name x) n then Some x else find_entry n r
  end.

(* the entries of the directory cond-out/p; None = p does not name a directory *)
Fixpoint subdir (p : path) (cs : fs) : option fs :=
  match p with
  | [] => Some cs
  | n :: p' => match find_entry n cs with
               | Some (Dir _ k) => subdir p' k
               | _ => None
               end
  end.

(* what one iteration looks at: inner.name and inner.is_dir() *)
Definition shallow (x : node) : str * bool := (node_name x, node_is_dir x).

(* Path.iterdir(); None = it raises (not a directory / does not exist) *)
Definition iterdir (p : path) (t : fs) : option (list (str * bool)) :=
  match subdir p t with Some k => Some (map shallow k) | None => None end.

(* os.path.lexists(cond-out/q) *)
Fixpoint exists_at (q : path) (cs : fs) : bool :=
  match q with
  | [] => true
  | n :: q' => match find_entry n cs with
               | None => false
               | Some (File _) => match q' with [] => true | _ :: _ => false end
               | Some (Dir _ k) => exists_at q' k
               end
  end.

(* shutil.rmtree(cond-out/q, ignore_errors=True): the entry and everything below it disappears;
   no effect when it does not exist *)
Definition rm_in (n : str) (f : fs -> fs) (x : node) : node :=
  match x with
  | Dir m k => if str_eqb m n then Dir m (f k) else x
  | File _ => x
  end.

Fixpoint rmtree (q : path) (cs : fs) : fs :=
  match q with
  | [] => cs
  | n :: q' =>
    match q' with
    | [] => filter (fun x => negb (str_eqb (node_name x) n)) cs
    | _ :: _ => map (rm_in n (rmtree q')) cs
    end
  end.

(* ---------- the two named groups of _EXPERIMENT_TASK_REGEX ---------- *)
Fixpoint take_until (c : N) (s : str) : str :=
  match s with
  | [] => []
  | x :: s' => if x =? c then [] else x :: take_until c s'
  end.
Fixpoint skip_until (c : N) (s : str) : str :=
  match s with
  | [] => []
  | x :: s' => if x =? c then s' else skip_until c s'
  end.

(* int(<digits>) *)
Fixpoint uint_of_codes (s : str) : Decimal.uint :=
  match s with
  | [] => Nil
  | c :: s' =>
    let r := uint_of_codes s' in
    if c =? 48 then D0 r else if c =? 49 then D1 r else if c =? 50 then D2 r
    else if c =? 51 then D3 r else if c =? 52 then D4 r else if c =? 53 then D5 r
    else if c =? 54 then D6 r else if c =? 55 then D7 r else if c =? 56 then D8 r
    else if c =? 57 then D9 r else Nil
  end.
Definition int_of (s : str) : N := N.of_uint (uint_of_codes s).

(* exp_match.group("name"): the name class has no '.', so the group ends at the first one *)
Definition exp_name (n : str) : str :=
  take_until DOT (matched_text gc_experiment_task_regex n).
(* int(exp_match.group("timestamp")): what follows the second '.' *)
Definition exp_ts (n : str) : N :=
  int_of (skip_until DOT (skip_until DOT (matched_text gc_experiment_task_regex n))).

(* (task_identifier, timestamp) in all_versions; TaskIdentifier.__eq__ compares path and name *)
Definition recorded (rec : list (ident * N)) (i : ident) (ts : N) : bool :=
  existsb (fun r => ident_eqb (fst r) i && (snd r =? ts)) rec.

(* the body of `for inner in curr_path.iterdir()`; stack and to_delete are threaded through *)
Fixpoint scan (rec : list (ident * N)) (p : path) (es : list (str * bool))
              (stack : list path) (to_delete : list path) : list path * list path :=
  match es with
  | [] => (stack, to_delete)
  | (n, is_dir) :: es' =>
    if negb is_dir then scan rec p es' stack to_delete                       (* continue *)
    else if py_match gc_experiment_task_regex n then
      if recorded rec {| ipath := p; iname := exp_name n |} (exp_ts n)
      then scan rec p es' stack to_delete
      else scan rec p es' stack (to_delete ++ [p ++ [n]])                    (* to_delete.append(inner) *)
    else if py_match gc_regular_task_regex n then scan rec p es' stack to_delete
    else scan rec p es' ((p ++ [n]) :: stack) to_delete                      (* stack.append(inner) *)
  end.

(* ---------- output ---------- *)
Definition show_path (q : path) : str := join [SLASH] (cfg_OUTPUT_DIR :: q).
Definition WOULD_DELETE : str := [87; 111; 117; 108; 100; 32; 100; 101; 108; 101; 116; 101; 32]. (* "Would delete " *)
Definition DELETING : str := [68; 101; 108; 101; 116; 105; 110; 103; 32].                        (* "Deleting " *)
Definition would_line (q : path) : str := WOULD_DELETE ++ show_path q.
Definition deleting_line (q : path) : str := DELETING ++ show_path q.

Record st := { stack : list path; tree : fs; out : list str; removed : list path }.

(* for exp_path in to_delete: [print]; shutil.rmtree(exp_path, ignore_errors=True) *)
Fixpoint delete_all (verbose : bool) (ds : list path) (s : st) : st :=
  match ds with
  | [] => s
  | q :: ds' =>
    delete_all verbose ds'
      {| stack := stack s;
         tree := rmtree q (tree s);
         out := if verbose then out s ++ [deleting_line q] else out s;
         removed := removed s ++ [q] |}
  end.

Inductive result :=
| Done (s : st)
| NotADirectory (p : path)      (* iterdir raised *)
| BadIndex                      (* a row of the index is not a task identifier *)
| OutOfFuel.

(* while len(stack) > 0: ... *)
Fixpoint gc_loop (fuel : nat) (dry verbose : bool) (rec : list (ident * N)) (s : st) : result :=
  match stack s with
  | [] => Done s
  | p :: rest =>
    match fuel with
    | O => OutOfFuel
    | S f =>
      match iterdir p (tree s) with
      | None => NotADirectory p
      | Some es =>
        let (stk, dels) := scan rec p es rest [] in
        let s1 := {| stack := stk; tree := tree s; out := out s; removed := removed s |} in
        gc_loop f dry verbose rec
          (if dry
           then {| stack := stk; tree := tree s; out := out s ++ map would_line dels; removed := removed s |}
           else delete_all verbose dels s1)
      end
    end
  end.

(* an upper bound on the number of iterations: one per directory of the initial tree *)
Fixpoint dir_paths_node (x : node) : list path :=
  match x with
  | File _ => []
  | Dir n cs => [n] :: map (cons n) (flat_map dir_paths_node cs)
  end.
Definition all_dir_paths (t : fs) : list path := [] :: flat_map dir_paths_node t.

Definition gc (dry verbose : bool) (rec : list (ident * N)) (t : fs) : result :=
  gc_loop (S (length (all_dir_paths t))) dry verbose rec
    {| stack := [[]]; tree := t; out := []; removed := [] |}.

(* all_versions = {(TaskIdentifier.from_str(row[0]), timestamp) for row in index} *)
Fixpoint load_recorded (rows : list (str * N)) : option (list (ident * N)) :=
  match rows with
  | [] => Some []
  | (s, ts) :: rows' =>
    match from_str true s with
    | None => None
    | Some i => match load_recorded rows' with
                | Some l => Some ((i, ts) :: l)
                | None => None
                end
    end
  end.

(* cond gc [-n] [-v] *)
Definition gc_main (dry verbose : bool) (rows : list (str * N)) (t : fs) : result :=
  match load_recorded rows with
  | None => BadIndex
  | Some rec => gc dry verbose rec t
  end.
