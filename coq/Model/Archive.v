(* Model of `cond archive` / `cond restore`:
     conductor/execution/version_index_queries.py   (the SELECTs as list functions)
     conductor/execution/version_index.py           (connection with one open transaction,
                                                     copy_entries_to, bulk_load)
     conductor/task_types/base.py:TaskType.traverse (post-fix: skip-if-visited at pop)
     conductor/cli/archive.py                       (compute_tasks_to_archive, main)
     conductor/cli/restore.py                       (main as a list of atomic steps with
                                                     failure and crash points)
   No proofs in this file.  The state of a project is kept self-contained here:
   committed rows of version_index.sqlite, the version directories that exist under cond-out
   (keyed by (task, timestamp); C20 proves the path of such a directory is injective in that
   pair), whether a staging directory / an archive index were left behind by a killed command. *)
From Coq Require Import List NArith Bool.
From Conductor Require Import Lib.Str.
Import ListNotations.
Open Scope N_scope.

(* ------------------------------------------------------------------ rows and keys *)
(* one row of table version_index: task_identifier, timestamp, git_commit_hash (NULL = None),
   has_uncommitted_changes (INTEGER) *)
Record row := { r_task : str; r_ts : N; r_commit : option str; r_dirty : N }.
Definition table := list row.

(* PRIMARY KEY (task_identifier, timestamp) *)
Definition key := (str * N)%type.
Definition row_key (r : row) : key := (r_task r, r_ts r).
Definition key_eqb (a b : key) : bool := str_eqb (fst a) (fst b) && (snd a =? snd b).
Definition has_key (k : key) (t : table) : bool := existsb (fun r => key_eqb (row_key r) k) t.

Definition mem (x : str) (l : list str) : bool := existsb (str_eqb x) l.

(* ------------------------------------------------------------------ the queries *)
(* all_entries / all_versions: SELECT ... FROM version_index *)
Definition q_all (t : table) : list row := t.

(* all_entries_for_task: ... WHERE task_identifier = ? *)
Definition q_for_task (T : str) (t : table) : list row :=
  filter (fun r => str_eqb (r_task r) T) t.

(* latest_entry_for_task: ... WHERE task_identifier = ? ORDER BY timestamp DESC LIMIT 1 *)
Fixpoint pick_latest (l : list row) : option row :=
  match l with
  | [] => None
  | r :: l' =>
    match pick_latest l' with
    | None => Some r
    | Some m => if r_ts m <? r_ts r then Some r else Some m
    end
  end.
Definition q_latest_for_task (T : str) (t : table) : list row :=
  match pick_latest (q_for_task T t) with None => [] | Some r => [r] end.

(* all_entries_latest:
     WITH latest_entries AS (SELECT task_identifier, MAX(timestamp) FROM version_index
                             GROUP BY task_identifier)
     SELECT c.* FROM version_index AS c INNER JOIN latest_entries AS l
       ON c.task_identifier = l.task_identifier AND c.timestamp = l.timestamp *)
Fixpoint dedup (l : list str) : list str :=
  match l with
  | [] => []
  | x :: l' => x :: filter (fun y => negb (str_eqb x y)) (dedup l')
  end.
Definition list_max (l : list N) : N := fold_right N.max 0 l.
Definition latest_entries (t : table) : list (str * N) :=
  map (fun T => (T, list_max (map r_ts (q_for_task T t)))) (dedup (map r_task t)).
Definition join_on (c : row) (l : str * N) : bool :=
  str_eqb (r_task c) (fst l) && (r_ts c =? snd l).
Definition q_latest_per_task (t : table) : list row :=
  flat_map (fun c => flat_map (fun l => if join_on c l then [c] else []) (latest_entries t)) t.

(* ------------------------------------------------------------------ a sqlite connection *)
(* committed rows + the rows inserted by the open (implicit) transaction, oldest first *)
Record db := { d_committed : table; d_pending : list row }.
Definition db_open (t : table) : db := {| d_committed := t; d_pending := [] |}.
Definition db_view (d : db) : table := d_committed d ++ d_pending d.
(* insert_new_version: the primary key rejects a duplicate (sqlite3.IntegrityError) *)
Definition db_insert (r : row) (d : db) : option db :=
  if has_key (row_key r) (db_view d) then None
  else Some {| d_committed := d_committed d; d_pending := d_pending d ++ [r] |}.
Definition db_commit (d : db) : db := {| d_committed := db_view d; d_pending := [] |}.
Definition db_rollback (d : db) : db := {| d_committed := d_committed d; d_pending := [] |}.

(* VersionIndex.bulk_load = cursor.executemany(insert, rows): stops at the first row that is
   rejected; the rows before it stay in the open transaction.  (d', true) = all loaded. *)
Fixpoint bulk_load (rows : list row) (d : db) : db * bool :=
  match rows with
  | [] => (d, true)
  | r :: rs =>
    match db_insert r d with
    | None => (d, false)
    | Some d' => bulk_load rs d'
    end
  end.

(* VersionIndex.copy_entries_to(dest, tasks, latest_only): one cursor per bulk_load; the
   result is dest afterwards and Some (number of rows inserted) or None = IntegrityError *)
Fixpoint copy_loop (batches : list (list row)) (d : db) (count : nat) : db * option nat :=
  match batches with
  | [] => (d, Some count)
  | b :: bs =>
    match bulk_load b d with
    | (d', false) => (d', None)
    | (d', true) => copy_loop bs d' (count + length b)
    end
  end.
Definition batches (src : table) (tasks : option (list str)) (latest : bool) : list (list row) :=
  match tasks with
  | None => [if latest then q_latest_per_task src else q_all src]
  | Some ts => map (fun T => if latest then q_latest_for_task T src else q_for_task T src) ts
  end.
Definition copy_entries_to (src : table) (tasks : option (list str)) (latest : bool) (dest : db)
  : db * option nat :=
  copy_loop (batches src tasks latest) dest 0.

(* ------------------------------------------------------------------ the task graph *)
Record task := { t_deps : list str; t_archivable : bool }.
Definition graph := list (str * task).
Fixpoint get_task (g : graph) (id : str) : option task :=
  match g with
  | [] => None
  | (k, t) :: g' => if str_eqb k id then Some t else get_task g' id
  end.
Definition archivable (g : graph) (id : str) : bool :=
  match get_task g id with Some t => t_archivable t | None => false end.

(* for dep in task.deps: if dep in visited: continue; stack.append(dep)
   -- the top of the stack is the head of the list *)
Definition push_deps (deps visited stack : list str) : list str :=
  fold_left (fun s d => if mem d visited then s else d :: s) deps stack.

Inductive tres := TOk (calls : list str) | TMissing (id : str) | TFuel.

(* TaskType.traverse: `calls` is the log of visitor invocations, newest first *)
Fixpoint traverse_loop (fuel : nat) (g : graph) (stack visited calls : list str) : tres :=
  match fuel with
  | O => TFuel
  | S f =>
    match stack with
    | [] => TOk (rev calls)
    | cur :: stack' =>
      if mem cur visited then traverse_loop f g stack' visited calls
      else
        match get_task g cur with
        | None => TMissing cur
        | Some t =>
          let visited' := cur :: visited in
          traverse_loop f g (push_deps (t_deps t) visited' stack') visited' (cur :: calls)
        end
    end
  end.

Definition edges (g : graph) : nat := fold_right (fun e n => (length (t_deps (snd e)) + n)%nat) O g.
(* |V| + |E| + 2 iterations always suffice (proved: TFuel is never returned) *)
Definition traverse_fuel (g : graph) : nat := S (S (length g + edges g)).
Definition traverse (g : graph) (root : str) : tres :=
  traverse_loop (traverse_fuel g) g [root] [] [].

(* ------------------------------------------------------------------ project state *)
Definition content := N.                    (* hash of a directory tree *)
Definition fs := list (key * content).      (* the version directories that exist *)
Fixpoint fs_get (k : key) (f : fs) : option content :=
  match f with
  | [] => None
  | (k', c) :: f' => if key_eqb k' k then Some c else fs_get k f'
  end.

Record proj := {
  p_rows : table;          (* committed rows of cond-out/version_index.sqlite *)
  p_dirs : fs;             (* cond-out/<path>/<name>.task.<ts> *)
  p_stage : bool;          (* cond-out/<ARCHIVE_STAGING> exists (left by a killed restore); what it CONTAINS is not state: restore empties it first (D18), so the staged content is the extraction [x] of the archive alone *)
  p_aidx : option table    (* cond-out/version_index_archive.sqlite (left by a killed archive) *)
}.

(* ------------------------------------------------------------------ cond archive *)
Record archive_t := { a_rows : table; a_dirs : fs }.
Inductive ares :=
| AOk (a : archive_t)
| ANoOutputs        (* NoTaskOutputsToArchive *)
| AIntegrity        (* sqlite3.IntegrityError while filling the archive index *)
| ATaskMissing      (* get_task raised *)
| AFuel             (* never (C11_traverse_nodup) *)
| ATarFailed.       (* a listed directory does not exist: tar exits non-zero *)

(* compute_tasks_to_archive *)
Definition compute_tasks_to_archive (g : graph) (target : option str) : ares + option (list str) :=
  match target with
  | None => inr None
  | Some T =>
    match traverse g T with
    | TOk calls => inr (Some (filter (archivable g) calls))
    | TMissing _ => inl ATaskMissing
    | TFuel => inl AFuel
    end
  end.

(* the member list of tar: one directory per row of the archive index, each must exist *)
Fixpoint collect_dirs (rows : list row) (f : fs) : option fs :=
  match rows with
  | [] => Some []
  | r :: rs =>
    match fs_get (row_key r) f, collect_dirs rs f with
    | Some c, Some ds => Some ((row_key r, c) :: ds)
    | _, _ => None
    end
  end.

Definition set_aidx (P : proj) (a : option table) : proj :=
  {| p_rows := p_rows P; p_dirs := p_dirs P; p_stage := p_stage P; p_aidx := a |}.

(* archive.main: returns the source project afterwards and the outcome *)
Definition archive (g : graph) (target : option str) (latest : bool) (P : proj) : proj * ares :=
  match compute_tasks_to_archive g target with
  | inl err => (P, err)
  | inr tasks =>
    match tasks with
    | Some [] => (P, ANoOutputs)
    | _ =>
      (* try: unlink(missing_ok) -> create_or_load (fresh, empty) -> copy -> commit -> tar
         finally: unlink *)
      let P_end := set_aidx P None in
      match copy_entries_to (p_rows P) tasks latest (db_open []) with
      | (_, None) => (P_end, AIntegrity)
      | (idx, Some n) =>
        if Nat.eqb n 0 then (P_end, ANoOutputs)
        else
          let rows := q_all (d_committed (db_commit idx)) in
          match collect_dirs rows (p_dirs P) with
          | None => (P_end, ATarFailed)
          | Some ds => (P_end, AOk {| a_rows := rows; a_dirs := ds |})
          end
      end
    end
  end.

(* ------------------------------------------------------------------ cond restore *)
(* What is in the staging directory once `tar xzf` has returned: x_ok = tar exited 0;
   x_index = rows of the staged archive index if that file exists; x_dirs = the staged version
   directories (only real directories).  For an intact archive extracted into a fresh staging
   directory this is the archive itself (assumption on tar, exercised by the harness); a
   corrupt, truncated or hand-made archive, or one extracted over a stale staging directory, is
   some other value -- the C12 theorems hold for every value. *)
Record extraction := { x_file : bool; x_ok : bool; x_index : option table; x_dirs : fs }.
Definition extraction_of (A : archive_t) : extraction :=
  {| x_file := true; x_ok := true; x_index := Some (a_rows A); x_dirs := a_dirs A |}.

(* environment faults: step number i fails for an external reason (I/O error, disk full, ...);
   a failing copytree may leave a partial destination directory with any content *)
Record env := { e_fail : nat -> bool; e_partial : nat -> option content }.
Definition no_faults : env := {| e_fail := fun _ => false; e_partial := fun _ => None |}.

Inductive instr :=
| IMkdir                (* shutil.rmtree(staging_path, ignore_errors=True); staging_path.mkdir(exist_ok=True) *)
| IExtract              (* extract_archive *)
| ICheckIndex           (* archive_version_index_path.is_file() *)
| ILoadIndex            (* VersionIndex.create_or_load(staged index) *)
| IInsert (r : row)     (* one row of copy_entries_to(dest=ctx.version_index) *)
| IListVersions         (* archive_version_index.get_all_versions() *)
| ICheckSrc (k : key)   (* src_task_path.is_dir() *)
| ICopy (k : key)       (* parent.mkdir(parents, exist_ok); shutil.copytree(src, dest, symlinks=True) *)
| ICheckDst (k : key)   (* dest_task_path.is_dir() *)
| ICommit.              (* ctx.version_index.commit_changes() *)

Definition staged_rows (x : extraction) : table :=
  match x_index x with Some t => t | None => [] end.

(* the body of the try block *)
Definition program (x : extraction) : list instr :=
  [IMkdir; IExtract; ICheckIndex; ILoadIndex]
  ++ map IInsert (staged_rows x)
  ++ [IListVersions]
  ++ flat_map (fun r => [ICheckSrc (row_key r); ICopy (row_key r); ICheckDst (row_key r)]) (staged_rows x)
  ++ [ICommit].

Record rstate := { s_db : db; s_dirs : fs; s_stage : bool }.
Definition with_db (st : rstate) (d : db) := {| s_db := d; s_dirs := s_dirs st; s_stage := s_stage st |}.
Definition with_dirs (st : rstate) (f : fs) := {| s_db := s_db st; s_dirs := f; s_stage := s_stage st |}.
Definition with_stage (st : rstate) (b : bool) := {| s_db := s_db st; s_dirs := s_dirs st; s_stage := b |}.
Definition is_some {A} (o : option A) : bool := match o with Some _ => true | None => false end.

(* one atomic step: the state afterwards and whether the step succeeded (false = it raised) *)
Definition exec1 (e : env) (x : extraction) (i : nat) (ins : instr) (st : rstate) : rstate * bool :=
  if e_fail e i then
    match ins with
    | ICopy k =>
      match fs_get k (s_dirs st), e_partial e i with
      | None, Some c => (with_dirs st (s_dirs st ++ [(k, c)]), false)
      | _, _ => (st, false)
      end
    | _ => (st, false)
    end
  else
    match ins with
    | IMkdir => (with_stage st true, true)
    | IExtract => (st, x_ok x)
    | ICheckIndex => (st, is_some (x_index x))
    | ILoadIndex => (st, true)
    | IInsert r =>
      match db_insert r (s_db st) with
      | Some d => (with_db st d, true)
      | None => (st, false)                      (* IntegrityError -> DuplicateTaskOutput *)
      end
    | IListVersions => (st, true)
    | ICheckSrc k => (st, is_some (fs_get k (x_dirs x)))
    | ICopy k =>
      match fs_get k (s_dirs st), fs_get k (x_dirs x) with
      | None, Some c => (with_dirs st (s_dirs st ++ [(k, c)]), true)
      | _, _ => (st, false)                      (* FileExistsError: destination exists *)
      end
    | ICheckDst k => (st, is_some (fs_get k (s_dirs st)))
    | ICommit => (with_db st (db_commit (s_db st)), true)
    end.

(* the try block: states after each atomic step (up to and including the first one that
   raised), the state at the end, and whether the block ran to its end *)
Fixpoint run_try (e : env) (x : extraction) (i : nat) (prog : list instr) (st : rstate)
  : list rstate * rstate * bool :=
  match prog with
  | [] => ([], st, true)
  | ins :: prog' =>
    match exec1 e x i ins st with
    | (st', true) =>
      match run_try e x (S i) prog' st' with
      | (tr, fin, ok) => (st' :: tr, fin, ok)
      end
    | (st', false) => ([st'], st', false)
    end
  end.

Definition rollback_st (st : rstate) : rstate := with_db st (db_rollback (s_db st)).
Definition rmtree_st (st : rstate) : rstate := with_stage st false.

(* every state restore.main passes through, in order (the initial one first), and whether it
   reports success.  `except: rollback; raise` and `finally: rmtree(staging)` are steps too. *)
Definition restore_states (e : env) (x : extraction) (st0 : rstate) : list rstate * bool :=
  if negb (x_file x) then ([st0], false)          (* not archive_file.is_file(), before the try *)
  else
    match run_try e x 0 (program x) st0 with
    | (tr, fin, true) => (st0 :: tr ++ [rmtree_st fin], true)
    | (tr, fin, false) => (st0 :: tr ++ [rollback_st fin; rmtree_st (rollback_st fin)], false)
    end.

Definition init_state (P : proj) : rstate :=
  {| s_db := db_open (p_rows P); s_dirs := p_dirs P; s_stage := p_stage P |}.
(* what a later command finds: an uncommitted transaction is gone (process exit or kill) *)
Definition to_proj (P : proj) (st : rstate) : proj :=
  {| p_rows := d_committed (s_db st); p_dirs := s_dirs st; p_stage := s_stage st; p_aidx := p_aidx P |}.

(* a complete run: project afterwards, success? *)
Definition restore (e : env) (x : extraction) (P : proj) : proj * bool :=
  let (sts, ok) := restore_states e x (init_state P) in
  (to_proj P (last sts (init_state P)), ok).

(* the process is killed after k atomic steps (k beyond the end = it was not killed) *)
Definition restore_crash (e : env) (x : extraction) (P : proj) (k : nat) : proj :=
  let (sts, _) := restore_states e x (init_state P) in
  to_proj P (nth k sts (last sts (init_state P))).
