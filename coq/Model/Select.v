(* Model of the cached-result selection of run_experiment tasks:
     conductor/task_types/run.py   RunExperiment._retrieve_most_relevant_existing_version,
                                   RunExperiment.should_run
     conductor/execution/version_index(_queries).py   get_all_versions_for_task,
                                   get_latest_output_version (the two SQL queries as list functions)
     conductor/cli/run.py          validate_args and the commit resolution / ancestor check of main
     conductor/execution/planning/planner.py          the `run_again or should_run` test
   git enters only through Section variables that have the signatures of conductor.utils.git.Git:
     is_ancestor commit candidate, get_distance start ancestor, rev_parse symbol.
   The functions are transcriptions of the Python control flow (loops with their accumulators),
   not of the documented rule; that the two coincide is what Proofs/SelectProofs.v shows.
   No proofs in this file. *)
From Coq Require Import List NArith Bool.
From Conductor Require Import Lib.Str.
Import ListNotations.
Open Scope N_scope.

(* a commit id (any object id git may print or be given) *)
Definition cid := N.

(* execution/version_index.py: Version(timestamp, commit_hash, has_uncommitted_changes) *)
Record version := { ts : N; commit : option cid; dirty : bool }.

(* what Context.uses_git / Context.current_commit evaluate to:
     NoGit      uses_git = False (no repository, or disable_git in cond_config.toml)
     NoCommits  uses_git = True, current_commit = None (rev-parse HEAD fails)
     Head h     uses_git = True, current_commit.hash = h *)
Inductive mode := NoGit | NoCommits | Head (h : cid).

Definition uses_git (m : mode) : bool := match m with NoGit => false | _ => true end.
Definition current_commit (m : mode) : option cid := match m with Head h => Some h | _ => None end.

Definition is_some {A} (o : option A) : bool := match o with Some _ => true | None => false end.

(* ---------- the version index as a list of rows (task identifier, version) ---------- *)

(* version_index_queries.all_entries_for_task: SELECT ... WHERE task_identifier = ?
   (row order is whatever sqlite produces; the model keeps the list order and C05_perm shows
   that the order does not matter) *)
Definition versions_for (t : str) (rows : list (str * version)) : list version :=
  map snd (filter (fun r => str_eqb (fst r) t) rows).

(* Python's max(l, key=lambda v: v.timestamp): the FIRST element carrying the maximal key;
   None stands for the ValueError on an empty list (never reached: guarded by len > 0) *)
Definition py_max_ts (l : list version) : option version :=
  fold_left (fun acc v =>
               match acc with
               | None => Some v
               | Some m => if ts m <? ts v then Some v else acc
               end) l None.

(* version_index_queries.latest_task_version: ORDER BY timestamp DESC LIMIT 1, fetchone().
   (timestamp is unique per task -- PRIMARY KEY (task_identifier, timestamp) -- so which of two
   equal timestamps sqlite would return first is not observable) *)
Definition latest (vs : list version) : option version := py_max_ts vs.

Section Git.
  (* Git.is_ancestor(commit_hash, candidate_ancestor_hash): merge-base --is-ancestor candidate commit *)
  Variable is_ancestor : cid -> cid -> bool.
  (* Git.get_distance(start_hash, ancestor_hash): rev-list --count start ^ancestor *)
  Variable get_distance : cid -> cid -> N.
  (* Git.rev_parse(symbol): rev-parse --verify symbol^{commit}; None when git fails *)
  Variable rev_parse : str -> option cid.

  (* the first loop of _retrieve_most_relevant_existing_version:
       for version in existing_versions:
           if version.commit_hash is None:            null_commit_versions.append(version)
           elif ctx.git.is_ancestor(curr, version.commit_hash): ancestor_versions.append(version) *)
  Fixpoint classify (h : cid) (vs ancs nulls : list version) : list version * list version :=
    match vs with
    | [] => (ancs, nulls)
    | v :: rest =>
      match commit v with
      | None => classify h rest ancs (nulls ++ [v])
      | Some c =>
        if is_ancestor h c then classify h rest (ancs ++ [v]) nulls
        else classify h rest ancs nulls
      end
    end.

  (* one iteration of the second loop; the state is (selected_version, closest_distance),
     None = (None, -1):
       dist = ctx.git.get_distance(curr, v.commit_hash)
       if selected_version is None or dist < closest_distance:
           selected_version = v; closest_distance = dist
       elif dist == closest_distance and v.timestamp > selected_version.timestamp:
           selected_version = v *)
  Definition closest_step (h : cid) (st : option (version * N)) (v : version) : option (version * N) :=
    match commit v with
    | None => st      (* assert v.commit_hash is not None -- never taken, see classify *)
    | Some c =>
      let d := get_distance h c in
      match st with
      | None => Some (v, d)
      | Some (s, cd) =>
        if d <? cd then Some (v, d)
        else if (d =? cd) && (ts s <? ts v) then Some (v, cd)
        else st
      end
    end.

  (* RunExperiment._retrieve_most_relevant_existing_version, on the versions of the task *)
  Definition select (m : mode) (vs : list version) : option version :=
    match m with
    | NoGit => latest vs                       (* if not ctx.uses_git *)
    | NoCommits => latest vs                   (* if curr_commit is None *)
    | Head h =>
      let '(ancs, nulls) := classify h vs [] [] in
      if negb (Nat.eqb (length ancs) 0) then   (* if len(ancestor_versions) > 0 *)
        option_map fst (fold_left (closest_step h) ancs None)
      else if Nat.eqb (length nulls) (length vs) && negb (Nat.eqb (length nulls) 0) then
        py_max_ts nulls                        (* max(null_commit_versions, key=timestamp) *)
      else None
    end.

  Definition select_task (m : mode) (rows : list (str * version)) (t : str) : option version :=
    select m (versions_for t rows).

  (* RunExperiment.should_run(ctx, at_least_commit), given the most relevant version *)
  Definition should_run (at_least : option cid) (sel : option version) : bool :=
    match sel with
    | None => true
    | Some v =>
      match at_least with
      | None => false
      | Some c =>
        match commit v with
        | None => true
        | Some vc =>
          if vc =? c then false
          else is_ancestor c vc       (* most_relevant_is_older = is_ancestor(at_least, vc) *)
        end
      end
    end.

  (* planner.create_plan_for: `if not run_again and not lt.task.should_run(ctx, at_least)` => cached *)
  Definition executes (run_again : bool) (at_least : option cid) (m : mode) (vs : list version) : bool :=
    run_again || should_run at_least (select m vs).

  (* ---------- cli/run.py ---------- *)
  Record flags := { f_again : bool; f_at_least : option str; f_this_commit : bool }.

  Inductive flag_error :=
  | CannotSetBothCommitFlags
  | CannotSetAgainAndCommit
  | CommitFlagUnsupported
  | InvalidCommitSymbol
  | AtLeastCommitNotAncestor.

  (* what main() hands to ExecutionPlanner.create_plan_for, or the error it raises first *)
  Inductive outcome :=
  | Rejected (e : flag_error)
  | Plan (run_again : bool) (at_least_commit : option cid).

  Definition HEAD_SYM : str := [72; 69; 65; 68].

  (* validate_args(args, ctx) *)
  Definition validate_args (f : flags) (m : mode) : option flag_error :=
    let for_commit := f_this_commit f || is_some (f_at_least f) in
    if f_this_commit f && is_some (f_at_least f) then Some CannotSetBothCommitFlags
    else if f_again f && for_commit then Some CannotSetAgainAndCommit
    else if for_commit && negb (uses_git m) then Some CommitFlagUnsupported
    else if for_commit && negb (is_some (current_commit m)) then Some CommitFlagUnsupported
    else None.

  (* main() without --check: validate_args, then "Convert the specified commit to a hash, if needed"
     and the ancestor check.  (With --check main() returns right after loading the tasks, before
     the commit is resolved: nothing is planned or executed, so an unknown --at-least symbol is not
     reported then; that path is exercised by the end-to-end part of the C15 check.) *)
  Definition validate_flags (f : flags) (m : mode) : outcome :=
    match validate_args f m with
    | Some e => Rejected e
    | None =>
      if f_this_commit f || is_some (f_at_least f) then
        match rev_parse (match f_at_least f with Some s => s | None => HEAD_SYM end) with
        | None => Rejected InvalidCommitSymbol
        | Some c =>
          match current_commit m with
          | None => Rejected CommitFlagUnsupported   (* assert ctx.current_commit is not None *)
          | Some h =>
            if is_ancestor h c then Plan (f_again f) (Some c)
            else Rejected AtLeastCommitNotAncestor
          end
        end
      else Plan (f_again f) None
    end.

  (* the whole decision of `cond run` for one run_experiment task *)
  Definition cond_run_executes (f : flags) (m : mode) (vs : list version) : option bool :=
    match validate_flags f m with
    | Rejected _ => None
    | Plan again c => Some (executes again c m vs)
    end.
End Git.

(* ---------- what the two git commands compute, on an explicit commit graph ----------
   A history is the list of its commits in creation order, each with its parents (which were
   created earlier).  [reach_table] maps every commit to the list of commits reachable from it
   (itself included).  These are the functions the correspondence check compares with real git
   (`merge-base --is-ancestor`, `rev-list --count`); instantiating the Section variables with
   them gives the selection over a concrete history. *)
Definition dag := list (cid * list cid).

Fixpoint lookup (c : cid) (t : list (cid * list cid)) : list cid :=
  match t with
  | [] => []
  | (k, l) :: t' => if k =? c then l else lookup c t'
  end.

Definition mem (c : cid) (l : list cid) : bool := existsb (N.eqb c) l.

Fixpoint dedup (l : list cid) : list cid :=
  match l with
  | [] => []
  | x :: l' => if mem x l' then dedup l' else x :: dedup l'
  end.

Fixpoint reach_table (d : dag) (acc : list (cid * list cid)) : list (cid * list cid) :=
  match d with
  | [] => acc
  | (c, ps) :: d' => reach_table d' ((c, dedup (c :: flat_map (fun p => lookup p acc) ps)) :: acc)
  end.

Definition known (d : dag) (c : cid) : bool := existsb (fun e => fst e =? c) d.

(* candidate is reachable from commit; false when either is not an object of the history *)
Definition dag_is_ancestor (d : dag) (commit candidate : cid) : bool :=
  mem candidate (lookup commit (reach_table d [])).

(* number of commits reachable from start and not from c *)
Definition dag_distance (d : dag) (start c : cid) : N :=
  let t := reach_table d [] in
  N.of_nat (length (filter (fun x => negb (mem x (lookup c t))) (lookup start t))).

Definition dag_select (d : dag) (m : mode) (vs : list version) : option version :=
  select (dag_is_ancestor d) (dag_distance d) m vs.
