(* Model of ExecutionPlanner.create_plan_for (conductor/execution/planning/planner.py) as it is
   after the repair of D1 (a first-visit pop of an already visited identifier shares the earlier
   lowering's operations).  Python object identity of LoweringTask is modelled by a store
   addressed by allocation index. *)
From Coq Require Import List Arith Bool.
From Conductor Require Import Model.Loader.
Import ListNotations.

Inductive tkind := KCommand | KExperiment | KCombine | KGroup.

Record tinfo := {
  t_deps : list nat;        (* TaskType.deps, in declared order *)
  t_kind : tkind;
  t_par : bool              (* parallelizable (commands / experiments only) *)
}.

Inductive out_ref := Own (ops : list nat) | Alias (lt : nat).

Record ltask := {
  lt_task : nat;
  lt_second : bool;         (* LoweringState.SECOND_VISIT *)
  lt_deps : list nat;       (* indices of LoweringTasks, in append order *)
  lt_out : out_ref
}.

Record opinfo := {
  op_task : nat;
  op_exe_deps : list nat;   (* operation ids = positions in all_ops *)
  op_par : bool;
  op_sync : bool            (* CombineOutputs / NoOp: executed synchronously *)
}.

Record pstate := {
  store : list ltask;
  stack : list nat;                  (* head = top *)
  visited : list (nat * nat);        (* task -> LoweringTask index, newest binding first *)
  ops : list opinfo;                 (* all_ops, in creation order *)
  initial : list nat;                (* initial_operations *)
  cached : list nat;                 (* cached_tasks *)
  sr_calls : list nat;               (* tasks on which should_run was evaluated, in order *)
  nv_calls : list nat;               (* tasks on which create_new_version was called, in order *)
  snaps : list (nat * list (nat * bool))
    (* get_deps_output_paths at the second visit of a task: for each direct dependency, in declared
       order, whether its NEW version already exists at that moment (else the path handed out is
       the one of its selected existing version / its unversioned directory) *)
}.

Fixpoint lookup (x : nat) (m : list (nat * nat)) : option nat :=
  match m with
  | [] => None
  | (k, v) :: m' => if Nat.eqb x k then Some v else lookup x m'
  end.

Fixpoint set_nth {A} (i : nat) (x : A) (l : list A) : list A :=
  match l, i with
  | [], _ => []
  | _ :: l', O => x :: l'
  | y :: l', S j => y :: set_nth j x l'
  end.

Definition dummy_lt : ltask := {| lt_task := 0; lt_second := false; lt_deps := []; lt_out := Own [] |}.

Definition resolve_out (st : list ltask) (o : out_ref) : list nat :=
  match o with
  | Own l => l
  | Alias v => match lt_out (nth v st dummy_lt) with Own l => l | Alias _ => [] end
  end.

Section Planner.
  Variable info : nat -> tinfo.
  Variable sr : nat -> bool.        (* TaskType.should_run: true for everything but cached experiments *)
  Variable again : bool.

  Definition is_sync (k : tkind) : bool := match k with KCombine | KGroup => true | _ => false end.

  (* the `for dep_ident in reversed(lt.task.deps)` loop of the first visit *)
  Fixpoint push_deps (ds : list nat) (vis : list (nat * nat)) (st : list ltask) (stk deps : list nat)
    : list ltask * list nat * list nat :=
    match ds with
    | [] => (st, stk, deps)
    | d :: ds' =>
      match lookup d vis with
      | Some v => push_deps ds' vis st stk (deps ++ [v])
      | None =>
        let j := length st in
        push_deps ds' vis
                  (st ++ [{| lt_task := d; lt_second := false; lt_deps := []; lt_out := Own [] |}])
                  (j :: stk) (deps ++ [j])
      end
    end.

  Definition pstep (s : pstate) : option pstate :=
    match stack s with
    | [] => None
    | i :: stk =>
      let lt := nth i (store s) dummy_lt in
      let t := lt_task lt in
      if negb (lt_second lt) then
        match lookup t (visited s) with
        | Some v =>
          Some {| store := set_nth i {| lt_task := t; lt_second := false; lt_deps := lt_deps lt; lt_out := Alias v |} (store s);
                  stack := stk; visited := visited s; ops := ops s; initial := initial s;
                  cached := cached s; sr_calls := sr_calls s; nv_calls := nv_calls s; snaps := snaps s |}
        | None =>
          let vis := (t, i) :: visited s in
          if negb again && negb (sr t) then
            Some {| store := store s; stack := stk; visited := vis; ops := ops s; initial := initial s;
                    cached := cached s ++ [t]; sr_calls := sr_calls s ++ [t]; nv_calls := nv_calls s; snaps := snaps s |}
          else
            let '(st1, stk1, deps1) := push_deps (rev (t_deps (info t))) vis (store s) (i :: stk) [] in
            Some {| store := set_nth i {| lt_task := t; lt_second := true; lt_deps := deps1; lt_out := lt_out lt |} st1;
                    stack := stk1; visited := vis; ops := ops s; initial := initial s;
                    cached := cached s;
                    sr_calls := if again then sr_calls s else sr_calls s ++ [t];
                    nv_calls := nv_calls s; snaps := snaps s |}
        end
      else
        let o := length (ops s) in
        let edeps := flat_map (fun d => resolve_out (store s) (lt_out (nth d (store s) dummy_lt))) (lt_deps lt) in
        let k := t_kind (info t) in
        let oi := {| op_task := t; op_exe_deps := edeps;
                     op_par := match k with KCommand | KExperiment => t_par (info t) | _ => false end;
                     op_sync := is_sync k |} in
        Some {| store := set_nth i {| lt_task := t; lt_second := true; lt_deps := lt_deps lt;
                                      lt_out := match lt_out lt with Own l => Own (l ++ [o]) | a => a end |} (store s);
                stack := stk; visited := visited s; ops := ops s ++ [oi];
                initial := match edeps with [] => initial s ++ [o] | _ => initial s end;
                cached := cached s; sr_calls := sr_calls s;
                nv_calls := match k with KExperiment => nv_calls s ++ [t] | _ => nv_calls s end;
                (* create_new_version (above) happens before get_deps_output_paths in the planner *)
                snaps := snaps s ++ [(t, map (fun d => (d, mem d (match k with KExperiment => nv_calls s ++ [t] | _ => nv_calls s end))) (t_deps (info t)))] |}
    end.

  Fixpoint piter (fuel : nat) (s : pstate) : option pstate :=
    match fuel with
    | O => None
    | S f => match pstep s with None => Some s | Some s' => piter f s' end
    end.

  Definition pinit (root : nat) : pstate :=
    {| store := [{| lt_task := root; lt_second := false; lt_deps := []; lt_out := Own [] |}];
       stack := [0]; visited := []; ops := []; initial := []; cached := []; sr_calls := []; nv_calls := []; snaps := [] |}.

  Definition plan_for (fuel : nat) (root : nat) : option pstate := piter fuel (pinit root).
End Planner.

(* the ExecutionPlan as the executor sees it *)
Fixpoint count (x : nat) (l : list nat) : nat :=
  match l with [] => 0 | y :: l' => (if Nat.eqb x y then 1 else 0) + count x l' end.

Record plan := {
  p_ops : list opinfo;
  p_initial : list nat;
  p_cached : list nat;
  p_num : nat
}.

Definition plan_of (s : pstate) : plan :=
  {| p_ops := ops s; p_initial := initial s; p_cached := cached s; p_num := length (ops s) |}.

Definition exe_deps (p : plan) (o : nat) : list nat :=
  op_exe_deps (nth o (p_ops p) {| op_task := 0; op_exe_deps := []; op_par := false; op_sync := false |}).

(* Operation._deps_of: `dep_op.add_dep_of(new_op)` once per occurrence, in creation order *)
Definition deps_of (p : plan) (d : nat) : list nat :=
  flat_map (fun o => repeat o (count d (exe_deps p o))) (seq 0 (length (p_ops p))).
