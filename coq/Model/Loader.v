(* Model of TaskIndex.load_transitive_closure and TaskIndex.validate_all_loaded_tasks
   (conductor/parsing/task_index.py).  Tasks are natural numbers; the project is a function
   from task to what loading it yields. *)
From Coq Require Import List Arith Bool.
Import ListNotations.

Inductive kind :=
| Undefined                  (* no such task (or no COND file): TaskNotFound / MissingCondFile *)
| Bad                        (* defined but parsing/materialising it raises some ConductorError *)
| Good (deps : list nat).    (* defined; its dependency list as written, in order *)

Definition graph := nat -> kind.

Inductive result :=
| Ok (loaded : list nat)     (* visited_identifiers at the end, most recently finished first *)
| ErrCycle
| ErrNotFound (x : nat)
| ErrBad (x : nat)
| ErrDup (x : nat)           (* DuplicateDependency raised while materialising x *)
| OutOfFuel.

Fixpoint mem (x : nat) (l : list nat) : bool :=
  match l with [] => false | y :: l' => Nat.eqb x y || mem x l' end.

Fixpoint has_dup (l : list nat) : bool :=
  match l with [] => false | x :: l' => mem x l' || has_dup l' end.

Fixpoint remove (x : nat) (l : list nat) : list nat :=
  match l with [] => [] | y :: l' => if Nat.eqb x y then remove x l' else y :: remove x l' end.

Definition add (x : nat) (l : list nat) : list nat := if mem x l then l else x :: l.

Definition deps_of_kind (k : kind) : list nat := match k with Good ds => ds | _ => [] end.

Section Loader.
  Variable g : graph.

  (* stack entries: (identifier, visit_count > 0); head of the list = top of the Python list *)
  Fixpoint load (fuel : nat) (stack : list (nat * bool)) (visited path : list nat) : result :=
    match fuel with
    | O => OutOfFuel
    | S f =>
      match stack with
      | [] => Ok visited
      | (x, true) :: st => load f st (add x visited) (remove x path)
      | (x, false) :: st =>
        if mem x path then ErrCycle
        else match g x with
             | Undefined => ErrNotFound x
             | Bad => ErrBad x
             | Good ds =>
               if has_dup ds then ErrDup x
               else load f
                      (rev (map (fun d => (d, false)) (filter (fun d => negb (mem d visited)) ds))
                       ++ (x, true) :: st)
                      visited (x :: path)
             end
      end
    end.

  Definition load_closure (fuel : nat) (root : nat) : result := load fuel [(root, false)] [] [].

  (* ---- validate_all_loaded_tasks over the loaded tasks `keys` (dict order) ---- *)
  Inductive vresult :=
  | VOk (roots : list nat)
  | VCycle
  | VNotFound (x : nat)
  | VOutOfFuel.

  (* root_candidates: association list in insertion order (oldest first) *)
  Fixpoint bump (x : nat) (rc : list (nat * nat)) : list (nat * nat) :=
    match rc with
    | [] => []
    | (y, c) :: rc' => if Nat.eqb x y then (y, S c) :: rc' else (y, c) :: bump x rc'
    end.

  Definition loaded (keys : list nat) (x : nat) : bool :=
    mem x keys && match g x with Good _ => true | _ => false end.

  (* one do_traversal: returns (visited, root_candidates) or an error *)
  Fixpoint traverse (fuel : nat) (keys : list nat) (stack : list (nat * bool))
           (visited path : list nat) (rc : list (nat * nat))
    : option (list nat * list (nat * nat)) + vresult :=
    match fuel with
    | O => inr VOutOfFuel
    | S f =>
      match stack with
      | [] => inl (Some (visited, rc))
      | (x, true) :: st => traverse f keys st visited (remove x path) rc
      | (x, false) :: st =>
        if mem x path then inr VCycle
        else if mem x visited then traverse f keys st visited path rc
        else if negb (loaded keys x) then inr (VNotFound x)
        else
          let ds := deps_of_kind (g x) in
          traverse f keys
                   (rev (map (fun d => (d, false)) ds) ++ (x, true) :: st)
                   (x :: visited) (x :: path)
                   (fold_left (fun acc d => bump d acc) ds rc)
      end
    end.

  Fixpoint validate_loop (fuel : nat) (keys todo : list nat) (visited : list nat) (rc : list (nat * nat)) : vresult :=
    match todo with
    | [] => VOk (map fst (filter (fun p => Nat.eqb (snd p) 0) rc))
    | t :: todo' =>
      if mem t visited then validate_loop fuel keys todo' visited rc
      else match traverse fuel keys [(t, false)] visited [] (rc ++ [(t, 0)]) with
           | inl (Some (v', rc')) => validate_loop fuel keys todo' v' rc'
           | inl None => VOutOfFuel
           | inr e => e
           end
    end.

  Definition validate_all (fuel : nat) (keys : list nat) : vresult := validate_loop fuel keys keys [] [].
End Loader.
