(* Model of task_types/stdlib/run_experiment_group.py and of the statement-by-statement
   execution of a COND file (parsing/task_loader.py:parse_cond_file) that contains plain
   constructor calls and run_experiment_group calls.

   [group_impl h d st] transcribes the function: the accumulators seen_experiment_names,
   prev_experiment_identifier, relative_experiment_identifiers, the aliasing
   `experiment_deps = task_deps`, the rebuilt list `[*task_deps, prev]`, the mapping of
   TypeError to ExperimentGroupInvalidExperimentInstance; [h] is whatever run_experiment and
   combine are bound to in the scope the library file was compiled in (task_loader.py:
   _compile_scope binds them to the shims), [st] the state they act on.

   [expansion d xs] is the expansion that website/docs/task-types/run-experiment-group.md
   describes, written directly from the text; [group_doc d] adds the order in which a definition
   that is not of the documented form (a member that is not an ExperimentInstance, a repeated
   instance name) is diagnosed. *)
From Coq Require Import List NArith ZArith Bool.
Require Coq.Strings.String.
Import Coq.Strings.String.StringSyntax.
From Conductor Require Import Lib.Str Lib.SchemaTypes Gen.Generated Model.Ident Model.Schema.
Import ListNotations.
Open Scope N_scope.


(* ExperimentInstance(name, args=[], options={}, parallelizable=False): the four fields after the
   NamedTuple filled in its defaults *)
Record instance := { i_name : value; i_args : value; i_options : value; i_par : value }.

(* an element of `experiments` *)
Inductive member :=
| MInst (x : instance)
| MOther (v : value).            (* not isinstance(experiment, ExperimentInstance) *)

Record gdef := {
  g_name : value;
  g_run : value;
  g_experiments : option (list member);   (* None: a value that cannot be iterated *)
  g_chain : bool;
  g_deps : option value                   (* None: omitted *)
}.

(* ---------- the Python operations the function applies to arbitrary values ---------- *)
(* hash(v) does not raise *)
Definition hashable (v : value) : bool :=
  match v with
  | VList _ | VDict _ => false
  | VOther h _ => h
  | _ => true
  end.

Definition num_of (v : value) : option (Z * positive) :=
  match v with
  | VBool b => Some (if b then 1%Z else 0%Z, 1%positive)
  | VInt z => Some (z, 1%positive)
  | VFloat n d => Some (n, d)
  | _ => None
  end.

(* a == b for hashable values (True == 1 == 1.0) *)
Definition py_eqb (a b : value) : bool :=
  match num_of a, num_of b with
  | Some (n1, d1), Some (n2, d2) => Z.eqb n1 n2 && Pos.eqb d1 d2
  | None, None =>
    match a, b with
    | VStr s, VStr t => str_eqb s t
    | VNone, VNone => true
    | VOther _ s, VOther _ t => N.eqb s t
    | VFloatX j, VFloatX k => N.eqb j k && negb (N.eqb j 2)   (* inf == inf, nan != nan *)
    | _, _ => false
    end
  | _, _ => false
  end.

(* x in seen  for a set: None = TypeError (unhashable) *)
Definition py_in (x : value) (seen : list value) : option bool :=
  if hashable x then Some (existsb (py_eqb x) seen) else None.

(* [*v] : None = TypeError (not iterable).  Iterating a str gives its characters, a dict its keys.
   An object that is none of the known classes is treated as not iterable. *)
Definition spread (v : value) : option (list value) :=
  match v with
  | VList l => Some l
  | VStr s => Some (map (fun c => VStr [c]) s)
  | VDict kv => Some (map fst kv)
  | _ => None
  end.

(* ---------- the two constructor calls the function makes ---------- *)
Definition experiment_call (x : instance) (run deps : value) : call :=
  (C_run_experiment,
   [(K_name, i_name x); (K_run, run); (K_parallelizable, i_par x);
    (K_args, i_args x); (K_options, i_options x); (K_deps, deps)]).

Definition combine_call (name : value) (rel : list value) : call :=
  (C_combine, [(K_name, name); (K_deps, VList rel)]).

(* task_deps = deps if deps is not None else [] *)
Definition task_deps_of (d : gdef) : value :=
  match g_deps d with
  | None | Some VNone => VList []
  | Some v => v
  end.

(* ---------- run_experiment_group ---------- *)
Section Impl.
  Context {S : Type} (h : call -> S -> result S).

  (* the body of `for experiment in experiments` with its accumulators *)
  Fixpoint group_loop (run : value) (chain : bool) (task_deps : value) (ms : list member)
           (seen : list value) (prev : option str) (rel : list value) (st : S)
    : result (list value * S) :=
    match ms with
    | [] => Ok (rel, st)
    | MOther _ :: _ => Err EGroupInvalidInstance
    | MInst x :: ms' =>
      match py_in (i_name x) seen with
      | None => Err EGroupInvalidInstance           (* TypeError: unhashable *)
      | Some true => Err EGroupDuplicateName
      | Some false =>
        let seen' := seen ++ [i_name x] in
        let experiment_deps :=
          match chain, prev with
          | true, Some p =>
            match spread task_deps with
            | Some l => Some (VList (l ++ [VStr p]))
            | None => None                          (* TypeError: not iterable *)
            end
          | _, _ => Some task_deps                  (* the same object for every instance *)
          end in
        match experiment_deps with
        | None => Err EGroupInvalidInstance
        | Some deps =>
          bind (h (experiment_call x run deps) st) (fun st' =>
            match i_name x with
            | VStr s =>
              let id := COLON :: s in
              group_loop run chain task_deps ms' seen' (Some id) (rel ++ [VStr id]) st'
            | _ => Err EGroupInvalidInstance        (* ":" + name: TypeError *)
            end)
        end
      end
    end.

  Definition group_impl (d : gdef) (st : S) : result S :=
    match g_experiments d with
    | None => Err EGroupInvalidInstance             (* TypeError: not iterable *)
    | Some ms =>
      bind (group_loop (g_run d) (g_chain d) (task_deps_of d) ms [] None [] st) (fun r =>
        h (combine_call (g_name d) (fst r)) (snd r))
    end.
End Impl.

(* ---------- the documented expansion ---------- *)
(* ":" ++ name.  For a name that is not a string the text has no identifier; the value chosen
   here never matters because the run_experiment task of that name is rejected first. *)
Definition rel_id (v : value) : value :=
  match v with VStr s => VStr (COLON :: s) | _ => v end.

(* deps plus one more identifier (for a `deps` that is not a list no run_experiment task is
   accepted, so again the value is immaterial) *)
Definition append_dep (deps v : value) : value :=
  match spread deps with Some l => VList (l ++ [v]) | None => deps end.

Fixpoint with_prev {A} (prev : option A) (l : list A) : list (option A * A) :=
  match l with
  | [] => []
  | x :: l' => (prev, x) :: with_prev (Some x) l'
  end.

(* the run_experiment task of one instance: its own name, args, options, parallelizable; the
   group's run; the group's deps and, when chained, the instance before it *)
Definition doc_experiment (d : gdef) (prev : option instance) (x : instance) : call :=
  experiment_call x (g_run d)
    (match g_chain d, prev with
     | true, Some p => append_dep (task_deps_of d) (rel_id (i_name p))
     | _, _ => task_deps_of d
     end).

Definition doc_experiments (d : gdef) (prev : option instance) (xs : list instance) : list call :=
  map (fun px => doc_experiment d (fst px) (snd px)) (with_prev prev xs).

(* ... followed by combine(name, deps=[":" ++ n for each instance]) *)
Definition expansion (d : gdef) (xs : list instance) : list call :=
  doc_experiments d None xs ++ [combine_call (g_name d) (map (fun x => rel_id (i_name x)) xs)].

(* when every member is an ExperimentInstance *)
Fixpoint instances_of (ms : list member) : option (list instance) :=
  match ms with
  | [] => Some []
  | MInst x :: ms' => option_map (cons x) (instances_of ms')
  | MOther _ :: _ => None
  end.

Definition doc_calls (d : gdef) : option (list call) :=
  match g_experiments d with
  | None => None
  | Some ms => option_map (expansion d) (instances_of ms)
  end.

(* What is wrong with a member given the instances before it: None = nothing.  The boolean says
   whether its run_experiment task is still issued before the diagnostic. *)
Definition member_problem (d : gdef) (earlier : list instance) (m : member) : option (bool * err) :=
  match m with
  | MOther _ => Some (false, EGroupInvalidInstance)
  | MInst x =>
    match py_in (i_name x) (map i_name earlier) with
    | None => Some (false, EGroupInvalidInstance)
    | Some true => Some (false, EGroupDuplicateName)
    | Some false =>
      match g_chain d, earlier, spread (task_deps_of d) with
      | true, _ :: _, None => Some (false, EGroupInvalidInstance)
      | _, _, _ =>
        match i_name x with
        | VStr _ => None
        | _ => Some (true, EGroupInvalidInstance)
        end
      end
    end
  end.

(* the longest prefix of members without a problem, and the first member with one *)
Fixpoint split_good (d : gdef) (earlier : list instance) (ms : list member)
  : list instance * option (list instance * err) :=
  match ms with
  | [] => ([], None)
  | m :: ms' =>
    match member_problem d earlier m with
    | None =>
      match m with
      | MInst x => let r := split_good d (earlier ++ [x]) ms' in (x :: fst r, snd r)
      | MOther _ => ([], None)     (* impossible: member_problem (MOther _) is Some _ *)
      end
    | Some (issued, e) =>
      ([], Some (match m with MInst x => if issued then [x] else [] | MOther _ => [] end, e))
    end
  end.

(* the constructor calls a definition stands for, in order, and the diagnostic that ends them
   when the definition is not of the documented form *)
Definition group_doc (d : gdef) : list call * option err :=
  match g_experiments d with
  | None => ([], Some EGroupInvalidInstance)
  | Some ms =>
    match split_good d [] ms with
    | (xs, None) => (expansion d xs, None)
    | (xs, Some (extra, e)) => (doc_experiments d None (xs ++ extra), Some e)
    end
  end.

Definition run_trace {S : Type} (h : call -> S -> result S) (t : list call * option err) (st : S)
  : result S :=
  bind (run_calls h (fst t) st) (fun st' =>
    match snd t with None => Ok st' | Some e => Err e end).

(* ---------- a COND file ---------- *)
Inductive stmt :=
| SCall (c : call)
| SGroup (d : gdef).

Definition exec_stmt (s : stmt) (ts : tasks) : result tasks :=
  match s with
  | SCall c => shim c ts
  | SGroup d => group_impl shim d ts
  end.

Fixpoint exec_stmts (ss : list stmt) (ts : tasks) : result tasks :=
  match ss with
  | [] => Ok ts
  | s :: ss' => bind (exec_stmt s ts) (exec_stmts ss')
  end.

Definition parse_file (ss : list stmt) : result tasks := exec_stmts ss [].

(* the same file with every group replaced by its documented expansion; None when a group has
   a member for which the documentation gives no expansion *)
Fixpoint expand_file (ss : list stmt) : option (list call) :=
  match ss with
  | [] => Some []
  | SCall c :: ss' => option_map (cons c) (expand_file ss')
  | SGroup d :: ss' =>
    match doc_calls d, expand_file ss' with
    | Some cs, Some cs' => Some (cs ++ cs')
    | _, _ => None
    end
  end.

(* `cond run --check //dir:t` restricted to one file: parse it, then materialise t *)
Definition check_task (dir : list str) (ss : list stmt) (t : str) : result task :=
  bind (parse_file ss) (fun ts => load_task dir ts t).
