(* Model of the task environment contract: command-line serialisation
   (utils/run_arguments.py, utils/run_options.py, RunTaskExecutable.__init__), the environment
   variables of execution/ops/run_task_executable.py:start_execution, and the support library
   conductor/lib/path.py.  Non-boolean argument values arrive already rendered by Python's str(). *)
From Coq Require Import List NArith Bool.
From Conductor Require Import Lib.Str Gen.Generated Model.Ident.
Import ListNotations.
Local Open Scope N_scope.

Inductive argval := AStr (s : str) | ABool (b : bool).

Definition s_true : str := [116; 114; 117; 101].          (* "true" *)
Definition s_false : str := [102; 97; 108; 115; 101].     (* "false" *)
Definition SPACE : N := 32.
Definition LBRACE : N := 123.
Definition RBRACE : N := 125.
Definition s_key : str := [107; 101; 121].                (* "key" *)
Definition s_value : str := [118; 97; 108; 117; 101].     (* "value" *)

Definition render (a : argval) : str :=
  match a with AStr s => s | ABool b => if b then s_true else s_false end.

(* RunArguments.serialize_cmdline *)
Definition args_cmdline (args : list argval) : str := join [SPACE] (map render args).

(* str.format with the named fields {key} and {value}; None on any other use of braces *)
Fixpoint take_field (s : str) (acc : str) : option (str * str) :=
  match s with
  | [] => None
  | c :: s' => if c =? RBRACE then Some (rev acc, s')
               else if c =? LBRACE then None
               else take_field s' (c :: acc)
  end.

Fixpoint format_kv (fuel : nat) (tmpl key value : str) : option str :=
  match fuel with
  | O => None
  | S f =>
    match tmpl with
    | [] => Some []
    | c :: t =>
      if c =? LBRACE then
        match take_field t [] with
        | Some (name, rest) =>
          let sub := if str_eqb name s_key then Some key else if str_eqb name s_value then Some value else None in
          match sub, format_kv f rest key value with
          | Some x, Some r => Some (x ++ r)
          | _, _ => None
          end
        | None => None
        end
      else if c =? RBRACE then None
      else match format_kv f t key value with Some r => Some (c :: r) | None => None end
    end
  end.

Definition format_option (key : str) (v : argval) : option str :=
  format_kv (S (length cfg_EXP_OPTION_CMD_FORMAT)) cfg_EXP_OPTION_CMD_FORMAT key (render v).

Fixpoint all_some {A} (l : list (option A)) : option (list A) :=
  match l with
  | [] => Some []
  | Some x :: l' => match all_some l' with Some r => Some (x :: r) | None => None end
  | None :: _ => None
  end.

(* RunOptions.serialize_cmdline: options in insertion order *)
Definition opts_cmdline (opts : list (str * argval)) : option str :=
  match all_some (map (fun kv => format_option (fst kv) (snd kv)) opts) with
  | Some l => Some (join [SPACE] l)
  | None => None
  end.

(* RunTaskExecutable.__init__: " ".join([run, args, options]) *)
Definition cmdline (run : str) (args : list argval) (opts : list (str * argval)) : option str :=
  match opts_cmdline opts with
  | Some o => Some (join [SPACE] [run; args_cmdline args; o])
  | None => None
  end.

(* paths are lists of components below the project root *)
Definition path_str (root : str) (comps : list str) : str := root ++ flat_map (fun c => SLASH :: c) comps.

Definition cond_out (root : str) (i : ident) (v : option N) : str := path_str root (out_path i v).
Definition cond_name (i : ident) : str := iname i.
Definition working_dir (root : str) (i : ident) : str := path_str root (ipath i).
(* COND_DEPS: DEPS_ENV_PATH_SEPARATOR.join(map(str, deps_output_paths)) *)
Definition cond_deps (paths : list str) : str := join cfg_DEPS_ENV_PATH_SEPARATOR paths.

(* TaskType.get_deps_output_paths: [outs] = what get_output_path(ctx) gives for each declared dependency, in the order
   of `deps` (None: a run_experiment dependency without any recorded version); the loop appends every path that is not
   None -- the per-dependency decision is the one regenerated from the sources (Gen.Generated.gen_deps_paths_step) *)
Definition deps_output_paths (outs : list (option str)) : list str :=
  fold_left (fun acc o =>
               match gen_deps_paths_step (match o with None => true | Some _ => false end), o with
               | 1, Some p => acc ++ [p]
               | _, _ => acc
               end) outs [].

(* conductor.lib.path.get_deps_paths (after the repair of D3), get_output_path, in_output_dir *)
Definition sep_char : N := match cfg_DEPS_ENV_PATH_SEPARATOR with [c] => c | _ => 0 end.
Definition lib_get_deps_paths (env_value : str) : list str :=
  match env_value with [] => [] | _ => split sep_char env_value end.
Definition lib_get_output_path (env_value : str) : str := env_value.
Definition lib_in_output_dir (env_out : str) (p : str) : str := env_out ++ SLASH :: p.

(* ---- the environment handed to the task (start_execution), as the sources build it: Gen.Generated.gen_env_* ----
   An environment is an association list read at its first match; a Python dict has unique keys, nothing below
   depends on it.  [inherited] is os.environ. *)
Definition env := list (str * str).
Fixpoint env_get (k : str) (e : env) : option str :=
  match e with [] => None | (k', v) :: e' => if str_eqb k k' then Some v else env_get k e' end.
Fixpoint env_set (k v : str) (e : env) : env :=
  match e with
  | [] => [(k, v)]
  | (k', v') :: e' => if str_eqb k k' then (k, v) :: e' else (k', v') :: env_set k v e'
  end.
Definition env_pop (k : str) (e : env) : env := filter (fun kv => negb (str_eqb k (fst kv))) e.

Definition env_value (code : N) (out : str) (deps : list str) (name : str) : str :=
  match code with 0 => out | 1 => cond_deps deps | _ => name end.
Definition env_action (slot : N) (e : env) (a : N * str) : env :=
  match fst a with 1 => env_set (snd a) (dec slot) e | _ => env_pop (snd a) e end.

Definition spawn_env (inherited : env) (out : str) (deps : list str) (name : str) (slot : option N) : env :=
  let e1 := fold_left (fun e kv => env_set (fst kv) (env_value (snd kv) out deps name) e) gen_env_overrides inherited in
  match slot with
  | Some sl => fold_left (env_action sl) gen_env_slot_some e1
  | None => fold_left (env_action 0) gen_env_slot_none e1
  end.

(* what start_execution hands to subprocess.Popen besides the environment *)
Record spawn := { sp_shell : bool; sp_executable : str; sp_command : str; sp_cwd : str; sp_new_session : bool }.
Definition spawn_of (run : str) (args : list argval) (opts : list (str * argval)) (root : str) (i : ident) : option spawn :=
  if gen_popen_cwd_is_working_path && gen_run_is_run_args_options_joined_by_space then
    match cmdline run args opts with
    | Some c => Some {| sp_shell := gen_popen_shell; sp_executable := gen_popen_executable; sp_command := c;
                        sp_cwd := working_dir root i; sp_new_session := gen_popen_new_session |}
    | None => None
    end
  else None.
