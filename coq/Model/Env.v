(* Model of the task environment contract: command-line serialisation
   (utils/run_arguments.py, utils/run_options.py, RunTaskExecutable.__init__), the environment
   variables of execution/ops/run_task_executable.py:start_execution, and the support library
   conductor/lib/path.py.  Non-boolean argument values arrive already rendered by Python's str(). *)
From Coq Require Import List NArith Bool.
From Conductor Require Import Lib.Str Gen.Generated Model.Ident.
Import ListNotations.
Local Open Scope N_scope.

Inductive argval := AStr (s : str) | ABool (b : bool).

Definition s_true : str := [116; 114; 117; 101].          (* "true" *)
Definition s_false : str := [102; 97; 108; 115; 101].     (* "false" *)
Definition SPACE : N := 32.
Definition LBRACE : N := 123.
Definition RBRACE : N := 125.
Definition s_key : str := [107; 101; 121].                (* "key" *)
Definition s_value : str := [118; 97; 108; 117; 101].     (* "value" *)

Definition render (a : argval) : str :=
  match a with AStr s => s | ABool b => if b then s_true else s_false end.

(* RunArguments.serialize_cmdline *)
Definition args_cmdline (args : list argval) : str := join [SPACE] (map render args).

(* str.format with the named fields {key} and {value}; None on any other use of braces *)
Fixpoint take_field (s : str) (acc : str) : option (str * str) :=
  match s with
  | [] => None
  | c :: s' => if c =? RBRACE then Some (rev acc, s')
               else if c =? LBRACE then None
               else take_field s' (c :: acc)
  end.

Fixpoint format_kv (fuel : nat) (tmpl key value : str) : option str :=
  match fuel with
  | O => None
  | S f =>
    match tmpl with
    | [] => Some []
    | c :: t =>
      if c =? LBRACE then
        match take_field t [] with
        | Some (name, rest) =>
          let sub := if str_eqb name s_key then Some key else if str_eqb name s_value then Some value else None in
          match sub, format_kv f rest key value with
          | Some x, Some r => Some (x ++ r)
          | _, _ => None
          end
        | None => None
        end
      else if c =? RBRACE then None
      else match format_kv f t key value with Some r => Some (c :: r) | None => None end
    end
  end.

Definition format_option (key : str) (v : argval) : option str :=
  format_kv (S (length cfg_EXP_OPTION_CMD_FORMAT)) cfg_EXP_OPTION_CMD_FORMAT key (render v).

Fixpoint all_some {A} (l : list (option A)) : option (list A) :=
  match l with
  | [] => Some []
  | Some x :: l' => match all_some l' with Some r => Some (x :: r) | None => None end
  | None :: _ => None
  end.

(* RunOptions.serialize_cmdline: options in insertion order *)
Definition opts_cmdline (opts : list (str * argval)) : option str :=
  match all_some (map (fun kv => format_option (fst kv) (snd kv)) opts) with
  | Some l => Some (join [SPACE] l)
  | None => None
  end.

(* RunTaskExecutable.__init__: " ".join([run, args, options]) *)
Definition cmdline (run : str) (args : list argval) (opts : list (str * argval)) : option str :=
  match opts_cmdline opts with
  | Some o => Some (join [SPACE] [run; args_cmdline args; o])
  | None => None
  end.

(* paths are lists of components below the project root *)
Definition path_str (root : str) (comps : list str) : str := root ++ flat_map (fun c => SLASH :: c) comps.

Definition cond_out (root : str) (i : ident) (v : option N) : str := path_str root (out_path i v).
Definition cond_name (i : ident) : str := iname i.
Definition working_dir (root : str) (i : ident) : str := path_str root (ipath i).
(* COND_DEPS: DEPS_ENV_PATH_SEPARATOR.join(map(str, deps_output_paths)) *)
Definition cond_deps (paths : list str) : str := join cfg_DEPS_ENV_PATH_SEPARATOR paths.

(* conductor.lib.path.get_deps_paths (after the repair of D3), get_output_path, in_output_dir *)
Definition sep_char : N := match cfg_DEPS_ENV_PATH_SEPARATOR with [c] => c | _ => 0 end.
Definition lib_get_deps_paths (env_value : str) : list str :=
  match env_value with [] => [] | _ => split sep_char env_value end.
Definition lib_get_output_path (env_value : str) : str := env_value.
Definition lib_in_output_dir (env_out : str) (p : str) : str := env_out ++ SLASH :: p.
