(* Model of Conductor's persistent state and of every step that changes it.

   What is modelled (sources under /repo/src/conductor):
   - execution/version_index.py : the committed rows of cond-out/version_index.sqlite, the open
     (uncommitted) transaction of the running cond process, `generate_new_output_version`,
     `create_or_load` (last timestamp := MAX(timestamp) of the committed rows), insert / commit /
     rollback;
   - task_types/run.py:RunExperiment._create_new_version : the allocation loop that generates
     version ids until the version's output directory does not exist;
   - execution/ops/run_task_executable.py : start_execution (mkdir exist_ok, spawn) and
     finish_execution (return code check, args.json, options.json, insert, commit), one atomic
     step per source statement that touches the disk or the index;
   - the task's child process as a little program of its own (it survives the death of cond);
   - cli/restore.py, cli/gc.py, cli/clean.py, cli/archive.py at the same granularity.

   A version directory is identified by the pair (task, timestamp): by C20_outdir_inj distinct
   pairs are distinct, non-nested paths cond-out/<path>/<name>.task.<timestamp>.

   The transition function [apply] is total: a label that is not enabled leaves the state
   unchanged.  Theorems quantify over ALL label sequences (any interleaving of the steps of the
   operations of a plan, of the task processes, kills, crashes), of which the sequences produced
   by [run_labels] (the sequential executor) are the ones compared with the implementation.
   No proofs in this file. *)
From Coq Require Import List NArith Bool.
From Conductor Require Import Lib.Str.
Import ListNotations.
Open Scope N_scope.

(* ------------------------------------------------------------------ version ids *)

(* VersionIndex.generate_new_output_version: [now] = int(time.time()), [last] = _last_timestamp;
   the result is also the new _last_timestamp *)
Definition gen_version (last now : N) : N :=
  if now =? last then now + 1
  else if now <? last then last + 1
  else now.

(* ------------------------------------------------------------------ rows, directories *)

Definition task := N.
Definition key := (task * N)%type.              (* (task, timestamp) *)
Definition key_eqb (a b : key) : bool := (fst a =? fst b) && (snd a =? snd b).

(* HEAD of an invocation: commit hash (None: git not used / no commit) and the dirty flag *)
Definition head := (option str * bool)%type.

Record row := mk_row { r_task : task; r_ts : N; r_head : head }.
Definition row_key (r : row) : key := (r_task r, r_ts r).

(* Content of one version directory.  [d_owner], [d_head], [d_need], [d_rc] are ghost fields
   (history the proofs speak about); the others are what a listing of the directory shows. *)
Record dir := mk_dir {
  d_owner : N;            (* the execution the directory was created for *)
  d_head : head;          (* HEAD of the invocation that planned that execution *)
  d_need : bool * bool;   (* that task has non-empty args / non-empty options *)
  d_started : list N;     (* executions whose task process wrote anything into the directory *)
  d_done : list N;        (* executions whose task process wrote its last output file *)
  d_rc : option N;        (* exit status of the owner's task process once it is gone
                             (0 = success, 1..255 = exit code, 256+s = killed by signal s) *)
  d_args : bool;          (* args.json present *)
  d_opts : bool;          (* options.json present *)
  d_partial : bool        (* a copytree into the directory is in progress *)
}.

Definition set_started (l : list N) (d : dir) : dir :=
  mk_dir (d_owner d) (d_head d) (d_need d) l (d_done d) (d_rc d) (d_args d) (d_opts d) (d_partial d).
Definition set_done (l : list N) (d : dir) : dir :=
  mk_dir (d_owner d) (d_head d) (d_need d) (d_started d) l (d_rc d) (d_args d) (d_opts d) (d_partial d).
Definition set_rc (c : option N) (d : dir) : dir :=
  mk_dir (d_owner d) (d_head d) (d_need d) (d_started d) (d_done d) c (d_args d) (d_opts d) (d_partial d).
Definition set_args (b : bool) (d : dir) : dir :=
  mk_dir (d_owner d) (d_head d) (d_need d) (d_started d) (d_done d) (d_rc d) b (d_opts d) (d_partial d).
Definition set_opts (b : bool) (d : dir) : dir :=
  mk_dir (d_owner d) (d_head d) (d_need d) (d_started d) (d_done d) (d_rc d) (d_args d) b (d_partial d).
Definition set_partial (b : bool) (d : dir) : dir :=
  mk_dir (d_owner d) (d_head d) (d_need d) (d_started d) (d_done d) (d_rc d) (d_args d) (d_opts d) b.

Definition fs := list (key * dir).

Fixpoint lookup (k : key) (D : fs) : option dir :=
  match D with
  | [] => None
  | (k', d) :: D' => if key_eqb k k' then Some d else lookup k D'
  end.
Fixpoint remove_key (k : key) (D : fs) : fs :=
  match D with
  | [] => []
  | (k', d) :: D' => if key_eqb k k' then remove_key k D' else (k', d) :: remove_key k D'
  end.
Definition put (k : key) (d : dir) (D : fs) : fs := (k, d) :: remove_key k D.
Definition has_dir (D : fs) (k : key) : bool :=
  match lookup k D with Some _ => true | None => false end.

Definition add_n (x : N) (l : list N) : list N := if existsb (N.eqb x) l then l else l ++ [x].

(* ------------------------------------------------------------------ allocation of a version *)

(* RunExperiment._create_new_version (after commit 784d6de):
     while True:
         v = version_index.generate_new_output_version(...)     # reads the clock once
         if not output_path(v).exists(): break
   [clock i] is the i-th reading of int(time.time()) by generate_new_output_version; [tick]
   counts the readings made so far.  The loop is run on fuel; Proofs/StoreProofs.v shows that
   the fuel used below (one more than the number of existing directories) is never exhausted. *)
Fixpoint alloc_loop (fuel : nat) (clock : nat -> N) (exists_ : N -> bool) (last : N) (tick : nat)
  : option (N * nat) :=
  match fuel with
  | O => None
  | S f =>
    let ts := gen_version last (clock tick) in
    if exists_ ts then alloc_loop f clock exists_ ts (S tick) else Some (ts, S tick)
  end.

Definition allocator := (nat -> N) -> fs -> task -> N -> nat -> option (N * nat).

Definition alloc_version : allocator := fun clock D t last tick =>
  alloc_loop (S (length D)) clock (fun ts => has_dir D (t, ts)) last tick.

(* ------------------------------------------------------------------ processes *)

(* the task's own process: a straight-line program, then exit with [k_rc] *)
Inductive cact := CStart | CDone.
Record kid := mk_kid { k_exec : N; k_key : key; k_script : list cact; k_rc : N; k_live : bool }.

(* where one RunTaskExecutable operation of the running plan stands *)
Inductive phase :=
| PPlanned            (* version allocated by the planner *)
| PMade               (* start_execution: output directory made *)
| PRunning            (* start_execution: task process spawned *)
| PExited (rc : N)    (* wait_for_next_op returned the exit status *)
| PArgs (rc : N)      (* finish_execution: args.json step passed (for every exit status: D26) *)
| POpts (rc : N)      (* finish_execution: options.json step passed *)
| PChecked            (* finish_execution: return code was 0 *)
| PInserted           (* insert_output_version executed (uncommitted) *)
| PDone               (* commit_changes executed *)
| PFailed.            (* TaskNonZeroExit raised *)

Record op := mk_op {
  o_task : task; o_ts : N; o_head : head; o_need : bool * bool; o_exec : N; o_phase : phase }.
Definition o_key (o : op) : key := (o_task o, o_ts o).
Definition set_phase (p : phase) (o : op) : op :=
  mk_op (o_task o) (o_ts o) (o_head o) (o_need o) (o_exec o) p.
Definition row_of (o : op) : row := mk_row (o_task o) (o_ts o) (o_head o).
Definition fresh_dir (o : op) : dir :=
  mk_dir (o_exec o) (o_head o) (o_need o) [] [] None false false false.

(* an archive file: the rows of its index, each with the archived directory (None: the member
   is missing from the tarball) *)
Definition archive := list (row * option dir).

Inductive rstage :=
| RInit | RStaged
| RInserted (copied : nat) (copying : bool)
| RFailed | RCommitted.

Inductive proc :=
| PRun (last : N) (hd : head) (ops : list op) (txn : list row)   (* cond run *)
| PRestore (a : archive) (txn : list row) (st : rstage)          (* cond restore *)
| PGc (snapshot : list key)                                      (* cond gc *)
| PRead                                                          (* cond archive / where *)
| PClean.                                                        (* cond clean *)

Record state := mk_state {
  s_rows : list row;       (* committed rows of the index *)
  s_dirs : fs;             (* version directories under cond-out *)
  s_next : N;              (* ghost: number of executions planned so far *)
  s_tick : nat;            (* clock readings made so far *)
  s_kids : list kid;       (* task processes ever spawned (ghost once dead) *)
  s_proc : option proc     (* the running cond process with its volatile state *)
}.

Definition init : state := mk_state [] [] 0 0%nat [] None.

Definition with_dirs (D : fs) (s : state) : state :=
  mk_state (s_rows s) D (s_next s) (s_tick s) (s_kids s) (s_proc s).
Definition with_proc (p : option proc) (s : state) : state :=
  mk_state (s_rows s) (s_dirs s) (s_next s) (s_tick s) (s_kids s) p.
Definition with_kids (K : list kid) (s : state) : state :=
  mk_state (s_rows s) (s_dirs s) (s_next s) (s_tick s) K (s_proc s).
Definition with_rows (R : list row) (s : state) : state :=
  mk_state R (s_dirs s) (s_next s) (s_tick s) (s_kids s) (s_proc s).

(* the cond process ends or dies: its connection closes, the open transaction is lost *)
Definition stop (s : state) : state := with_proc None s.

Definition find_op (e : N) (ops : list op) : option op := find (fun o => o_exec o =? e) ops.
Definition upd_op (e : N) (p : phase) (ops : list op) : list op :=
  map (fun o => if o_exec o =? e then set_phase p o else o) ops.
Definition find_kid (e : N) (K : list kid) : option kid := find (fun k => k_exec k =? e) K.
Definition upd_kid (e : N) (f : kid -> kid) (K : list kid) : list kid :=
  map (fun k => if k_exec k =? e then f k else k) K.
Definition live_at (k : key) (K : list kid) : bool :=
  existsb (fun c => k_live c && key_eqb (k_key c) k) K.
Definition any_live (K : list kid) : bool := existsb k_live K.

Definition max_ts (R : list row) : N := fold_right (fun r m => N.max (r_ts r) m) 0 R.

Fixpoint nodupb (l : list key) : bool :=
  match l with
  | [] => true
  | k :: l' => negb (existsb (key_eqb k) l') && nodupb l'
  end.

(* ------------------------------------------------------------------ commands and labels *)

Inductive cmd := CRun (hd : head) | CRestore (a : archive) | CGc | CArchive | CClean.

Inductive label :=
| LBegin (c : cmd)                    (* Context.from_cwd(): index opened, volatile state set up *)
| LAlloc (t : task) (need : bool * bool)   (* planner, second visit of an experiment *)
| LMkdir (e : N)                      (* start_execution: output_path.mkdir(exist_ok=True) *)
| LSpawn (e : N) (script : list cact) (rc : N)   (* start_execution: Popen *)
| LChild (e : N)                      (* next action of a task process (or its exit) *)
| LKill (e : N) (sig : N)             (* a task process is killed *)
| LReap (e : N)                       (* wait_for_next_op: exit status received *)
| LCheck (e : N)                      (* finish_execution: returncode != 0 -> TaskNonZeroExit *)
| LWriteArgs (e : N)                  (* finish_execution: args.serialize_json *)
| LWriteOpts (e : N)                  (* finish_execution: options.serialize_json *)
| LInsert (e : N)                     (* finish_execution: insert_output_version *)
| LCommit                             (* finish_execution: commit_changes *)
| LRStage                             (* restore: staging directory made, tarball extracted *)
| LRInsert                            (* restore: copy_entries_to (IntegrityError -> failed) *)
| LRCopyBegin                         (* restore: copytree of the next entry starts *)
| LRCopyEnd                           (* restore: copytree of that entry completed *)
| LRCommit                            (* restore: commit_changes *)
| LRFail                              (* restore: any exception -> rollback_changes *)
| LGcRemove (k : key)                 (* gc: rmtree of an unrecorded version directory *)
| LCleanAll                           (* clean: rmtree(cond-out) has removed everything *)
| LCleanIndex                         (* clean: the version index file is unlinked (first, since /repo e97eb39) *)
| LCleanDir (k : key)                 (* clean: rmtree has removed one version directory (in the file system's order) *)
| LEnd                                (* the cond process exits *)
| LCrash.                             (* the cond process is killed *)

(* ------------------------------------------------------------------ steps *)

Definition with_run (s : state) (f : N -> head -> list op -> list row -> state) : state :=
  match s_proc s with
  | Some (PRun last hd ops txn) => f last hd ops txn
  | _ => s
  end.

Definition with_op (s : state) (e : N) (f : N -> head -> list op -> list row -> op -> state) : state :=
  with_run s (fun last hd ops txn =>
    match find_op e ops with
    | Some o => f last hd ops txn o
    | None => s
    end).

Definition do_begin (c : cmd) (s : state) : state :=
  match s_proc s with
  | Some _ => s
  | None =>
    with_proc (Some (match c with
                     | CRun hd => PRun (max_ts (s_rows s)) hd [] []
                     | CRestore a => PRestore a [] RInit
                     | CGc => PGc (map row_key (s_rows s))
                     | CArchive => PRead
                     | CClean => PClean
                     end)) s
  end.

Definition do_alloc (alloc : allocator) (clock : nat -> N) (t : task) (need : bool * bool) (s : state) : state :=
  with_run s (fun last hd ops txn =>
    match alloc clock (s_dirs s) t last (s_tick s) with
    | Some (ts, tick') =>
      mk_state (s_rows s) (s_dirs s) (s_next s + 1) tick' (s_kids s)
        (Some (PRun ts hd (ops ++ [mk_op t ts hd need (s_next s) PPlanned]) txn))
    | None => s
    end).

Definition do_mkdir (e : N) (s : state) : state :=
  with_op s e (fun last hd ops txn o =>
    match o_phase o with
    | PPlanned =>
      let D := s_dirs s in
      let D' := if has_dir D (o_key o) then D else put (o_key o) (fresh_dir o) D in
      with_proc (Some (PRun last hd (upd_op e PMade ops) txn)) (with_dirs D' s)
    | _ => s
    end).

Definition do_spawn (e : N) (script : list cact) (rc : N) (s : state) : state :=
  with_op s e (fun last hd ops txn o =>
    match o_phase o with
    | PMade =>
      with_proc (Some (PRun last hd (upd_op e PRunning ops) txn))
        (with_kids (s_kids s ++ [mk_kid e (o_key o) script rc true]) s)
    | _ => s
    end).

Definition child_write (a : cact) (e : N) (k : key) (D : fs) : fs :=
  match lookup k D with
  | Some d =>
    put k (match a with
           | CStart => set_started (add_n e (d_started d)) d
           | CDone => set_done (add_n e (d_done d)) (set_started (add_n e (d_started d)) d)
           end) D
  | None => D
  end.

Definition mark_rc (k : key) (e : N) (rc : N) (D : fs) : fs :=
  match lookup k D with
  | Some d => if d_owner d =? e then put k (set_rc (Some rc) d) D else D
  | None => D
  end.

Definition kid_exit (c : kid) (rc : N) (s : state) : state :=
  with_kids (upd_kid (k_exec c) (fun c' => mk_kid (k_exec c') (k_key c') (k_script c') rc false) (s_kids s))
    (with_dirs (mark_rc (k_key c) (k_exec c) rc (s_dirs s)) s).

Definition do_child (e : N) (s : state) : state :=
  match find_kid e (s_kids s) with
  | Some c =>
    if k_live c then
      match k_script c with
      | a :: rest =>
        with_kids (upd_kid e (fun c' => mk_kid (k_exec c') (k_key c') rest (k_rc c') (k_live c')) (s_kids s))
          (with_dirs (child_write a e (k_key c) (s_dirs s)) s)
      | [] => kid_exit c (k_rc c) s
      end
    else s
  | None => s
  end.

Definition do_kill (e : N) (sig : N) (s : state) : state :=
  match find_kid e (s_kids s) with
  | Some c => if k_live c then kid_exit c (256 + sig) s else s
  | None => s
  end.

Definition do_reap (e : N) (s : state) : state :=
  with_op s e (fun last hd ops txn o =>
    match o_phase o, find_kid e (s_kids s) with
    | PRunning, Some c =>
      if k_live c then s
      else with_proc (Some (PRun last hd (upd_op e (PExited (k_rc c)) ops) txn)) s
    | _, _ => s
    end).

Definition do_check (e : N) (s : state) : state :=
  with_op s e (fun last hd ops txn o =>
    match o_phase o with
    | POpts rc =>
      with_proc (Some (PRun last hd (upd_op e (if rc =? 0 then PChecked else PFailed) ops) txn)) s
    | _ => s
    end).

Definition touch (k : key) (f : dir -> dir) (D : fs) : fs :=
  match lookup k D with Some d => put k (f d) D | None => D end.

Definition do_write_args (e : N) (s : state) : state :=
  with_op s e (fun last hd ops txn o =>
    match o_phase o with
    | PExited rc =>
      let D' := if fst (o_need o) then touch (o_key o) (set_args true) (s_dirs s) else s_dirs s in
      with_proc (Some (PRun last hd (upd_op e (PArgs rc) ops) txn)) (with_dirs D' s)
    | _ => s
    end).

Definition do_write_opts (e : N) (s : state) : state :=
  with_op s e (fun last hd ops txn o =>
    match o_phase o with
    | PArgs rc =>
      let D' := if snd (o_need o) then touch (o_key o) (set_opts true) (s_dirs s) else s_dirs s in
      with_proc (Some (PRun last hd (upd_op e (POpts rc) ops) txn)) (with_dirs D' s)
    | _ => s
    end).

(* PRIMARY KEY (task_identifier, timestamp): a duplicate raises sqlite3.IntegrityError, which
   is not a ConductorError -- the process dies with a traceback *)
Definition do_insert (e : N) (s : state) : state :=
  with_op s e (fun last hd ops txn o =>
    match o_phase o with
    | PChecked =>
      if existsb (key_eqb (o_key o)) (map row_key (s_rows s ++ txn)) then stop s
      else with_proc (Some (PRun last hd (upd_op e PInserted ops) (txn ++ [row_of o]))) s
    | _ => s
    end).

Definition commit_phase (o : op) : op :=
  match o_phase o with PInserted => set_phase PDone o | _ => o end.

Definition do_commit (s : state) : state :=
  with_run s (fun last hd ops txn =>
    with_proc (Some (PRun last hd (map commit_phase ops) [])) (with_rows (s_rows s ++ txn) s)).

Definition with_restore (s : state) (f : archive -> list row -> rstage -> state) : state :=
  match s_proc s with
  | Some (PRestore a txn st) => f a txn st
  | _ => s
  end.

Definition do_rstage (s : state) : state :=
  with_restore s (fun a txn st =>
    match st with RInit => with_proc (Some (PRestore a txn RStaged)) s | _ => s end).

Definition do_rinsert (s : state) : state :=
  with_restore s (fun a txn st =>
    match st with
    | RStaged =>
      if nodupb (map row_key (map fst a ++ s_rows s))
      then with_proc (Some (PRestore a (map fst a) (RInserted 0 false))) s
      else with_proc (Some (PRestore a [] RFailed)) s
    | _ => s
    end).

Definition do_rcopy_begin (s : state) : state :=
  with_restore s (fun a txn st =>
    match st with
    | RInserted c false =>
      match nth_error a c with
      | Some (r, Some d) =>
        if has_dir (s_dirs s) (row_key r)
        then with_proc (Some (PRestore a [] RFailed)) s          (* copytree: FileExistsError *)
        else with_proc (Some (PRestore a txn (RInserted c true)))
               (with_dirs (put (row_key r) (set_partial true d) (s_dirs s)) s)
      | Some (r, None) => with_proc (Some (PRestore a [] RFailed)) s   (* ArchiveFileInvalid *)
      | None => s
      end
    | _ => s
    end).

Definition do_rcopy_end (s : state) : state :=
  with_restore s (fun a txn st =>
    match st with
    | RInserted c true =>
      match nth_error a c with
      | Some (r, Some d) =>
        with_proc (Some (PRestore a txn (RInserted (S c) false)))
          (with_dirs (put (row_key r) d (s_dirs s)) s)
      | _ => s
      end
    | _ => s
    end).

Definition do_rcommit (s : state) : state :=
  with_restore s (fun a txn st =>
    match st with
    | RInserted c false =>
      if Nat.eqb c (length a)
      then with_proc (Some (PRestore a [] RCommitted)) (with_rows (s_rows s ++ txn) s)
      else s
    | _ => s
    end).

Definition do_rfail (s : state) : state :=
  with_restore s (fun a txn st =>
    match st with
    | RCommitted => s
    | _ => with_proc (Some (PRestore a [] RFailed)) s
    end).

(* gc deletes a version directory that is not in the index as read at the start of the
   command.  Assumption (stated in the manifest): no task process is still writing there. *)
Definition do_gc_remove (k : key) (s : state) : state :=
  match s_proc s with
  | Some (PGc snap) =>
    if existsb (key_eqb k) snap || live_at k (s_kids s) then s
    else with_dirs (remove_key k (s_dirs s)) s
  | _ => s
  end.

Definition do_clean_all (s : state) : state :=
  match s_proc s with
  | Some PClean => if any_live (s_kids s) then s else with_rows [] (with_dirs [] s)
  | _ => s
  end.

(* since /repo e97eb39 `cond clean` unlinks version_index.sqlite before shutil.rmtree(cond-out): the
   directories go one by one, in whatever order the file system lists them, AFTER the rows are gone *)
Definition do_clean_index (s : state) : state :=
  match s_proc s with
  | Some PClean => if any_live (s_kids s) then s else with_rows [] s
  | _ => s
  end.

Definition do_clean_dir (k : key) (s : state) : state :=
  match s_proc s with
  | Some PClean =>
    if any_live (s_kids s) then s
    else match s_rows s with
         | [] => with_dirs (remove_key k (s_dirs s)) s
         | _ => s
         end
  | _ => s
  end.

Definition apply_gen (alloc : allocator) (clock : nat -> N) (l : label) (s : state) : state :=
  match l with
  | LBegin c => do_begin c s
  | LAlloc t need => do_alloc alloc clock t need s
  | LMkdir e => do_mkdir e s
  | LSpawn e script rc => do_spawn e script rc s
  | LChild e => do_child e s
  | LKill e sig => do_kill e sig s
  | LReap e => do_reap e s
  | LCheck e => do_check e s
  | LWriteArgs e => do_write_args e s
  | LWriteOpts e => do_write_opts e s
  | LInsert e => do_insert e s
  | LCommit => do_commit s
  | LRStage => do_rstage s
  | LRInsert => do_rinsert s
  | LRCopyBegin => do_rcopy_begin s
  | LRCopyEnd => do_rcopy_end s
  | LRCommit => do_rcommit s
  | LRFail => do_rfail s
  | LGcRemove k => do_gc_remove k s
  | LCleanAll => do_clean_all s
  | LCleanIndex => do_clean_index s
  | LCleanDir k => do_clean_dir k s
  | LEnd => stop s
  | LCrash => stop s
  end.

Definition apply := apply_gen alloc_version.

Definition run_gen (alloc : allocator) (clock : nat -> N) (ls : list label) (s : state) : state :=
  fold_left (fun s l => apply_gen alloc clock l s) ls s.
Definition run := run_gen alloc_version.

(* ------------------------------------------------------------------ drivers (correspondence) *)

(* one planned experiment of a sequential `cond run`: does it start (or is it skipped because a
   dependency failed), what its process does, how it ends *)
Record spec := mk_spec {
  sp_task : task; sp_need : bool * bool; sp_runs : bool;
  sp_script : list cact; sp_rc : N; sp_sig : option N }.

Definition op_labels (e : N) (sp : spec) : list label :=
  if sp_runs sp then
    [LMkdir e; LSpawn e (sp_script sp) (sp_rc sp)]
    ++ match sp_sig sp with
       | None => repeat (LChild e) (S (length (sp_script sp))) ++ [LReap e; LWriteArgs e; LWriteOpts e; LCheck e]
                 ++ (if sp_rc sp =? 0 then [LInsert e; LCommit] else [])
       (* the task is killed by a signal.  15 = SIGTERM sent by Conductor's terminate_processes when the
          run is aborted: finish_execution is never called.  Any other signal = the task died on its
          own: finish_execution runs (records args / options, then raises for the non-zero status). *)
       | Some sig => repeat (LChild e) (length (sp_script sp)) ++ [LKill e sig; LReap e]
                     ++ (if sig =? 15 then [] else [LWriteArgs e; LWriteOpts e; LCheck e])
       end
  else [].

Fixpoint ops_labels (e : N) (specs : list spec) : list label :=
  match specs with
  | [] => []
  | sp :: rest => op_labels e sp ++ ops_labels (e + 1) rest
  end.

(* `cond run` with one slot: plan (allocations in plan order), then the operations one by one *)
Definition run_labels (base : N) (hd : head) (specs : list spec) : list label :=
  LBegin (CRun hd) :: map (fun sp => LAlloc (sp_task sp) (sp_need sp)) specs
  ++ ops_labels base specs ++ [LEnd].

Definition restore_labels (a : archive) : list label :=
  [LBegin (CRestore a); LRStage; LRInsert]
  ++ concat (repeat [LRCopyBegin; LRCopyEnd] (length a)) ++ [LRCommit; LEnd].

Definition unrecorded (s : state) : list key :=
  map fst (filter (fun kd => negb (existsb (key_eqb (fst kd)) (map row_key (s_rows s)))) (s_dirs s)).

Definition gc_labels (s : state) : list label :=
  LBegin CGc :: map LGcRemove (unrecorded s) ++ [LEnd].

Inductive command :=
| KRun (hd : head) (specs : list spec)
| KRestore (a : archive)
| KGc
| KArchive
| KClean.

Definition command_labels (s : state) (c : command) : list label :=
  match c with
  | KRun hd specs => run_labels (s_next s) hd specs
  | KRestore a => restore_labels a
  | KGc => gc_labels s
  | KArchive => [LBegin CArchive; LEnd]
  | KClean => [LBegin CClean; LCleanIndex] ++ map (fun kd => LCleanDir (fst kd)) (s_dirs s) ++ [LCleanAll; LEnd]
  end.

(* every task process still alive runs to its end *)
Definition settle_gen (alloc : allocator) (clock : nat -> N) (s : state) : state :=
  fold_left (fun s c =>
    if k_live c then run_gen alloc clock (repeat (LChild (k_exec c)) (S (length (k_script c)))) s else s)
    (s_kids s) s.

Definition settle := settle_gen alloc_version.

(* a history of whole commands, each followed by the end of the task processes it left behind;
   the observation after each command *)
Fixpoint play (clock : nat -> N) (obs : state -> list N) (cs : list command) (s : state) : list (list N) :=
  match cs with
  | [] => []
  | c :: rest =>
    let s' := settle clock (run clock (command_labels s c) s) in
    obs s' :: play clock obs rest s'
  end.
Fixpoint play_state (clock : nat -> N) (cs : list command) (s : state) : state :=
  match cs with
  | [] => s
  | c :: rest => play_state clock rest (settle clock (run clock (command_labels s c) s))
  end.

(* the states a kill can leave: the cond process dies after the first n labels of a command,
   the task processes it had started run to their end *)
Definition crash_states (clock : nat -> N) (obs : state -> list N) (ls : list label) (s : state) : list (list N) :=
  map (fun n => obs (settle clock (stop (run clock (firstn n ls) s)))) (seq 0 (S (length ls))).

(* ------------------------------------------------------------------ observation *)

Definition key_leb (a b : key) : bool :=
  (fst a <? fst b) || ((fst a =? fst b) && (snd a <=? snd b)).

Fixpoint insert_by {A} (f : A -> key) (x : A) (l : list A) : list A :=
  match l with
  | [] => [x]
  | y :: l' => if key_leb (f x) (f y) then x :: l else y :: insert_by f x l'
  end.
Definition sort_by {A} (f : A -> key) (l : list A) : list A := fold_right (insert_by f) [] l.

Definition ser_head (h : head) : list N :=
  match fst h with None => [0] | Some c => 1 :: N.of_nat (length c) :: c end
  ++ [if snd h then 1 else 0].
Definition ser_row (r : row) : list N := [r_task r; r_ts r] ++ ser_head (r_head r).
Definition ser_dir (kd : key * dir) : list N :=
  [fst (fst kd); snd (fst kd); N.of_nat (length (d_started (snd kd))); N.of_nat (length (d_done (snd kd)));
   if d_args (snd kd) then 1 else 0; if d_opts (snd kd) then 1 else 0].
Definition ser_dir_key (kd : key * dir) : list N := [fst (fst kd); snd (fst kd)].

(* what a fresh sqlite connection and a listing of cond-out show *)
Definition observe (s : state) : list N :=
  N.of_nat (length (s_rows s)) :: flat_map ser_row (sort_by row_key (s_rows s))
  ++ N.of_nat (length (s_dirs s)) :: flat_map ser_dir (sort_by fst (s_dirs s)).
(* the same without the content of the directories (used while a copytree may be cut) *)
Definition observe_keys (s : state) : list N :=
  N.of_nat (length (s_rows s)) :: flat_map ser_row (sort_by row_key (s_rows s))
  ++ N.of_nat (length (s_dirs s)) :: flat_map ser_dir_key (sort_by fst (s_dirs s)).
