(* Model of the output recording of run_experiment executions:
     utils/tee.py:_tee_pipe_run, utils/output_handler.py (RecordType, popen_arg, maybe_tee, finish),
     the choice of the record type in execution/ops/run_task_executable.py:start_execution,
     the slot the executor passes (execution/executor.py:_launch_ops_if_able), and the writing of
     args.json / options.json / the index row in run_task_executable.py:finish_execution.

   What the kernel and CPython do (how a pipe delivers the child's bytes to read1, that a file
   opened "wb" and handed to the child receives what the child writes, json.dump) is NOT modelled:
   the chunking of read1 is an arbitrary input of the model. *)
From Coq Require Import List NArith Bool.
Import ListNotations.
Open Scope N_scope.

Definition bytes := list N.

(* ---------- utils/tee.py:_tee_pipe_run ----------
   [reads] = what successive pipe.read1(4096) calls return.  read1 returns b"" only at end of
   file; when the list is exhausted the next read is b"" as well. *)
Fixpoint tee_loop (reads : list bytes) (file stream : bytes) : bytes * bytes :=
  match reads with
  | [] => (file, stream)                                  (* data == b"": break *)
  | data :: rest =>
    match data with
    | [] => (file, stream)                                (* if len(data) == 0: break *)
    | _ :: _ => tee_loop rest (file ++ data) (stream ++ data)
                                                          (* file.write(data); stream.buffer.write(data); stream.flush() *)
    end
  end.

(* The same loop when Conductor's own stream stops accepting data: it takes the first [ok] writes
   and raises OSError / ValueError on the next one (a reader that went away, a full device).
   From then on `stream_ok` is False: nothing more is forwarded, but every chunk still goes to the
   log and the pipe is still drained to its end (D25; before the repair the exception ended the
   copier thread). *)
Fixpoint tee_loop_f (ok : nat) (reads : list bytes) (file stream : bytes) : bytes * bytes :=
  match reads with
  | [] => (file, stream)
  | data :: rest =>
    match data with
    | [] => (file, stream)
    | _ :: _ =>
      match ok with
      | O => tee_loop_f O rest (file ++ data) stream                 (* the write raised, or stream_ok is False *)
      | S k => tee_loop_f k rest (file ++ data) (stream ++ data)
      end
    end
  end.

(* the log file is opened (truncated) by OutputHandler.popen_arg before the task starts and handed to the copier: the log starts empty *)
Definition tee_pipe_run (reads : list bytes) (stream : bytes) : bytes * bytes := tee_loop reads [] stream.

(* ---------- the same loop as a thread that is scheduled one iteration at a time ---------- *)
Record tee_thread := { reads_left : list bytes; tfile : bytes; tstream : bytes; tdone : bool }.

Definition tee_start (reads : list bytes) (stream : bytes) : tee_thread :=
  {| reads_left := reads; tfile := []; tstream := stream; tdone := false |}.

Definition tee_step (t : tee_thread) : tee_thread :=
  if tdone t then t
  else match reads_left t with
       | [] => {| reads_left := []; tfile := tfile t; tstream := tstream t; tdone := true |}
       | [] :: rest => {| reads_left := rest; tfile := tfile t; tstream := tstream t; tdone := true |}
       | data :: rest =>
         {| reads_left := rest; tfile := tfile t ++ data; tstream := tstream t ++ data; tdone := false |}
       end.

(* ThreadPoolExecutor(max_workers=2): the stdout and the stderr copier of the one teed task run
   concurrently; [sched] says whose iteration comes next (true = stdout's) *)
Fixpoint run_sched (sched : list bool) (a b : tee_thread) : tee_thread * tee_thread :=
  match sched with
  | [] => (a, b)
  | true :: s => run_sched s (tee_step a) b
  | false :: s => run_sched s a (tee_step b)
  end.

(* ---------- utils/output_handler.py ---------- *)
Inductive record_type := NotRecorded | Teed | OnlyLogged.
Inductive popen_arg := Inherit | Pipe | LogFile.

(* OutputHandler.popen_arg *)
Definition popen_arg_of (rt : record_type) : popen_arg :=
  match rt with NotRecorded => Inherit | Teed => Pipe | OnlyLogged => LogFile end.

(* start_execution: record_type from record_output and the slot *)
Definition record_type_of (record_output : bool) (slot : option N) : record_type :=
  if record_output then match slot with None => Teed | Some _ => OnlyLogged end
  else NotRecorded.

(* executor: slot = self._available_slots[-1] if self._running_parallel and self._slots > 1 else None
   (_running_parallel was just set to next_op.parallelizable) *)
Definition slot_for (parallelizable : bool) (slots : N) (available : list N) : option N :=
  if parallelizable && (1 <? slots) then Some (last available 0) else None.

(* one descriptor of one execution: the log file in the version directory (None = no such file)
   and Conductor's own stream.  [writes] = the chunks the child wrote, in order (for Teed: as
   read1 returned them). *)
Record channel := { logfile : option bytes; own : bytes }.

Definition deliver (rt : record_type) (writes : list bytes) (c : channel) : channel :=
  match rt with
  | NotRecorded => {| logfile := logfile c; own := own c ++ concat writes |}   (* the child inherited the descriptor *)
  | OnlyLogged => {| logfile := Some (concat writes); own := own c |}          (* open(path, "wb") given to the child *)
  | Teed => let (f, s) := tee_pipe_run writes (own c) in {| logfile := Some f; own := s |}
  end.

(* ---------- run_task_executable.py:finish_execution ---------- *)
Inductive effect := CloseLog | WriteArgsJson | WriteOptionsJson | RaiseNonZeroExit | InsertRow | CommitIndex.

(* in program order: first both logs are finished -- OutputHandler.finish() joins the copier thread, i.e. waits until the
   pipe has reached end of file, and closes the file: from then on Conductor writes nothing more into the directory
   except the two record files --; args.json / options.json are written for every execution (D26: they used to
   come after the exit-status test); a non-zero status then raises TaskNonZeroExit, otherwise the
   version's row is inserted and committed *)
Definition finish_execution (returncode : N) (serialize_args_options : bool)
           (args_empty options_empty : bool) (has_version : bool) : list effect :=
  [CloseLog; CloseLog] ++
  (if serialize_args_options
   then (if negb args_empty then [WriteArgsJson] else [])
        ++ (if negb options_empty then [WriteOptionsJson] else [])
   else [])
  ++ (if negb (returncode =? 0) then [RaiseNonZeroExit]
      else if has_version then [InsertRow; CommitIndex] else []).

(* which of args.json / options.json exist after a run_experiment execution *)
Definition record_rule {A B} (args : list A) (options : list B) (returncode : N) : bool * bool :=
  let evs := finish_execution returncode true
               (match args with [] => true | _ => false end)
               (match options with [] => true | _ => false end) true in
  (existsb (fun e => match e with WriteArgsJson => true | _ => false end) evs,
   existsb (fun e => match e with WriteOptionsJson => true | _ => false end) evs).

(* ---------- the copier loop as an interpreter of ONE iteration's effects ----------
   (the per-iteration decision is what the translator reads off utils/tee.py: Gen.Generated.gen_tee_iteration;
   Proofs/GenTieTee.v shows it is [tee_iteration], Proofs/TeeProofs.v that interpreting it is [tee_loop_f]) *)
Inductive tee_eff := TBreak | TFileWrite | TStreamWrite | TStreamOff.

Definition tee_iteration (data_empty stream_ok write_ok : bool) : list tee_eff :=
  if data_empty then [TBreak]
  else TFileWrite :: (if stream_ok then (if write_ok then [TStreamWrite] else [TStreamOff]) else []).

Record tee_st := { ts_file : bytes; ts_stream : bytes; ts_ok : bool; ts_broke : bool }.

Definition tee_apply (data : bytes) (s : tee_st) (e : tee_eff) : tee_st :=
  match e with
  | TBreak => {| ts_file := ts_file s; ts_stream := ts_stream s; ts_ok := ts_ok s; ts_broke := true |}
  | TFileWrite => {| ts_file := ts_file s ++ data; ts_stream := ts_stream s; ts_ok := ts_ok s; ts_broke := ts_broke s |}
  | TStreamWrite => {| ts_file := ts_file s; ts_stream := ts_stream s ++ data; ts_ok := ts_ok s; ts_broke := ts_broke s |}
  | TStreamOff => {| ts_file := ts_file s; ts_stream := ts_stream s; ts_ok := false; ts_broke := ts_broke s |}
  end.

Definition is_nil (d : bytes) : bool := match d with [] => true | _ => false end.

(* [ok]: how many more writes to Conductor's own stream succeed *)
Fixpoint tee_loop_it (ok : nat) (reads : list bytes) (s : tee_st) : bytes * bytes :=
  match reads with
  | [] => (ts_file s, ts_stream s)
  | data :: rest =>
    let s' := fold_left (tee_apply data) (tee_iteration (is_nil data) (ts_ok s) (Nat.ltb 0 ok)) s in
    if ts_broke s' then (ts_file s', ts_stream s')
    else tee_loop_it (if ts_ok s then Nat.pred ok else ok) rest s'
  end.
