(* Model of Executor.run_plan (conductor/execution/executor.py): two FIFO ready queues, the LIFO
   of synchronous operations, the process table in launch order, the free-slot stack, the mode
   flag, waiting_on counters, operation states, and the event trace.  All nondeterminism is in
   the oracle: which launches fail, which in-flight process exits next, with which return code. *)
From Coq Require Import List Arith Bool NArith.
From Conductor Require Import Model.Loader Model.Planner.
Import ListNotations.

Inductive ostate := QUEUED | SKIPPED | SUCCEEDED | FAILED.

Definition ostate_eqb (a b : ostate) : bool :=
  match a, b with
  | QUEUED, QUEUED | SKIPPED, SKIPPED | SUCCEEDED, SUCCEEDED | FAILED, FAILED => true
  | _, _ => false
  end.

Inductive event :=
| ECached (task : nat)
| EStart (op : nat) (slot : option nat)
| ESkip (op : nat)
| ELaunchFail (op : nat)
| EFinish (op : nat) (rc : N)
| EKill (ops : list nat)               (* terminate_processes: in-flight processes, launch order *)
| EDone                                (* "Done!" *)
| EFailed (failed skipped : list nat)  (* report + re-raise of the first failure *)
| EAssertFail.                         (* the `assert len(failed_task_ops) > 0` would fire *)

Record oracle := {
  launch_fails : nat -> bool;          (* start_execution of this op raises a ConductorError (since D34 also what subprocess / mkdir
                                          raise when the command or the output path cannot be used: TaskFailed) *)
  rc_of : nat -> N;                    (* return code of this op's process when it exits *)
  pick : nat -> nat                    (* k-th wait: index (mod #processes) of the one that exits *)
}.

Record xstate := {
  readyS : list nat;                   (* _sequential_ops, head = front *)
  readyP : list nat;                   (* _parallel_ops, head = front *)
  syncs : list nat;                    (* _sync_ops, head = top *)
  procs : list (nat * option nat);     (* (op, slot) in launch order *)
  avail : list nat;                    (* _available_slots, head = top (= Python's [-1]) *)
  runpar : bool;                       (* _running_parallel *)
  completed : list nat;                (* _completed_ops, oldest first *)
  ost : nat -> ostate;
  waiting : nat -> nat;
  dequeued : nat;                      (* _num_tasks_dequeued *)
  waits : nat;                         (* number of SigchldHelper waits so far *)
  trace : list event;                  (* newest first *)
  stopped : bool                       (* left the loop because of stop_on_first_error *)
}.

Definition upd {A} (f : nat -> A) (k : nat) (v : A) : nat -> A := fun x => if Nat.eqb x k then v else f x.

Section Exec.
  Variable p : plan.
  Variable jobs : nat.
  Variable stop : bool.
  Variable orc : oracle.

  Definition opi (o : nat) : opinfo :=
    nth o (p_ops p) {| op_task := 0; op_exe_deps := []; op_par := false; op_sync := false |}.
  Definition is_par (o : nat) : bool := op_par (opi o).

  Definition enqueue (s : xstate) (o : nat) : xstate :=
    if is_par o then
      {| readyS := readyS s; readyP := readyP s ++ [o]; syncs := syncs s; procs := procs s; avail := avail s;
         runpar := runpar s; completed := completed s; ost := ost s; waiting := waiting s;
         dequeued := dequeued s; waits := waits s; trace := trace s; stopped := stopped s |}
    else
      {| readyS := readyS s ++ [o]; readyP := readyP s; syncs := syncs s; procs := procs s; avail := avail s;
         runpar := runpar s; completed := completed s; ost := ost s; waiting := waiting s;
         dequeued := dequeued s; waits := waits s; trace := trace s; stopped := stopped s |}.

  Definition inflight (s : xstate) : nat := length (procs s) + length (syncs s).
  Definition has_ops (s : xstate) : bool := negb (match readyS s, readyP s with [], [] => true | _, _ => false end).
  Definition has_par (s : xstate) : bool := match readyP s with [] => false | _ => true end.

  Definition gate_open (s : xstate) : bool :=
    (has_ops s && Nat.eqb (inflight s) 0)
    || (runpar s && Nat.ltb (inflight s) jobs && has_par s).

  (* _process_finished_op: append to _completed_ops, decrement waiting_on of every dependent (once per
     edge), then enqueue, in deps_of order, each dependent whose counter is 0.  The two Python loops
     are written in closed form (a subtraction and two filters); the order inside each queue is the
     loop's order. *)
  Definition process_finished (s : xstate) (o : nat) : xstate :=
    let ds := deps_of p o in
    let w' := fun x => waiting s x - count x ds in
    let newly := filter (fun d => Nat.eqb (w' d) 0) ds in
    {| readyS := readyS s ++ filter (fun d => negb (is_par d)) newly;
       readyP := readyP s ++ filter is_par newly;
       syncs := syncs s; procs := procs s; avail := avail s;
       runpar := runpar s; completed := completed s ++ [o]; ost := ost s; waiting := w';
       dequeued := dequeued s; waits := waits s; trace := trace s; stopped := stopped s |}.

  Definition succeeded (s : xstate) (o : nat) : bool := ostate_eqb (ost s o) SUCCEEDED.

  (* ---- small state transformers (each is one group of assignments of the Python code) ---- *)
  (* dequeue_next + `_running_parallel = next_op.parallelizable` + `_num_tasks_dequeued += 1` *)
  Definition take (s : xstate) (rS rP : list nat) (rp : bool) : xstate :=
    {| readyS := rS; readyP := rP; syncs := syncs s; procs := procs s; avail := avail s;
       runpar := rp; completed := completed s; ost := ost s; waiting := waiting s;
       dequeued := S (dequeued s); waits := waits s; trace := trace s; stopped := stopped s |}.
  (* set_state + the observable event *)
  Definition mark (s : xstate) (o : nat) (st : ostate) (ev : event) : xstate :=
    {| readyS := readyS s; readyP := readyP s; syncs := syncs s; procs := procs s; avail := avail s;
       runpar := runpar s; completed := completed s; ost := upd (ost s) o st; waiting := waiting s;
       dequeued := dequeued s; waits := waits s; trace := ev :: trace s; stopped := stopped s |}.
  Definition set_stopped (s : xstate) : xstate :=
    {| readyS := readyS s; readyP := readyP s; syncs := syncs s; procs := procs s; avail := avail s;
       runpar := runpar s; completed := completed s; ost := ost s; waiting := waiting s;
       dequeued := dequeued s; waits := waits s; trace := trace s; stopped := true |}.
  (* _inflight_ops.add_op for a synchronous / an asynchronous handle (+ `_available_slots.pop()`) *)
  Definition start_sync (s : xstate) (o : nat) (slot : option nat) : xstate :=
    {| readyS := readyS s; readyP := readyP s; syncs := o :: syncs s; procs := procs s; avail := avail s;
       runpar := runpar s; completed := completed s; ost := ost s; waiting := waiting s;
       dequeued := dequeued s; waits := waits s; trace := EStart o slot :: trace s; stopped := stopped s |}.
  Definition start_proc (s : xstate) (o : nat) (slot : option nat) : xstate :=
    {| readyS := readyS s; readyP := readyP s; syncs := syncs s; procs := procs s ++ [(o, slot)];
       avail := match slot with Some _ => tl (avail s) | None => avail s end;
       runpar := runpar s; completed := completed s; ost := ost s; waiting := waiting s;
       dequeued := dequeued s; waits := waits s; trace := EStart o slot :: trace s; stopped := stopped s |}.
  (* wait_for_next_op: pop the synchronous operation / remove the k-th process, return its slot *)
  Definition pop_sync (s : xstate) (sy : list nat) : xstate :=
    {| readyS := readyS s; readyP := readyP s; syncs := sy; procs := procs s; avail := avail s;
       runpar := runpar s; completed := completed s; ost := ost s; waiting := waiting s;
       dequeued := dequeued s; waits := waits s; trace := trace s; stopped := stopped s |}.

  Fixpoint remove_nth {A} (n : nat) (l : list A) : list A :=
    match l, n with
    | [], _ => []
    | _ :: l', O => l'
    | x :: l', S k => x :: remove_nth k l'
    end.

  Definition reap (s : xstate) (k : nat) (slot : option nat) : xstate :=
    {| readyS := readyS s; readyP := readyP s; syncs := syncs s; procs := remove_nth k (procs s);
       avail := match slot with Some sl => sl :: avail s | None => avail s end;
       runpar := runpar s; completed := completed s; ost := ost s; waiting := waiting s;
       dequeued := dequeued s; waits := S (waits s); trace := trace s; stopped := stopped s |}.

  Definition dequeue (s : xstate) : nat * list nat * list nat :=
    match readyP s with
    | o :: rP => (o, readyS s, rP)
    | [] => match readyS s with o :: rS => (o, rS, []) | [] => (0, [], []) end
    end.

  (* one iteration of the loop inside _launch_ops_if_able (gate already known to be open) *)
  Definition launch_one (s : xstate) : xstate :=
    let '(o, rS, rP) := dequeue s in
    let s0 := take s rS rP (is_par o) in
    if negb (forallb (succeeded s) (exe_deps p o)) then
      process_finished (mark s0 o SKIPPED (ESkip o)) o
    else
      let slot := if is_par o && Nat.ltb 1 jobs then hd_error (avail s) else None in
      if launch_fails orc o then
        let s1 := process_finished (mark s0 o FAILED (ELaunchFail o)) o in
        if stop then set_stopped s1 else s1
      else if op_sync (opi o) then start_sync s0 o slot
      else start_proc s0 o slot.

  (* _wait_for_next_inflight_op (precondition: something is in flight) *)
  Definition wait_one (s : xstate) : xstate :=
    match syncs s with
    | o :: sy =>
      (* a synchronous operation: finish_execution does nothing and cannot fail; its slot is None *)
      process_finished (mark (pop_sync s sy) o SUCCEEDED (EFinish o 0)) o
    | [] =>
      let k := Nat.modulo (pick orc (waits s)) (length (procs s)) in
      let '(o, slot) := nth k (procs s) (0, None) in
      let rc := rc_of orc o in
      let ok := N.eqb rc 0 in
      let s1 := process_finished (mark (reap s k slot) o (if ok then SUCCEEDED else FAILED) (EFinish o rc)) o in
      if negb ok && stop then set_stopped s1 else s1
    end.

  (* the main loop, flattened: one launch iteration if the gate is open, else one wait if
     anything is in flight, else the loop ends (Proofs/ExecNested.v proves that this is the same
     loop as the nested Python one) *)
  Definition xstep (s : xstate) : option xstate :=
    if stopped s then None
    else if gate_open s then Some (launch_one s)
    else if Nat.eqb (inflight s) 0 then None
    else Some (wait_one s).

  Fixpoint xiter (fuel : nat) (s : xstate) : option xstate :=
    match fuel with
    | O => None
    | S f => match xstep s with None => Some s | Some s' => xiter f s' end
    end.

  Definition xinit : xstate :=
    let s0 := {| readyS := []; readyP := []; syncs := []; procs := []; avail := seq 0 jobs;
                 runpar := false; completed := []; ost := fun _ => QUEUED;
                 waiting := fun o => length (exe_deps p o);
                 dequeued := 0; waits := 0; trace := rev (map ECached (p_cached p)); stopped := false |} in
    fold_left enqueue (p_initial p) s0.

  (* _report_execution_results (after terminate_processes) *)
  Definition report (root_task : nat) (s : xstate) : list event :=
    let kill := EKill (map fst (procs s)) in
    let all_ok := forallb (succeeded s) (completed s) in
    let main_exec := existsb (fun o => Nat.eqb (op_task (opi o)) root_task) (completed s) in
    let main_cached := match completed s with [] => mem root_task (p_cached p) | _ => false end in
    if all_ok && (main_exec || main_cached) then [EDone; kill]
    else
      let failed := filter (fun o => ostate_eqb (ost s o) FAILED) (completed s) in
      let skipped := filter (fun o => ostate_eqb (ost s o) SKIPPED) (completed s) in
      match failed with
      | [] => [EAssertFail; kill]
      | _ => [EFailed failed skipped; kill]
      end.

  (* whole run: events oldest first *)
  Definition run_plan (fuel : nat) (root_task : nat) : option (list event) :=
    match xiter fuel xinit with
    | None => None
    | Some s => Some (rev (report root_task s ++ trace s))
    end.
End Exec.
