(* Model of what the `except ConductorAbort` clauses of Executor.run_plan,
   Executor._launch_ops_if_able and RunTaskExecutable.start_execution do, as a function of the
   point at which the signal handler raised (after the repairs of D7):
     - between two statements of the main loop, or while waiting:   state s of Model/Exec.v;
     - inside the launch of operation o, at one of the points below. *)
From Coq Require Import List Arith Bool.
From Conductor Require Import Model.Loader Model.Planner Model.Exec.
Import ListNotations.

Inductive launch_point :=
| BeforeSpawn          (* in start_execution before Popen() is called (mkdir, env, OutputHandler) *)
| InsidePopenAfterFork (* inside subprocess.Popen() after the child exists, before Popen() returns *)
| AfterPopenReturned   (* `process` is bound; still inside start_execution *)
| ReturnedNotRegistered(* start_execution returned, `handle` is bound, add_op not yet executed *)
| Registered.          (* add_op executed (slot possibly not yet popped) *)

Inductive abort_point :=
| AtLoop (s : xstate)
| InLaunch (s : xstate) (o : nat) (lp : launch_point).   (* s = state before this launch *)

(* task processes that exist at that point (operations whose process has been spawned and not reaped) *)
Definition live (pt : abort_point) : list nat :=
  match pt with
  | AtLoop s => map fst (procs s)
  | InLaunch s o BeforeSpawn => map fst (procs s)
  | InLaunch s o _ => map fst (procs s) ++ [o]
  end.

(* process groups that receive SIGTERM from the abort handlers *)
Definition killed (pt : abort_point) : list nat :=
  match pt with
  | AtLoop s => map fst (procs s)                                  (* run_plan: terminate_processes *)
  | InLaunch s o BeforeSpawn => map fst (procs s)                  (* `process is None`: nothing of o to kill *)
  | InLaunch s o InsidePopenAfterFork => map fst (procs s)         (* `process` still None: o is missed (D7') *)
  | InLaunch s o AfterPopenReturned => o :: map fst (procs s)      (* start_execution kills o's group *)
  | InLaunch s o ReturnedNotRegistered => map fst (procs s) ++ [o] (* executor registers the handle, run_plan kills *)
  | InLaunch s o Registered => map fst (procs s) ++ [o]
  end.

Definition same_set (a b : list nat) : Prop := forall x, In x a <-> In x b.
