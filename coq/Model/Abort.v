(* Model of the abort handling around the launch of one operation, after the repair D35:
     conductor/errors/signal.py   _terminate_handler: while _defer_depth > 0 the signal is only noted (_abort_pending),
                                  otherwise ConductorAbort is raised;  abort_deferred: depth += 1 ... depth -= 1 and, when
                                  the outermost region is left with an abort pending, raise ConductorAbort;
     Executor._launch_ops_if_able the statements of the `with abort_deferred():` block, in program order;
     Executor.run_plan            `except ConductorAbort: self._inflight_ops.terminate_processes()` -- SIGTERM to the
                                  process group of every REGISTERED process.
   Because the handler never raises inside the region, a signal that arrives in the middle of a statement of the block
   (e.g. inside subprocess.Popen() after the fork) acts exactly like one that arrives before or after that statement; the
   model therefore lets a signal arrive before each statement.  [existing]: operations whose process exists and has not been
   reaped; [registered]: operations in _InflightOperations._processes. *)
From Coq Require Import List Arith Bool NArith.
Import ListNotations.

Inductive instr :=
| IEnter       (* __enter__ of abort_deferred: _defer_depth += 1 *)
| IOther       (* a statement that neither creates nor registers a process *)
| IStart       (* handle = next_op.start_execution(ctx, slot) *)
| IRegister    (* self._inflight_ops.add_op(handle, next_op) *)
| ILeave.      (* __exit__: _defer_depth -= 1; if it is 0 and an abort is pending: raise ConductorAbort *)

Definition decode (c : N) : instr :=
  match c with 0%N => IEnter | 2%N => IStart | 3%N => IRegister | 4%N => ILeave | _ => IOther end.

(* what start_execution does for the operation being launched *)
Inductive lkind :=
| LProcess     (* spawns a process (run_command / run_experiment) *)
| LSync        (* does its work synchronously (combine): no process *)
| LFails.      (* raises a ConductorError before a process exists: the rest of the block is skipped *)

Record lstate := { depth : nat; pending : bool; existing : list nat; registered : list nat }.

Inductive result :=
| Cont (s : lstate)
| Abort (killed live : list nat).   (* ConductorAbort reaches run_plan: SIGTERM to [killed] while the processes [live] exist *)

(* _terminate_handler *)
Definition deliver (s : lstate) : result :=
  if Nat.ltb 0 (depth s)
  then Cont {| depth := depth s; pending := true; existing := existing s; registered := registered s |}
  else Abort (registered s) (existing s).

Definition with_depth (d : nat) (s : lstate) : lstate :=
  {| depth := d; pending := pending s; existing := existing s; registered := registered s |}.

(* the launch of operation o; sigs: does a signal arrive before the next statement (head first)?; skipping: an
   exception is propagating to the end of the block *)
Fixpoint run (o : nat) (k : lkind) (prog : list instr) (sigs : list bool) (skipping : bool) (s : lstate) : result :=
  match prog with
  | [] => Cont s
  | i :: prog' =>
    match (if hd false sigs then deliver s else Cont s) with
    | Abort kl lv => Abort kl lv
    | Cont s1 =>
      let next := run o k prog' (tl sigs) in
      match i with
      | ILeave =>
        let d := pred (depth s1) in
        if Nat.eqb d 0 && pending s1 then Abort (registered s1) (existing s1) else next false (with_depth d s1)
      | IEnter => if skipping then next true s1 else next false (with_depth (S (depth s1)) s1)
      | IOther => next skipping s1
      | IStart =>
        if skipping then next true s1 else
        match k with
        | LProcess => next false {| depth := depth s1; pending := pending s1; existing := existing s1 ++ [o]; registered := registered s1 |}
        | LSync => next false s1
        | LFails => next true s1
        end
      | IRegister =>
        if skipping then next true s1 else
        match k with
        | LProcess => next false {| depth := depth s1; pending := pending s1; existing := existing s1; registered := registered s1 ++ [o] |}
        | _ => next false s1
        end
      end
    end
  end.

(* the shape of the block the theorems are proved for: enter, statements, start_execution, statements, add_op,
   statements, leave *)
Fixpoint shape (st : nat) (prog : list instr) : bool :=
  match prog with
  | [] => false
  | IEnter :: p => match st with 0 => shape 1 p | _ => false end
  | IOther :: p => match st with 0 => false | _ => shape st p end
  | IStart :: p => match st with 1 => shape 2 p | _ => false end
  | IRegister :: p => match st with 2 => shape 3 p | _ => false end
  | ILeave :: p => match st, p with 3, [] => true | _, _ => false end
  end.

Definition same_set (a b : list nat) : Prop := forall x, In x a <-> In x b.
