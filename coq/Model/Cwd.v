(* Where the current working directory enters Conductor's command line:
     context.py   Context.from_cwd          -> find_root
     cli/gc.py    "Would delete"/"Deleting" -> gc_render      (os.path.relpath(exp_path, cwd))
     cli/archive.py handle_output_path      -> handle_output_path
                    "Archive saved as"      -> archive_render (relative_to(cwd), ValueError -> as is)
     lib/path.py  where (cli/where.py)      -> where_render   (absolute, or relative to the root)
   Everything else the commands do is computed from the project root that find_root returns
   (identifiers on the command line are root-relative, output paths are root / cond-out / ...).
   No proofs here. *)
From Coq Require Import List NArith Bool.
From Conductor Require Import Lib.Str Lib.Path Gen.Generated.
Import ListNotations.
Local Open Scope N_scope.

(* Context.from_cwd:
     here = Path.cwd()
     for path in chain([here], here.parents):
         if (path / CONFIG_FILE_NAME).is_file(): return cls(project_root=path)
     raise MissingProjectRoot()
   [rp] is the directory under test with its components reversed, so that the parent is the
   tail; [has_cfg dir] answers (dir / CONFIG_FILE_NAME).is_file(). *)
Fixpoint find_up (has_cfg : path -> bool) (rp : list str) : option path :=
  match rp with
  | [] => if has_cfg [] then Some [] else None
  | _ :: parent => if has_cfg (rev rp) then Some (rev rp) else find_up has_cfg parent
  end.

Definition find_root (has_cfg : path -> bool) (cwd : path) : option path :=
  find_up has_cfg (rev cwd).

(* the file whose presence is tested in a directory *)
Definition config_path (dir : path) : path := dir ++ [cfg_CONFIG_FILE_NAME].

(* the output directory every command works on *)
Definition output_path (root : path) : path := root ++ [cfg_OUTPUT_DIR].

(* ---------- what is printed ---------- *)
(* a printed path: absolute, or relative (to the directory stated by the command's contract:
   the working directory for gc and archive, the project root for `where -p`) *)
Inductive shown := ShAbs (p : path) | ShRel (r : list str).

Definition show (s : shown) : str :=
  match s with ShAbs p => show_abs p | ShRel r => show_rel r end.

(* the absolute path a reader standing in [base] understands *)
Definition denote (base : path) (s : shown) : path :=
  match s with ShAbs p => p | ShRel r => resolve (base ++ r) end.

(* gc.py: print("Would delete", os.path.relpath(exp_path, cwd)) -- same for "Deleting" *)
Definition gc_render (cwd exp_path : path) : shown := ShRel (relpath cwd exp_path).

(* a path typed by the user, as pathlib.Path(raw) keeps it *)
Inductive user_path := UAbs (p : path) | URel (r : list str).

(* the absolute location the operating system gives a user path when used from cwd *)
Definition locate (cwd : path) (u : user_path) : path :=
  match u with UAbs p => resolve p | URel r => resolve (cwd ++ r) end.

Definition u_child (u : user_path) (name : str) : user_path :=
  match u with UAbs p => UAbs (p ++ [name]) | URel r => URel (r ++ [name]) end.
(* PurePath.parent: the last component is dropped (the parent of a one-component relative
   path is ".") *)
Definition u_parent (u : user_path) : user_path :=
  match u with UAbs p => UAbs (removelast p) | URel r => URel (removelast r) end.

Inductive out_choice :=
  | OutOk (u : user_path)
  | OutputFileExists
  | OutputPathDoesNotExist.

(* archive.py:handle_output_path; [ex], [isdir] answer Path.exists() / Path.is_dir() for the
   located path; [name] is generate_archive_name() *)
Definition handle_output_path (ex isdir : path -> bool) (cwd root : path) (name : str)
           (raw : option user_path) : out_choice :=
  match raw with
  | None =>
    (* the generated name has a resolution of one second: an archive of that name made a moment ago is not overwritten (D43) *)
    if ex (locate cwd (UAbs (output_path root ++ [name]))) then OutputFileExists
    else OutOk (UAbs (output_path root ++ [name]))
  | Some u =>
    if ex (locate cwd u) then
      if isdir (locate cwd u) then (if ex (locate cwd (u_child u name)) then OutputFileExists else OutOk (u_child u name))
      else OutputFileExists
    else if ex (locate cwd (u_parent u)) && isdir (locate cwd (u_parent u)) then OutOk u
    else OutputPathDoesNotExist
  end.

(* archive.py:
     try: relative_output_path = output_archive_path.relative_to(pathlib.Path.cwd())
     except ValueError: relative_output_path = output_archive_path
   relative_to raises ValueError for a relative path against the absolute cwd *)
Definition archive_render (cwd : path) (u : user_path) : shown :=
  match u with
  | UAbs p => match relative_to cwd p with Some r => ShRel r | None => ShAbs p end
  | URel r => ShRel r
  end.

(* lib/path.py:where -- None = ValueError (cannot happen for output paths, which lie under the
   root) *)
Definition where_render (root output : path) (relative_to_project_root : bool) : option shown :=
  if relative_to_project_root then
    match relative_to root output with Some r => Some (ShRel r) | None => None end
  else Some (ShAbs output).

(* lib/path.py:where, the whole answer: [out] = task.get_output_path(ctx) (None: an experiment without a selected
   version), [ex] = Path.exists(); None = the function returns None (the command line then reports NoTaskOutputPath) *)
Definition where_answer (ex : path -> bool) (root : path) (out : option path) (non_existent_ok relative_to_project_root : bool)
  : option shown :=
  match out with
  | None => None
  | Some o => if negb (ex o) && negb non_existent_ok then None else where_render root o relative_to_project_root
  end.
