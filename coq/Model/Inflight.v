(* Model of _InflightOperations (conductor/execution/executor.py): the table of registered processes, keyed by pid, and
   wait_for_next_op(): `while True: pid, rc = SigchldHelper.wait(); if pid in self._processes: break` -- values that name
   a pid the executor did not register (an unrelated child of the process) are dropped.  The values wait() returns are the
   [returned] list of Model/Reaper.v, oldest first. *)
From Coq Require Import List Arith Bool.
Import ListNotations.

Definition tbl := list (nat * nat).          (* (pid, operation) *)

Fixpoint tbl_find (pid : nat) (t : tbl) : option nat :=
  match t with [] => None | (p, o) :: t' => if Nat.eqb pid p then Some o else tbl_find pid t' end.
Fixpoint tbl_remove (pid : nat) (t : tbl) : tbl :=
  match t with [] => [] | (p, o) :: t' => if Nat.eqb pid p then tbl_remove pid t' else (p, o) :: tbl_remove pid t' end.
(* add_op: self._processes[pid] = ... (an existing entry for that pid is overwritten) *)
Definition tbl_add (pid o : nat) (t : tbl) : tbl := (pid, o) :: tbl_remove pid t.

(* one wait_for_next_op() over the values still to come: the completed operation with the status charged to it, the
   table and the values afterwards; None = every value so far named an unregistered pid (the call is still waiting) *)
Fixpoint next_op (t : tbl) (w : list (nat * nat)) : option (nat * nat * tbl * list (nat * nat)) :=
  match w with
  | [] => None
  | (pid, rc) :: w' =>
    match tbl_find pid t with
    | Some o => Some (o, rc, tbl_remove pid t, w')
    | None => next_op t w'
    end
  end.

(* every completion the executor obtains from the values w, in order *)
Fixpoint drain (fuel : nat) (t : tbl) (w : list (nat * nat)) : list (nat * nat) :=
  match fuel with
  | O => []
  | S f => match next_op t w with Some (o, rc, t', w') => (o, rc) :: drain f t' w' | None => [] end
  end.
Definition completions (t : tbl) (w : list (nat * nat)) : list (nat * nat) := drain (length w) t w.
