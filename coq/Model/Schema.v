(* Model of the path a task definition takes from a COND file to a loaded task:

     parsing/validation.py       generate_type_validator            -> [validate]
     task_types/raw.py           RawTaskType.load_from_cond_file    -> [load_from_cond_file]
     parsing/task_loader.py      _wrap_task_function (the shim)     -> [shim], [parse_calls]
     parsing/task_index.py       _materialize_raw_task              -> [materialize]
     task_types/base.py          TaskType.from_raw_task
     task_types/run.py           _RunSubprocess.__init__            -> [construct]
     utils/run_arguments.py      RunArguments.from_raw              -> [run_arguments_from_raw]
     utils/run_options.py        RunOptions.from_raw                -> [run_options_from_raw]
     task_types/combine.py       Combine.__init__                   -> [combine_names]

   The schema / defaults table is [task_type_table] of Gen/Generated.v (reflection of
   conductor.task_types.raw_task_types on every run); names are checked with
   Model/Ident.v [is_name_valid], dependency strings with [resolve_dep].

   Python values are abstracted to [value]: what the code can observe of a value through
   isinstance / `is None` / iteration / hashing / ==.  [VOther h t] stands for any object that is
   not an instance of str, bool, int, float, NoneType, list, dict (a tuple, a set, an
   ExperimentInstance, ...): h says whether it is hashable, t identifies the object.
   A float is the exact rational it denotes (float.as_integer_ratio()); the three floats that denote
   no rational are [VFloatX 0] (inf), [VFloatX 1] (-inf) and [VFloatX 2] (nan): instances of float,
   hence primitive argument / option values like every other float.

   Results are [Ok] or the class of the exception that leaves the code; [EPython] is any
   exception that is not a ConductorError (TypeError, KeyError, AttributeError ...). *)
From Coq Require Import List NArith ZArith Bool.
Require Coq.Strings.String Coq.Strings.Ascii.
Import Coq.Strings.String.StringSyntax.
From Conductor Require Import Lib.Str Lib.SchemaTypes Gen.Generated Model.Ident.
Import ListNotations.
Open Scope N_scope.

(* string literals of the source *)
Fixpoint lit (s : String.string) : str :=
  match s with
  | String.EmptyString => []
  | String.String a r => Ascii.N_of_ascii a :: lit r
  end.
Arguments lit s%string_scope.

Definition K_name : str := lit "name".
Definition K_run : str := lit "run".
Definition K_parallelizable : str := lit "parallelizable".
Definition K_args : str := lit "args".
Definition K_options : str := lit "options".
Definition K_deps : str := lit "deps".
Definition ELLIPSIS : str := lit "[...]".
(* the constructors of the COND scope *)
Definition C_run_command : str := lit "run_command".
Definition C_run_experiment : str := lit "run_experiment".
Definition C_group : str := lit "group".
Definition C_combine : str := lit "combine".
Definition C_environment : str := lit "environment".
(* the classes they are materialised to *)
Definition C_RunCommand : str := lit "RunCommand".
Definition C_RunExperiment : str := lit "RunExperiment".
Definition C_Group : str := lit "Group".
Definition C_Combine : str := lit "Combine".

(* ---------- values ---------- *)
Inductive value :=
| VStr (s : str)
| VBool (b : bool)
| VInt (z : Z)
| VFloat (num : Z) (den : positive)
| VNone
| VList (l : list value)
| VDict (kv : list (value * value))
| VOther (hashable : bool) (tag : N)
| VFloatX (which : N).

(* a dict with str keys in iteration order: **kwargs, the defaults, a raw task *)
Definition assoc := list (str * value).

Inductive err :=
| EMissingParam (p : str)          (* MissingTaskParameter(parameter_name) *)
| EInvalidParamType (p : str)      (* InvalidTaskParameterType(parameter_name) *)
| EUnrecognizedParams              (* UnrecognizedTaskParameters *)
| EInvalidTaskName                 (* InvalidTaskName *)
| EDuplicateTaskName               (* DuplicateTaskName *)
| EGroupInvalidInstance            (* ExperimentGroupInvalidExperimentInstance *)
| EGroupDuplicateName              (* ExperimentGroupDuplicateName *)
| EInvalidIdentifier               (* InvalidTaskIdentifier *)
| EDuplicateDependency             (* DuplicateDependency *)
| ECombineDuplicateDepName         (* CombineDuplicateDepName *)
| EArgsNonPrimitive                (* RunArgumentsNonPrimitiveValue *)
| EOptionsNonStringKey             (* RunOptionsNonStringKey *)
| EOptionsNonPrimitive             (* RunOptionsNonPrimitiveValue *)
| EUnknownName                     (* NameError in the COND file -> ParsingUnknownNameError *)
| ETaskNotFound                    (* TaskNotFound *)
| EPython.                         (* any exception that is not a ConductorError *)

Inductive result (A : Type) := Ok (a : A) | Err (e : err).
Arguments Ok {A} a.
Arguments Err {A} e.

Definition bind {A B} (r : result A) (f : A -> result B) : result B :=
  match r with Ok a => f a | Err e => Err e end.
Definition is_ok {A} (r : result A) : bool := match r with Ok _ => true | Err _ => false end.

(* ---------- dict operations (insertion-ordered, as CPython >= 3.7) ---------- *)
Fixpoint lookup (k : str) (d : assoc) : option value :=
  match d with
  | [] => None
  | (k', v) :: d' => if str_eqb k k' then Some v else lookup k d'
  end.

Definition has_key (k : str) (d : assoc) : bool :=
  match lookup k d with Some _ => true | None => false end.

(* d[k] = v : an existing key keeps its position *)
Fixpoint update (k : str) (v : value) (d : assoc) : assoc :=
  match d with
  | [] => [(k, v)]
  | (k', v') :: d' => if str_eqb k k' then (k', v) :: d' else (k', v') :: update k v d'
  end.

(* {**a, **b} *)
Definition dict_merge (a b : assoc) : assoc :=
  fold_left (fun d kv => update (fst kv) (snd kv) d) b a.

(* del d[k] *)
Fixpoint remove_key (k : str) (d : assoc) : assoc :=
  match d with
  | [] => []
  | (k', v) :: d' => if str_eqb k k' then remove_key k d' else (k', v) :: remove_key k d'
  end.

Definition mem_str (k : str) (l : list str) : bool := existsb (str_eqb k) l.

(* ---------- parsing/validation.py ---------- *)
(* _is_optional *)
Definition is_optional (t : sty) : bool := match t with TOpt _ => true | _ => false end.

(* isinstance(v, cls) for the classes a schema can name; None = isinstance raises TypeError
   (its second argument is not a class: a list like [str], a subscripted generic) *)
Definition inst_base (v : value) (t : sty) : option bool :=
  match t with
  | TStr => Some (match v with VStr _ => true | _ => false end)
  | TBool => Some (match v with VBool _ => true | _ => false end)
  | TList => Some (match v with VList _ => true | _ => false end)
  | TDict => Some (match v with VDict _ => true | _ => false end)
  | TListOf _ => None
  | TOpt _ => None
  end.

(* all(map(lambda el: isinstance(el, t), l)) : lazy, stops at the first False *)
Fixpoint all_inst (l : list value) (t : sty) : option bool :=
  match l with
  | [] => Some true
  | x :: l' =>
    match inst_base x t with
    | None => None
    | Some false => Some false
    | Some true => all_inst l' t
    end
  end.

(* the body of the loop over schema.items() for a parameter that is present with value v *)
Definition check_param (p : str) (t : sty) (v : value) : result unit :=
  match t with
  | TOpt u =>
    match v with
    | VNone => Ok tt                                   (* Optional value is None *)
    | _ =>
      (* expected_type = get_args(type_class) = (u, NoneType); step 3 *)
      match inst_base v u with
      | Some true => Ok tt
      | Some false => Err (EInvalidParamType p)
      | None => Err EPython
      end
    end
  | TListOf u =>
    (* step 2 *)
    match v with
    | VList l =>
      match all_inst l u with
      | Some true => Ok tt
      | Some false => Err (EInvalidParamType (p ++ ELLIPSIS))
      | None => Err EPython
      end
    | _ => Err (EInvalidParamType p)
    end
  | _ =>
    (* step 3 *)
    match inst_base v t with
    | Some true => Ok tt
    | Some false => Err (EInvalidParamType p)
    | None => Err EPython
    end
  end.

(* for parameter, type_class in schema.items(): ... *)
Fixpoint validate_params (schema : list (str * sty)) (args : assoc) : result unit :=
  match schema with
  | [] => Ok tt
  | (p, t) :: rest =>
    match lookup p args with
    | None => if is_optional t then validate_params rest args else Err (EMissingParam p)
    | Some v => bind (check_param p t v) (fun _ => validate_params rest args)
    end
  end.

(* step 4: for arg in arguments: if arg not in schema *)
Definition extraneous (schema : list (str * sty)) (args : assoc) : bool :=
  existsb (fun kv => negb (mem_str (fst kv) (map fst schema))) args.

Definition validate (schema : list (str * sty)) (args : assoc) : result unit :=
  bind (validate_params schema args)
       (fun _ => if extraneous schema args then Err EUnrecognizedParams else Ok tt).

(* ---------- task_types/raw.py ---------- *)
Definition default_value (d : sdefault) : value :=
  match d with
  | DNone => VNone
  | DBool b => VBool b
  | DEmptyList => VList []
  | DEmptyDict => VDict []
  end.

Definition defaults_of (row : task_type_row) : assoc :=
  map (fun kd => (fst kd, default_value (snd kd))) (tt_defaults row).

(* what the constructor returns: {**args, "_full_type": ...}; rt_name = args["name"] *)
Record raw_task := { rt_name : str; rt_full : str; rt_args : assoc }.

Definition load_from_cond_file (row : task_type_row) (kwargs : assoc) : result raw_task :=
  let args := dict_merge (defaults_of row) kwargs in
  bind (validate (tt_schema row) args) (fun _ =>
    match lookup K_name args with
    | Some (VStr s) =>
      if is_name_valid s then Ok {| rt_name := s; rt_full := tt_full row; rt_args := args |}
      else Err EInvalidTaskName
    | _ => Err EPython          (* KeyError / TypeError: a schema without a str `name` *)
    end).

(* ---------- parsing/task_loader.py: the constructors of the COND scope ---------- *)
(* a call  ctor( **kwargs )  written in a COND file *)
Definition call := (str * assoc)%type.

Fixpoint find_row (table : list task_type_row) (ctor : str) : option task_type_row :=
  match table with
  | [] => None
  | r :: table' => if str_eqb ctor (tt_name r) then Some r else find_row table' ctor
  end.

(* self._tasks: dict keyed by name, in insertion order *)
Definition tasks := list raw_task.

Definition name_taken (s : str) (ts : tasks) : bool := mem_str s (map rt_name ts).

Definition shim (c : call) (ts : tasks) : result tasks :=
  match find_row task_type_table (fst c) with
  | None => Err EUnknownName
  | Some row =>
    bind (load_from_cond_file row (snd c)) (fun r =>
      if name_taken (rt_name r) ts then Err EDuplicateTaskName else Ok (ts ++ [r]))
  end.

(* executing the statements of a file one after the other; the first exception ends it *)
Fixpoint run_calls {S : Type} (h : call -> S -> result S) (cs : list call) (st : S) : result S :=
  match cs with
  | [] => Ok st
  | c :: cs' => bind (h c st) (run_calls h cs')
  end.

Definition parse_calls (cs : list call) : result tasks := run_calls shim cs [].

(* ---------- utils/run_arguments.py, utils/run_options.py ---------- *)
(* isinstance(x, str) or isinstance(x, bool) or isinstance(x, int) or isinstance(x, float) *)
Definition primitive (v : value) : bool :=
  match v with VStr _ | VBool _ | VInt _ | VFloat _ _ | VFloatX _ => true | _ => false end.

Definition run_arguments_from_raw (v : value) : result unit :=
  match v with
  | VList l => if forallb primitive l then Ok tt else Err EArgsNonPrimitive
  | _ => Err EPython
  end.

Fixpoint options_loop (kv : list (value * value)) : result unit :=
  match kv with
  | [] => Ok tt
  | (k, v) :: kv' =>
    match k with
    | VStr _ => if primitive v then options_loop kv' else Err EOptionsNonPrimitive
    | _ => Err EOptionsNonStringKey
    end
  end.

Definition run_options_from_raw (v : value) : result unit :=
  match v with
  | VDict kv => options_loop kv
  | _ => Err EPython
  end.

(* ---------- task_types/combine.py ---------- *)
Fixpoint combine_names (deps : list ident) (seen : list str) : result unit :=
  match deps with
  | [] => Ok tt
  | d :: deps' =>
    if mem_str (iname d) seen then Err ECombineDuplicateDepName
    else combine_names deps' (seen ++ [iname d])
  end.

(* ---------- parsing/task_index.py: _materialize_raw_task ---------- *)
(* the loop over raw_task["deps"]: task_deps (a list) and task_deps_set hold the same identifiers *)
Fixpoint resolve_deps (dir : list str) (deps : list value) (acc : list ident) : result (list ident) :=
  match deps with
  | [] => Ok acc
  | VStr s :: deps' =>
    match resolve_dep dir s with
    | None => Err EInvalidIdentifier
    | Some i =>
      if existsb (ident_eqb i) acc then Err EDuplicateDependency
      else resolve_deps dir deps' (acc ++ [i])
    end
  | _ :: _ => Err EPython          (* dep.startswith: AttributeError *)
  end.

(* a loaded task: what tests of the loaded graph observe *)
Record task := {
  tk_ident : ident;
  tk_type : str;                  (* class name *)
  tk_deps : list ident;
  tk_fields : assoc               (* the remaining keyword arguments of the class constructor *)
}.

(* TaskType.from_raw_task: constructor(identifier=, deps=, **raw_task) for the classes of the
   documented task types.  The keyword arguments each class takes are those of its schema, so a
   raw task that passed [validate] carries exactly them. *)
Definition construct (full : str) (deps : list ident) (fields : assoc) : result unit :=
  if str_eqb full C_RunCommand || str_eqb full C_RunExperiment then
    match lookup K_run fields, lookup K_args fields, lookup K_options fields, lookup K_parallelizable fields with
    | Some _, Some a, Some o, Some _ =>
      bind (run_arguments_from_raw a) (fun _ => run_options_from_raw o)
    | _, _, _, _ => Err EPython
    end
  else if str_eqb full C_Combine then combine_names deps []
  else if str_eqb full C_Group then Ok tt
  else Err EPython.
  (* Environment.__init__ has no `deps` parameter: from_raw_task raises TypeError for it *)

Definition materialize (dir : list str) (r : raw_task) : result task :=
  bind (match lookup K_deps (rt_args r) with
        | None => Ok []
        | Some (VList l) => resolve_deps dir l []
        | Some _ => Err EPython
        end) (fun deps =>
  let fields := remove_key K_name (remove_key K_deps (rt_args r)) in
  bind (construct (rt_full r) deps fields) (fun _ =>
  Ok {| tk_ident := {| ipath := dir; iname := rt_name r |};
        tk_type := rt_full r;
        tk_deps := deps;
        tk_fields := fields |})).

Fixpoint find_task (t : str) (ts : tasks) : option raw_task :=
  match ts with
  | [] => None
  | r :: ts' => if str_eqb t (rt_name r) then Some r else find_task t ts'
  end.

(* TaskIndex.load_single_task for //dir:t once the file of dir has been parsed to ts *)
Definition load_task (dir : list str) (ts : tasks) (t : str) : result task :=
  match find_task t ts with
  | None => Err ETaskNotFound
  | Some r => materialize dir r
  end.

(* load_all_tasks_in_cond_file: every task of the file, in definition order *)
Fixpoint materialize_all (dir : list str) (ts : tasks) : result (list task) :=
  match ts with
  | [] => Ok []
  | r :: ts' => bind (materialize dir r) (fun t => bind (materialize_all dir ts') (fun l => Ok (t :: l)))
  end.
