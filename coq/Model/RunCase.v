(* cond_run: the composed model  loader -> planner -> executor  on a project given as a table of
   task definitions, and its flattening to a list of numbers for the correspondence check. *)
From Coq Require Import List Arith Bool NArith.
From Conductor Require Import Lib.Str Lib.Cmp Model.Loader Model.Planner Model.Exec.
Import ListNotations.

Record tdef := {
  td_status : nat;          (* 0 = undefined, 1 = bad, 2 = good *)
  td_deps : list nat;
  td_kind : tkind;
  td_par : bool;
  td_sr : bool              (* should_run: false only for an experiment with a reusable version *)
}.

Definition undef_tdef : tdef :=
  {| td_status := 0; td_deps := []; td_kind := KCommand; td_par := false; td_sr := true |}.

Definition tdef_of (tasks : list tdef) (x : nat) : tdef := nth x tasks undef_tdef.

Definition graph_of (tasks : list tdef) : graph :=
  fun x => let d := tdef_of tasks x in
           match td_status d with
           | 0 => Undefined
           | 1 => Bad
           | _ => Good (td_deps d)
           end.

Definition info_of (tasks : list tdef) (x : nat) : tinfo :=
  let d := tdef_of tasks x in {| t_deps := td_deps d; t_kind := td_kind d; t_par := td_par d |}.

Definition sr_of (tasks : list tdef) (x : nat) : bool := td_sr (tdef_of tasks x).

Record run_cfg := {
  c_root : nat;
  c_again : bool;
  c_jobs : nat;
  c_stop : bool;
  c_launch_fail : list nat;   (* tasks whose start fails *)
  c_rcs : list N;             (* return code per task *)
  c_picks : list nat          (* k-th wait: index of the process that exits *)
}.

Definition oracle_of (pl : plan) (c : run_cfg) : oracle :=
  let task_of o := op_task (nth o (p_ops pl) {| op_task := 0; op_exe_deps := []; op_par := false; op_sync := false |}) in
  {| launch_fails := fun o => mem (task_of o) (c_launch_fail c);
     rc_of := fun o => nth (task_of o) (c_rcs c) 0%N;
     pick := fun k => nth k (c_picks c) 0 |}.

Inductive outcome :=
| OLoadError (r : result)
| OPlanFuel
| ORun (loaded : list nat) (pl : pstate) (events : option (list event)).

Definition cond_run (fuel : nat) (tasks : list tdef) (c : run_cfg) : outcome :=
  match load_closure (graph_of tasks) fuel (c_root c) with
  | Ok loaded =>
    match plan_for (info_of tasks) (sr_of tasks) (c_again c) fuel (c_root c) with
    | None => OPlanFuel
    | Some ps =>
      let pl := plan_of ps in
      ORun loaded ps (run_plan pl (c_jobs c) (c_stop c) (oracle_of pl c) fuel (c_root c))
    end
  | r => OLoadError r
  end.

(* ---------- flattening ---------- *)
Local Open Scope N_scope.

Definition ser_result (r : result) : list N :=
  match r with
  | Ok _ => [0] | ErrCycle => [1] | ErrNotFound x => [2; N.of_nat x] | ErrBad x => [3; N.of_nat x]
  | ErrDup x => [4; N.of_nat x] | OutOfFuel => [5]
  end.

Definition ser_event (task_of : nat -> nat) (e : event) : list N :=
  match e with
  | ECached t => [1; N.of_nat t]
  | EStart o sl => [2; N.of_nat (task_of o)] ++ ser_opt ser_nat sl
  | ESkip o => [3; N.of_nat (task_of o)]
  | ELaunchFail o => [4; N.of_nat (task_of o)]
  | EFinish o rc => [5; N.of_nat (task_of o); rc]
  | EKill os => 6 :: ser_list ser_nat (map task_of os)
  | EDone => [7]
  | EFailed f s => 8 :: ser_list ser_nat (map task_of f) ++ ser_list ser_nat (map task_of s)
  | EAssertFail => [9]
  end.

Definition is_group (k : tkind) : bool := match k with KGroup => true | _ => false end.
Definition is_exp (k : tkind) : bool := match k with KExperiment => true | _ => false end.

(* the dependency output paths an operation was given: for each direct dependency that has an output
   directory at that moment, (dependency, whether it is the version created in this invocation) *)
Definition snap_paths (tasks : list tdef) (sn : nat * list (nat * bool)) : list (nat * bool) :=
  if is_group (td_kind (tdef_of tasks (fst sn))) then []
  else filter (fun db => let d := tdef_of tasks (fst db) in
                         negb (is_group (td_kind d)) && (negb (is_exp (td_kind d)) || snd db || negb (td_sr d)))
              (snd sn).

Definition ser_outcome (tasks : list tdef) (o : outcome) : list N :=
  let ntasks := length tasks in
  match o with
  | OLoadError r => ser_result r
  | OPlanFuel => [10]
  | ORun loaded ps evs =>
    let pl := plan_of ps in
    let task_of o := op_task (nth o (p_ops pl) {| op_task := 0; op_exe_deps := []; op_par := false; op_sync := false |}) in
    [0%N] ++ map (fun i => if mem i loaded then 1 else 0) (seq 0 ntasks)
    ++ ser_list (fun oi => [N.of_nat (op_task oi)] ++ ser_list ser_nat (map task_of (op_exe_deps oi))
                           ++ ser_bool (op_par oi) ++ ser_bool (op_sync oi)) (p_ops pl)
    ++ ser_list (fun o => ser_list ser_nat (map task_of (deps_of pl o))) (seq 0 (length (p_ops pl)))
    ++ ser_list ser_nat (map task_of (p_initial pl))
    ++ ser_list ser_nat (p_cached pl)
    ++ ser_list ser_nat (sr_calls ps)
    ++ ser_list ser_nat (nv_calls ps)
    ++ ser_list (fun sn => [N.of_nat (fst sn)] ++ ser_list (fun db => [N.of_nat (fst db)] ++ ser_bool (snd db)) (snap_paths tasks sn)) (snaps ps)
    ++ match evs with
       | None => [11]
       | Some l => 12 :: ser_list (ser_event task_of) l
       end
  end.

Definition case_hash (fuel : nat) (tasks : list tdef) (c : run_cfg) : N :=
  pack (ser_outcome tasks (cond_run fuel tasks c)).

(* whole-project validation (TaskIndex.validate_all_loaded_tasks): [keys] = the loaded tasks in dict order *)
Definition ser_vresult (r : vresult) : list N :=
  match r with
  | VOk roots => 0 :: ser_list ser_nat roots
  | VCycle => [1]
  | VNotFound x => [2; N.of_nat x]
  | VOutOfFuel => [3]
  end.

Definition validate_hash (fuel : nat) (tasks : list tdef) (keys : list nat) : N :=
  pack (ser_vresult (validate_all (graph_of tasks) fuel keys)).
