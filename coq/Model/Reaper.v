(* Model of the child-reaping protocol of conductor/utils/sigchld.py (SigchldHelper) together with the
   parts of the kernel and of CPython's signal machinery it relies on.

   kernel : [zombies] = children that have exited and have not been waited for; a standard signal
            does not queue: [kpending] says that a SIGCHLD is pending for the process.
   CPython: when the signal is delivered the C-level handler sets the "tripped" flag and -- since
            /repo 2ba821d (fix D17) the pipe is the interpreter's wakeup fd -- writes one byte to the
            pipe AT THAT MOMENT.  The Python-level handler runs later, between two bytecodes of the
            main thread, never while the main thread is blocked inside a system call.
   program: SigchldHelper.wait() = `while len(self._returncodes) == 0: os.read(pipe, 1)` then pop();
            SigchldHelper._handler = reap every available child with waitpid(-1, WNOHANG) and append
            (pid, decoded status) to _returncodes.

   [old_protocol = true] is the protocol before the fix: the byte is written by the Python-level
   handler only (Refuted: a reachable state in which wait() blocks forever with a zombie child). *)
From Coq Require Import List Arith Bool.
Import ListNotations.

Inductive rpc := PIdle | PTest | PRead.

Record rstate := {
  zombies : list (nat * nat);     (* (pid, return code) not yet reaped, oldest first *)
  kpending : bool;
  tripped : bool;
  pipe : nat;                     (* bytes in the self-pipe *)
  rcs : list (nat * nat);         (* SigchldHelper._returncodes *)
  pc : rpc;                       (* where the main thread is with respect to wait() *)
  returned : list (nat * nat)     (* what wait() has returned so far, oldest first *)
}.

Inductive revent :=
| EvExit (pid rc : nat)           (* a child exits: zombie + SIGCHLD generated *)
| EvDeliver                       (* the pending SIGCHLD is delivered: C-level handler *)
| EvHandler                       (* the Python-level handler runs (between bytecodes) *)
| EvCall                          (* the executor calls wait() *)
| EvTest                          (* `while len(self._returncodes) == 0` is evaluated *)
| EvRead                          (* os.read(pipe, 1) returns one byte *)
| EvStop.                         (* a child is STOPPED or continued (job control): SIGCHLD generated, nothing to reap *)

Definition rinit : rstate :=
  {| zombies := []; kpending := false; tripped := false; pipe := 0; rcs := []; pc := PIdle; returned := [] |}.

Definition pc_eqb (a b : rpc) : bool :=
  match a, b with PIdle, PIdle | PTest, PTest | PRead, PRead => true | _, _ => false end.

Section Protocol.
  Variable old_protocol : bool.

  Definition rstep (s : rstate) (e : revent) : option rstate :=
    match e with
    | EvExit pid rc =>
      Some {| zombies := zombies s ++ [(pid, rc)]; kpending := true; tripped := tripped s; pipe := pipe s;
              rcs := rcs s; pc := pc s; returned := returned s |}
    | EvDeliver =>
      if kpending s then
        Some {| zombies := zombies s; kpending := false; tripped := true;
                pipe := if old_protocol then pipe s else S (pipe s);
                rcs := rcs s; pc := pc s; returned := returned s |}
      else None
    | EvHandler =>
      if tripped s && negb (pc_eqb (pc s) PRead) then
        Some {| zombies := []; kpending := kpending s; tripped := false;
                pipe := if old_protocol then S (pipe s) else pipe s;
                rcs := rcs s ++ zombies s; pc := pc s; returned := returned s |}
      else None
    | EvCall =>
      if pc_eqb (pc s) PIdle then
        Some {| zombies := zombies s; kpending := kpending s; tripped := tripped s; pipe := pipe s;
                rcs := rcs s; pc := PTest; returned := returned s |}
      else None
    | EvTest =>
      (* pending Python-level handlers run before the next bytecode: the test is not reached with the flag set *)
      if pc_eqb (pc s) PTest && negb (tripped s) then
        match rev (rcs s) with
        | [] => Some {| zombies := zombies s; kpending := kpending s; tripped := tripped s; pipe := pipe s;
                        rcs := rcs s; pc := PRead; returned := returned s |}
        | last :: rest =>
          Some {| zombies := zombies s; kpending := kpending s; tripped := tripped s; pipe := pipe s;
                  rcs := rev rest; pc := PIdle; returned := returned s ++ [last] |}
        end
      else None
    | EvRead =>
      if pc_eqb (pc s) PRead then
        match pipe s with
        | O => None                      (* blocked *)
        | S n => Some {| zombies := zombies s; kpending := kpending s; tripped := tripped s; pipe := n;
                         rcs := rcs s; pc := PTest; returned := returned s |}
        end
      else None
    | EvStop =>
      (* the kernel notifies the parent of a stop as well; waitpid(-1, WNOHANG) without WUNTRACED reports nothing *)
      Some {| zombies := zombies s; kpending := true; tripped := tripped s; pipe := pipe s;
              rcs := rcs s; pc := pc s; returned := returned s |}
    end.

  Fixpoint rrun (s : rstate) (tr : list revent) : option rstate :=
    match tr with
    | [] => Some s
    | e :: tr' => match rstep s e with Some s' => rrun s' tr' | None => None end
    end.

  (* nothing but a further child exit can happen: the main thread sleeps in read() on an empty pipe
     and no signal is pending *)
  Definition blocked (s : rstate) : bool :=
    pc_eqb (pc s) PRead && Nat.eqb (pipe s) 0 && negb (kpending s).
End Protocol.
