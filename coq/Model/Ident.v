(* Model of conductor/task_identifier.py, conductor/filename.py:task_output_dir and the output
   path computation of task_types/base.py.  The three patterns come from Gen/Generated.v, i.e.
   from the source as it is now. *)
From Coq Require Import List NArith Bool Lia.
From Conductor Require Import Lib.Regex Lib.PyRegex Lib.Str Gen.Generated.
Import ListNotations.
Local Open Scope N_scope.

Record ident := { ipath : list str; iname : str }.

Definition SLASH : N := 47.
Definition COLON : N := 58.
Definition DOT : N := 46.

(* TaskIdentifier.__repr__ *)
Definition ident_repr (i : ident) : str :=
  [SLASH; SLASH] ++ join [SLASH] (ipath i) ++ [COLON] ++ iname i.

(* TaskIdentifier.is_name_valid *)
Definition is_name_valid (s : str) : bool := py_match name_regex s.

(* text the pattern's groups range over: the candidate itself, or, when a `$` anchor let a
   trailing newline through, the candidate without it *)
Definition matched_text (p : pyre) (s : str) : str :=
  if matches (body p) s then s
  else match strip_nl s with Some s' => s' | None => s end.

(* split at the first occurrence of c *)
Fixpoint cut (c : N) (s : str) : option (str * str) :=
  match s with
  | [] => None
  | x :: s' =>
    if x =? c then Some ([], s')
    else match cut c s' with
         | Some (a, b) => Some (x :: a, b)
         | None => None
         end
  end.

Definition strip_slashes (s : str) : str :=
  match s with
  | x :: y :: s' => if (x =? SLASH) && (y =? SLASH) then s' else s
  | _ => s
  end.

Definition nonempty (g : str) : bool := match g with [] => false | _ => true end.

(* TaskIdentifier.from_str *)
Definition from_str (require_prefix : bool) (s : str) : option ident :=
  if negb (py_match task_identifier_regex s) then None
  else if require_prefix && negb (starts_with [SLASH; SLASH] s) then None
  else match cut COLON (strip_slashes (matched_text task_identifier_regex s)) with
       | Some (p, n) => Some {| ipath := filter nonempty (split SLASH p); iname := n |}
       | None => None
       end.

(* TaskIdentifier.from_relative_str *)
Definition from_relative_str (s : str) (dir : list str) : option ident :=
  if negb (py_match relative_task_identifier_regex s) then None
  else Some {| ipath := dir; iname := tl (matched_text relative_task_identifier_regex s) |}.

(* TaskIdentifier.is_relative_candidate *)
Definition is_relative_candidate (s : str) : bool := starts_with [COLON] s.

(* dependency strings are resolved as in TaskIndex._materialize_raw_task *)
Definition resolve_dep (dir : list str) (s : str) : option ident :=
  if is_relative_candidate s then from_relative_str s dir else from_str true s.

(* filename.task_output_dir *)
Definition task_output_dir (i : ident) (v : option N) : str :=
  iname i ++ cfg_TASK_OUTPUT_DIR_SUFFIX ++
  match v with None => [] | Some t => [DOT] ++ dec t end.

(* TaskType.get_output_path / RunExperiment.get_output_path, relative to the project root *)
Definition out_path (i : ident) (v : option N) : list str :=
  cfg_OUTPUT_DIR :: ipath i ++ [task_output_dir i v].

(* TaskIdentifier.path_to_cond_file() *)
Definition path_to_cond_file (i : ident) : list str := ipath i ++ [cfg_COND_FILE_NAME].

Definition ident_eqb (a b : ident) : bool :=
  str_eqb (iname a) (iname b) &&
  (fix go (p q : list str) :=
     match p, q with
     | [], [] => true
     | x :: p', y :: q' => str_eqb x y && go p' q'
     | _, _ => false
     end) (ipath a) (ipath b).
