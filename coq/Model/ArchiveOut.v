(* Model of where `cond archive` writes and what it removes:
     conductor/cli/archive.py   handle_output_path (what the -o argument designates),
                                main (order of the steps, the bare `except:` that unlinks the output file,
                                the `finally:` that unlinks the temporary archive index),
                                create_archive (tar is the only writer of the output file).
   The file system enters as five answers about the -o argument, probed when the command starts;
   which step fails (if any) is a parameter.  No proofs in this file. *)
From Coq Require Import List NArith Bool Arith.
Import ListNotations.
Open Scope N_scope.

(* what the file system says about the path given with -o, when handle_output_path runs *)
Record out_probe := {
  o_given : bool;           (* -o was given *)
  o_exists : bool;          (* output_path.exists() *)
  o_is_dir : bool;          (* output_path.is_dir() *)
  o_parent_exists : bool;   (* output_path.parent.exists() *)
  o_parent_is_dir : bool;   (* output_path.parent.is_dir() *)
  o_gen_exists : bool       (* the GENERATED name (cond-archive+<time to the second>.tar.gz, in cond-out or in the given
                               directory) already exists: an archive made within the same second (tested since /repo D43) *)
}.

Inductive out_decision :=
| OGenInOut      (* cond-out/<generated name> *)
| OGenInDir      (* <given directory>/<generated name> *)
| OGiven         (* the given path itself *)
| OErrExists     (* raise OutputFileExists *)
| OErrNoPath.    (* raise OutputPathDoesNotExist *)

(* archive.handle_output_path *)
Definition handle_output_path (p : out_probe) : out_decision :=
  if negb (o_given p) then (if o_gen_exists p then OErrExists else OGenInOut)
  else if o_exists p then (if o_is_dir p then (if o_gen_exists p then OErrExists else OGenInDir) else OErrExists)
  else if o_parent_exists p && o_parent_is_dir p then OGiven
  else OErrNoPath.

Definition decision_code (d : out_decision) : N :=
  match d with OGenInOut => 0 | OGenInDir => 1 | OGiven => 2 | OErrExists => 3 | OErrNoPath => 4 end.

Definition refused (d : out_decision) : bool :=
  match d with OErrExists | OErrNoPath => true | _ => false end.

(* the steps of archive.main, by the codes of the translator:
     1 handle_output_path   2 compute_tasks_to_archive   3 test: the closure holds no archivable task
     try:     4 unlink(archive index)  5 create_or_load(archive index)  6 copy_entries_to  7 test: nothing copied
              8 commit_changes  9 create_archive (tar czf <output file>)  10 print
     except:  11 unlink(output file)  12 re-raise
     finally: 4 unlink(archive index) *)
Definition steps_before_try : list N := [1; 2; 3].
Definition steps_try : list N := [4; 5; 6; 7; 8; 9; 10].
Definition steps_on_error : list N := [11; 12].
Definition steps_finally : list N := [4].

(* Python's try / bare except / finally over straight-line steps: [fail_at = Some k] -- the k-th step (counted from 0
   over before ++ try) raises; a step that raises has been ENTERED (it is part of the trace: it may have had a partial
   effect, e.g. tar leaving a truncated file) *)
Definition run_steps (before try_ on_error finally_ : list N) (fail_at : option nat) : list N :=
  match fail_at with
  | None => before ++ try_ ++ finally_
  | Some k =>
    if Nat.ltb k (length before) then firstn (S k) before
    else before ++ firstn (S (k - length before)) try_ ++ on_error ++ finally_
  end.

(* archive.main: the steps entered, given the probe of -o and the step that fails.  When handle_output_path refuses,
   step 1 is the one that raises, whatever [fail_at] says. *)
Definition archive_main (p : out_probe) (fail_at : option nat) : list N :=
  if refused (handle_output_path p) then run_steps steps_before_try steps_try steps_on_error steps_finally (Some 0%nat)
  else run_steps steps_before_try steps_try steps_on_error steps_finally fail_at.

(* the steps that create, write or remove a file: 4 and 5 the temporary archive index in cond-out, 6 and 8 its content,
   9 the output file (written), 11 the output file (removed) *)
Definition touches_files (c : N) : bool := (c =? 4) || (c =? 5) || (c =? 6) || (c =? 8) || (c =? 9) || (c =? 11).
Definition writes_output (c : N) : bool := c =? 9.
Definition removes_output (c : N) : bool := c =? 11.

(* whether the file the command is going to write -- the generated name, or the -o argument itself -- existed when
   handle_output_path looked *)
Definition target_existed (p : out_probe) : bool :=
  if negb (o_given p) then o_gen_exists p
  else if o_exists p then (if o_is_dir p then o_gen_exists p else true)
  else false.
