(* Machine-checked record of defect D16 (fixed in /repo by commit f0dafb3 "fix:
   run_experiment_group's `experiments` defaults to empty as documented").  At the pinned commit
   the signature was

       def run_experiment_group(name, run, experiments, chain_experiments=False, deps=None)

   so the documented call without `experiments` (documented default: []) never reached the body:
   CPython raised TypeError("missing 1 required positional argument") in the COND file, which
   parse_cond_file reports as a TaskParseError -- while the documented expansion of that call,
   combine(name=...), is accepted.  [group_impl_old] is the model of the old function: the
   present one behind the old argument check. *)
From Coq Require Import List NArith ZArith Bool.
Require Coq.Strings.String.
Import Coq.Strings.String.StringSyntax.
From Conductor Require Import Lib.Str Lib.SchemaTypes Gen.Generated Model.Ident Model.Schema Model.Group.
Import ListNotations.
Open Scope N_scope.

(* experiments_given = the call site passes `experiments` *)
Definition group_impl_old {S} (h : call -> S -> result S) (experiments_given : bool) (d : gdef) (st : S)
  : result S :=
  if experiments_given then group_impl h d st else Err EPython.

(* run_experiment_group(name="g", run="true") *)
Definition d16 : gdef :=
  {| g_name := VStr (lit "g"); g_run := VStr (lit "true"); g_experiments := Some [];
     g_chain := false; g_deps := None |}.

(* C19 at the pinned commit: the group form is rejected, its documented expansion accepted *)
Theorem C19_reject_old_refuted :
  exists d cs,
    doc_calls d = Some cs /\
    is_ok (group_impl_old shim false d []) = false /\
    is_ok (run_calls shim cs []) = true.
Proof. exists d16. eexists. split; [reflexivity|]. split; vm_compute; reflexivity. Qed.
Print Assumptions C19_reject_old_refuted.

(* with the repaired signature the same call is accepted and defines the combine task *)
Example d16_now : option_map (map rt_name) (match group_impl shim d16 [] with Ok ts => Some ts | Err _ => None end)
                  = Some [lit "g"].
Proof. vm_compute. reflexivity. Qed.
