(* Machine-checked record of defect D22 (fixed in /repo by e97eb39 "fix: cond clean removes the
   version index before the output directories").  Before the fix `cond clean` was a single
   shutil.rmtree(cond-out): the entries go in the file system's directory order, so a version
   directory can disappear while version_index.sqlite, with its row, is still there.  The model
   below is Model/Store.v with a directory removal that does not wait for the index to be gone. *)
From Coq Require Import List NArith Bool.
From Conductor Require Import Lib.Str Model.Store Proofs.StoreSpec.
Import ListNotations.
Open Scope N_scope.

Definition do_clean_dir_old (k : key) (s : state) : state :=
  match s_proc s with
  | Some PClean => if any_live (s_kids s) then s else with_dirs (remove_key k (s_dirs s)) s
  | _ => s
  end.

Definition hd0 : head := (None, false).
Definition one_run : list label := run_labels 0 hd0 [mk_spec 1 (true, true) true [CStart; CDone] 0 None].
Definition clock0 : nat -> N := fun _ => 1000.
Definition recorded : state := run clock0 one_run init.
Definition the_row : row := mk_row 1 1000 hd0.

Lemma one_run_ok : Forall label_ok one_run.
Proof. repeat constructor. Qed.

(* experiment 1 ran successfully: its version is recorded and has its directory ... *)
Lemma recorded_has_row_and_dir : In the_row (s_rows recorded) /\ lookup (row_key the_row) (s_dirs recorded) <> None.
Proof. split; [vm_compute; auto | vm_compute; discriminate]. Qed.

(* ... `cond clean` starts, rmtree meets the version directory before the index file, Conductor is
   killed: the row is still recorded, its directory is gone *)
Theorem C06_clean_refuted_old :
  let s := stop (do_clean_dir_old (row_key the_row) (apply clock0 (LBegin CClean) recorded)) in
  In the_row (s_rows s) /\ lookup (row_key the_row) (s_dirs s) = None /\ ~ Inv s.
Proof.
  cbv zeta. split; [vm_compute; auto|]. split; [vm_compute; reflexivity|].
  intros H. destruct (H the_row) as (d & Hl & _); [vm_compute; auto|]. vm_compute in Hl. discriminate.
Qed.

(* with the index removed first (Model/Store.v LCleanIndex, then LCleanDir in any order) the same
   kill leaves no row at all *)
Example clean_index_first :
  s_rows (stop (apply clock0 (LCleanDir (row_key the_row)) (apply clock0 LCleanIndex (apply clock0 (LBegin CClean) recorded)))) = [].
Proof. vm_compute. reflexivity. Qed.
