(* Machine-checked record of defect D4 (fixed in /repo by commit 9915b18 "fix: cond gc -n/-v no
   longer crashes when run from a sub-directory"): before the fix cli/gc.py printed
       str(exp_path.relative_to(cwd))
   with cwd = pathlib.Path.cwd().  PurePath.relative_to raises ValueError unless cwd is an
   ancestor of the path; the experiment directories live under <root>/cond-out, so from any
   package directory <root>/pkg the rendering is undefined and `cond gc -n` / `cond gc -v` ended
   in a traceback although the project root had been found. *)
From Coq Require Import List NArith Bool.
From Conductor Require Import Lib.Str Lib.Cmp Lib.Path Gen.Generated Model.Cwd Proofs.PathProofs Proofs.CwdProofs.
Import ListNotations.
Local Open Scope N_scope.

(* None = ValueError *)
Definition gc_render_old (cwd exp_path : path) : option shown :=
  match relative_to cwd exp_path with Some r => Some (ShRel r) | None => None end.

(* root /r with the config file, cwd = /r/pkg, experiment directory /r/cond-out/x.task.5:
   the root is found, the post-fix rendering denotes the directory, the pre-fix one raises *)
Theorem C17_gc_refuted :
  exists (has_cfg : path -> bool) R cwd p,
    find_root has_cfg cwd = Some R /\ is_prefix R cwd = true /\ is_prefix (output_path R) p = true /\
    clean cwd = true /\ clean p = true /\
    denote cwd (gc_render cwd p) = p /\
    gc_render_old cwd p = None.
Proof.
  exists (fun d => strs_eqb d [[114]]), [[114]], [[114]; [112; 107; 103]],
         (output_path [[114]] ++ [[120; 46; 116; 97; 115; 107; 46; 53]]).
  repeat split; vm_compute; reflexivity.
Qed.

(* the pre-fix rendering is defined exactly when cwd is an ancestor of the directory -- for
   directories under cond-out that means: only from the root (or above), or from inside cond-out *)
Theorem C17_gc_old_defined_iff : forall cwd p,
  (exists s, gc_render_old cwd p = Some s) <-> is_prefix cwd p = true.
Proof.
  intros cwd p. unfold gc_render_old. rewrite relative_to_defined. split.
  - intros [s H]. destruct (relative_to cwd p) as [r|]; [eauto | discriminate].
  - intros [r H]. rewrite H. eauto.
Qed.
