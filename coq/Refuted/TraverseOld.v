(* Machine-checked record of defect D5 (fixed in /repo by e78e810 "fix: TaskType.traverse
   visits a shared dependency only once"): the traversal as it was at the pinned commit --
   `visited` is consulted only when pushing, so a task pushed twice before its first pop is
   visited twice.  `cond archive T` then loaded the rows of that task twice into the archive
   index and died with sqlite3.IntegrityError. *)
From Coq Require Import List NArith Bool.
From Conductor Require Import Lib.Str Model.Archive.
Import ListNotations.
Open Scope N_scope.

Fixpoint traverse_loop_old (fuel : nat) (g : graph) (stack visited calls : list str) : tres :=
  match fuel with
  | O => TFuel
  | S f =>
    match stack with
    | [] => TOk (rev calls)
    | cur :: stack' =>
      match get_task g cur with
      | None => TMissing cur
      | Some t =>
        let visited' := cur :: visited in
        traverse_loop_old f g (push_deps (t_deps t) visited' stack') visited' (cur :: calls)
      end
    end
  end.
Definition traverse_old (g : graph) (root : str) : tres :=
  traverse_loop_old (traverse_fuel g) g [root] [] [].

(* archive.main with the old traversal *)
Definition compute_tasks_old (g : graph) (T : str) : option (list str) :=
  match traverse_old g T with TOk calls => Some (filter (archivable g) calls) | _ => None end.

(* g -> [e1, mid], mid -> [e1] *)
Definition d5_g : graph :=
  [([103], {| t_deps := [[101; 49]; [109]]; t_archivable := true |});
   ([109], {| t_deps := [[101; 49]]; t_archivable := false |});
   ([101; 49], {| t_deps := []; t_archivable := true |})].
Definition d5_rows : table :=
  [{| r_task := [101; 49]; r_ts := 1; r_commit := None; r_dirty := 0 |};
   {| r_task := [103]; r_ts := 2; r_commit := None; r_dirty := 0 |}].

(* the visitor is called twice on e1 ... *)
Theorem C11_traverse_refuted :
  exists g root calls, traverse_old g root = TOk calls /\ ~ NoDup calls.
Proof.
  exists d5_g, [103], [[103]; [109]; [101; 49]; [101; 49]]. split; [vm_compute; reflexivity|].
  intros H. inversion H as [|? ? _ H1]; subst. inversion H1 as [|? ? _ H2]; subst.
  inversion H2 as [|? ? Hn _]; subst. apply Hn. now left.
Qed.

(* ... so copy_entries_to hits the primary key of the fresh archive index *)
Theorem C11_archive_old_integrity :
  exists g T rows tasks,
    compute_tasks_old g T = Some tasks /\
    snd (copy_entries_to rows (Some tasks) false (db_open [])) = None.
Proof.
  exists d5_g, [103], d5_rows. eexists. split; vm_compute; reflexivity.
Qed.

(* the repaired traversal on the same graph *)
Example d5_fixed : traverse d5_g [103] = TOk [[103]; [109]; [101; 49]].
Proof. vm_compute. reflexivity. Qed.
