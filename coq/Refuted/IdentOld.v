(* Machine-checked record of defect D2/D15 (fixed in /repo by the commit "fix: anchor name,
   identifier and gc patterns with \Z"): the patterns as they were at the pinned commit -- `$`
   anchors applied with .match -- accept a trailing newline.  The definitions below are the
   translator's output for the pre-fix source, kept verbatim. *)
From Coq Require Import List NArith Bool.
From Conductor Require Import Lib.Regex Lib.PyRegex Lib.Str Proofs.IdentSpec.
Import ListNotations.
Local Open Scope N_scope.

Definition old_name_regex : pyre :=
  {| body := Cat ((Cls [(97, 122); (65, 90); (48, 57); (95, 95); (45, 45)])) (Star (Cls [(97, 122); (65, 90); (48, 57); (95, 95); (45, 45)]));
     anchor := Dollar;
     meth := MMatch |}.

Definition old_task_identifier_regex : pyre :=
  {| body := Cat (Opt (Cat (Cls [(47, 47)]) (Cls [(47, 47)]))) (Cat (Cat (Star (Cat (Cat ((Cls [(97, 122); (65, 90); (48, 57); (95, 95); (45, 45)])) (Star (Cls [(97, 122); (65, 90); (48, 57); (95, 95); (45, 45)]))) (Cls [(47, 47)]))) (Opt (Cat ((Cls [(97, 122); (65, 90); (48, 57); (95, 95); (45, 45)])) (Star (Cls [(97, 122); (65, 90); (48, 57); (95, 95); (45, 45)]))))) (Cat (Cls [(58, 58)]) (Cat ((Cls [(97, 122); (65, 90); (48, 57); (95, 95); (45, 45)])) (Star (Cls [(97, 122); (65, 90); (48, 57); (95, 95); (45, 45)])))));
     anchor := Dollar;
     meth := MMatch |}.

Definition old_gc_experiment_task_regex : pyre :=
  {| body := Cat (Cat ((Cls [(97, 122); (65, 90); (48, 57); (95, 95); (45, 45)])) (Star (Cls [(97, 122); (65, 90); (48, 57); (95, 95); (45, 45)]))) (Cat (Cls [(46, 46)]) (Cat (Cls [(116, 116)]) (Cat (Cls [(97, 97)]) (Cat (Cls [(115, 115)]) (Cat (Cls [(107, 107)]) (Cat (Cls [(46, 46)]) (Cat (Cls [(49, 57)]) (Star (Cls [(48, 57)])))))))));
     anchor := Dollar;
     meth := MMatch |}.

Definition old_gc_regular_task_regex : pyre :=
  {| body := Cat (Cat ((Cls [(97, 122); (65, 90); (48, 57); (95, 95); (45, 45)])) (Star (Cls [(97, 122); (65, 90); (48, 57); (95, 95); (45, 45)]))) (Cat (Cls [(46, 46)]) (Cat (Cls [(116, 116)]) (Cat (Cls [(97, 97)]) (Cat (Cls [(115, 115)]) (Cls [(107, 107)])))));
     anchor := Dollar;
     meth := MMatch |}.

(* "a\n" is accepted as a task name although it is not made of letters, digits, '-', '_' *)
Theorem C20_name_refuted : exists s, py_match old_name_regex s = true /\ ~ DocName s.
Proof.
  exists [97; 10]. split; [vm_compute; reflexivity|].
  intros [_ H]. inversion H as [|x l Hx Hl]; subst. inversion Hl as [|y l' Hy _]; subst.
  vm_compute in Hy. discriminate.
Qed.

(* "//a:b\n" is accepted as a task identifier *)
Theorem C20_ident_refuted : exists s, py_match old_task_identifier_regex s = true /\ In 10 s.
Proof. exists [47; 47; 97; 58; 98; 10]. split; [vm_compute; reflexivity | simpl; tauto]. Qed.

(* D15: "x.task.5\n" is treated by `cond gc` as version 5 of task x *)
Theorem C13_gc_regex_refuted : exists s, py_match old_gc_experiment_task_regex s = true /\ In 10 s.
Proof. exists [120; 46; 116; 97; 115; 107; 46; 53; 10]. split; [vm_compute; reflexivity | simpl; tauto]. Qed.
