(* D23 -- record of the defect fixed by /repo f152043.  With ARCHIVE_STAGING = "archive-tmp" (the value
   before the fix) the staging directory of `cond restore`, cond-out/archive-tmp, IS a location of
   task outputs: the identifier //archive-tmp:e parses, and its version directories live below that
   very directory -- which every restore removes (shutil.rmtree) before extracting and again when
   it is done.  The statement C08_staging_is_no_output_location is false for that name. *)
From Coq Require Import List NArith Bool.
From Conductor Require Import Lib.Regex Lib.PyRegex Lib.Str Gen.Generated Model.Ident.
Import ListNotations.
Local Open Scope N_scope.

Definition old_staging : str := [97; 114; 99; 104; 105; 118; 101; 45; 116; 109; 112].   (* archive-tmp *)
Definition victim : str := [47; 47] ++ old_staging ++ [58; 101].                          (* //archive-tmp:e *)

Theorem C08_old_staging_refuted :
  exists i, from_str true victim = Some i /\ forall v, nth_error (out_path i v) 1 = Some old_staging.
Proof.
  exists {| ipath := [old_staging]; iname := [101] |}. split; [vm_compute; reflexivity|]. intros v. reflexivity.
Qed.
Print Assumptions C08_old_staging_refuted.
