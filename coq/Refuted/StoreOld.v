(* Machine-checked record of defect D8 (fixed in /repo by 784d6de "fix: never reuse the output
   directory of an earlier unrecorded execution").  Before the fix
   RunExperiment._create_new_version called generate_new_output_version exactly once:

       self._most_relevant_version = ctx.version_index.generate_new_output_version(commit=...)

   The generator is seeded from the COMMITTED rows only, so the directory left by a failed
   execution is invisible to it.  The model below is Model/Store.v with that allocator. *)
From Coq Require Import List NArith Bool.
From Conductor Require Import Lib.Str Model.Store Proofs.StoreSpec.
Import ListNotations.
Open Scope N_scope.

Definition alloc_once : allocator :=
  fun clock D t last tick => Some (gen_version last (clock tick), S tick).

Definition apply_old := apply_gen alloc_once.
Definition run_old := run_gen alloc_once.

Definition hd0 : head := (None, false).
(* invocation 1: experiment 1 starts, writes, exits 3 (no row).  invocation 2 (clock has not
   advanced -- same second, or stepped back): experiment 1 again, succeeds. *)
Definition witness : list label :=
  run_labels 0 hd0 [mk_spec 1 (true, true) true [CStart] 3 None]
  ++ run_labels 1 hd0 [mk_spec 1 (true, true) true [CStart; CDone] 0 None].
Definition stalled : nat -> N := fun _ => 1000.

Lemma witness_ok : Forall label_ok witness.
Proof. repeat constructor. Qed.

(* the recorded version 1000 of task 1 lives in the directory created for the failed execution 0
   and contains that execution's files *)
Theorem C08_fresh_refuted :
  exists clock ls, Forall label_ok ls /\
    let s := run_old clock ls init in
    exists r d, In r (s_rows s) /\ lookup (row_key r) (s_dirs s) = Some d /\
                d_owner d = 0 /\ In 0 (d_started d) /\ In 1 (d_started d) /\ d_rc d = Some 3.
Proof.
  exists stalled, witness. split; [exact witness_ok|].
  exists (mk_row 1 1000 hd0). eexists. vm_compute. repeat split; eauto.
Qed.

(* hence the invariant of C06 failed in the old code *)
Theorem C06_inv_refuted_old : exists clock ls, Forall label_ok ls /\ ~ Inv (run_old clock ls init).
Proof.
  exists stalled, witness. split; [exact witness_ok|].
  intros H. destruct (H (mk_row 1 1000 hd0)) as (d & Hl & Hg).
  - vm_compute. auto.
  - vm_compute in Hl. inversion Hl; subst d. destruct Hg as (_ & Hrc & _). vm_compute in Hrc. discriminate.
Qed.

(* the second invocation was handed an id that is not greater than ... nothing recorded, fine,
   but its directory existed before the operation started *)
Theorem C08_reuse_refuted :
  exists clock ls e o, Forall label_ok ls /\
    let s := run_old clock ls init in
    find_op e (ops_of s) = Some o /\ o_phase o = PPlanned /\ lookup (o_key o) (s_dirs s) <> None.
Proof.
  exists stalled, (firstn 13 witness), 1, (mk_op 1 1000 hd0 (true, true) 1 PPlanned).
  split; [repeat constructor|]. vm_compute. repeat split; discriminate.
Qed.

(* the repaired allocator on the same history moves on to 1001 *)
Example fixed_moves_on :
  map (fun r => (r_task r, r_ts r)) (s_rows (run stalled witness init)) = [(1, 1001)].
Proof. vm_compute. reflexivity. Qed.
