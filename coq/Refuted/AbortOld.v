(* The abort handling BEFORE the repair D35 (the signal handler raised wherever the interpreter was): at one point of the
   launch -- inside subprocess.Popen() after the fork -- the child exists and no handler knows it.  Kept as the record of
   the former known finding D7'. *)
From Coq Require Import List Arith Bool.
From Conductor Require Import Model.Loader Model.Planner Model.Exec.
Import ListNotations.

Inductive launch_point :=
| BeforeSpawn | InsidePopenAfterFork | AfterPopenReturned | ReturnedNotRegistered | Registered.

Inductive abort_point :=
| AtLoop (s : xstate)
| InLaunch (s : xstate) (o : nat) (lp : launch_point).

Definition live (pt : abort_point) : list nat :=
  match pt with
  | AtLoop s => map fst (procs s)
  | InLaunch s o BeforeSpawn => map fst (procs s)
  | InLaunch s o _ => map fst (procs s) ++ [o]
  end.

Definition killed (pt : abort_point) : list nat :=
  match pt with
  | AtLoop s => map fst (procs s)
  | InLaunch s o BeforeSpawn => map fst (procs s)
  | InLaunch s o InsidePopenAfterFork => map fst (procs s)         (* `process` still None: o is missed (D7') *)
  | InLaunch s o AfterPopenReturned => o :: map fst (procs s)
  | InLaunch s o ReturnedNotRegistered => map fst (procs s) ++ [o]
  | InLaunch s o Registered => map fst (procs s) ++ [o]
  end.

Theorem old_abort_missed_the_child_inside_popen : exists pt x, In x (live pt) /\ ~ In x (killed pt).
Proof.
  exists (InLaunch (xinit {| p_ops := []; p_initial := []; p_cached := []; p_num := 0 |} 1) 0 InsidePopenAfterFork), 0.
  simpl. split; [auto | tauto].
Qed.
