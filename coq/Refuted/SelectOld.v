(* Machine-checked record of defect D14 (fixed in /repo by fa13bf2 "fix: --at-least resolves its
   argument to a commit (annotated tags are peeled)").

   Before the fix Git.rev_parse ran `git rev-parse <symbol>`, which for an ANNOTATED tag prints
   the id of the tag object, not of the commit it points to.  The code of cli/run.py and of
   RunExperiment.should_run is the same before and after the fix (Model/Select.v); what changed
   is the function the Section variable [rev_parse] stands for.  git's own commands peel tags
   (`merge-base --is-ancestor <tag object> X` answers for the tagged commit), so:
     - the ancestor check of main() passes (the tagged commit is an ancestor of HEAD),
     - in should_run the comparison `commit_hash == at_least_commit` is between a commit id and a
       tag-object id and fails,
     - is_ancestor(at_least, commit_hash) peels and is reflexive => "older" => the task re-runs,
   although its cached version was recorded exactly at the tagged commit. *)
From Coq Require Import List NArith Bool.
From Conductor Require Import Lib.Str Model.Select.
Import ListNotations.
Open Scope N_scope.

(* a history with one commit (id 1) and one annotated tag "v1" whose tag object has id 100 *)
Definition peel (o : cid) : cid := if o =? 100 then 1 else o.
Definition git_is_ancestor (commit candidate : cid) : bool :=
  (peel commit =? 1) && (peel candidate =? 1).
Definition git_distance (_ _ : cid) : N := 0.

Definition TAG : str := [118; 49].
(* `git rev-parse <symbol>` / `git rev-parse --verify <symbol>^{commit}` *)
Definition old_rev_parse (s : str) : option cid :=
  if str_eqb s TAG then Some 100 else if str_eqb s HEAD_SYM then Some 1 else None.
Definition new_rev_parse (s : str) : option cid := option_map peel (old_rev_parse s).

Definition recorded : list version := [ {| ts := 5; commit := Some 1; dirty := false |} ].
Definition at_least_tag : flags := {| f_again := false; f_at_least := Some TAG; f_this_commit := false |}.

Theorem C05_at_least_tagobj_refuted :
  (* the cached version is selected and was recorded exactly at the commit the tag names *)
  (exists v, select git_is_ancestor git_distance (Head 1) recorded = Some v
             /\ commit v = new_rev_parse TAG)
  (* pre-fix: `cond run --at-least v1` runs the task again *)
  /\ cond_run_executes git_is_ancestor git_distance old_rev_parse at_least_tag (Head 1) recorded = Some true
  (* post-fix: it uses the cached version *)
  /\ cond_run_executes git_is_ancestor git_distance new_rev_parse at_least_tag (Head 1) recorded = Some false.
Proof.
  split; [eexists; split; vm_compute; reflexivity|].
  split; vm_compute; reflexivity.
Qed.
Print Assumptions C05_at_least_tagobj_refuted.
