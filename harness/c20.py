"""C20 -- identifiers: grammar, canonical form, distinct output locations.

proofs : coq/Props/C20.v over the patterns regenerated from the source.
tie    : (a) Gen/Generated.v (exact, regenerated); (b) exhaustive correspondence of
         Model/Ident.v with TaskIdentifier / filename.task_output_dir over every string on nine
         symbol classes up to length 5 (quick) / 7 (thorough).
oracle : the documented grammar re-implemented independently in Python (doc_name/doc_ident),
         round trip, and output-path collisions, evaluated on the implementation.
"""
import pathlib
import string

from common import Check, cstr, clist, setup_impl_path, ser_str, ser_list, ser_opt, ser_bool, pack, run_packed_cases

ALPHA = ["a", "-", "_", "1", "/", ":", ".", "\n", " "]
ALPHA2 = ["a", "\u00e9", "\u00b2", "\u212a", "\u0663", ":", "/"]   # e-acute, superscript two, Kelvin sign, Arabic-Indic digit three
VERSION_TS = 1700000123
IDC = set(string.ascii_letters + string.digits + "-_")


def strings_upto(alpha, n):
    if n == 0:
        return [""]
    sub = strings_upto(alpha, n - 1)
    return [""] + [c + s for c in alpha for s in sub]


# ----- the documented grammar, written from website/docs (independent of the source patterns)
def doc_name(s):
    return len(s) > 0 and all(c in IDC for c in s)


def doc_ident(s, req):
    pfx = s.startswith("//")
    if req and not pfx:
        return None
    body = s[2:] if pfx else s
    if body.count(":") != 1:
        return None
    p, n = body.split(":")
    if not doc_name(n):
        return None
    segs = p.split("/")
    if not all(doc_name(g) for g in segs[:-1]):
        return None
    if not (segs[-1] == "" or doc_name(segs[-1])):
        return None
    return (tuple(g for g in segs if g), n)


def doc_rel(s):
    if s.startswith(":") and doc_name(s[1:]):
        return (("d",), s[1:])
    return None


class Impl:
    def __init__(self):
        setup_impl_path()
        import conductor.config as cfg
        import conductor.filename as fn
        from conductor.errors import InvalidTaskIdentifier
        from conductor.execution.version_index import Version
        from conductor.task_identifier import TaskIdentifier

        self.T = TaskIdentifier
        self.Err = InvalidTaskIdentifier
        self.fn = fn
        self.cfg = cfg
        self.version = Version(VERSION_TS, None, False)
        self.dir = pathlib.Path("d")

    def describe(self, ident):
        """(path parts, name, repr, out path parts without / with version)"""
        out0 = pathlib.Path(self.cfg.OUTPUT_DIR) / pathlib.Path(ident.path, self.fn.task_output_dir(ident))
        out1 = pathlib.Path(self.cfg.OUTPUT_DIR) / pathlib.Path(ident.path, self.fn.task_output_dir(ident, self.version))
        return (tuple(ident.path.parts), ident.name, repr(ident), tuple(out0.parts), tuple(out1.parts))

    def row(self, s):
        nv = bool(self.T.is_name_valid(s))
        res = []
        for f in (
            lambda: self.T.from_str(s),
            lambda: self.T.from_str(s, require_prefix=False),
            lambda: self.T.from_relative_str(s, self.dir),
        ):
            try:
                res.append(self.describe(f()))
            except self.Err:
                res.append(None)
        return (s, nv, res[0], res[1], res[2])


def ser_desc(d):
    path, name, rep, o0, o1 = d
    return ser_list(ser_str, path) + ser_str(name) + ser_str(rep) + ser_list(ser_str, o0) + ser_list(ser_str, o1)


def pack_row(r):
    s, nv, a, b, c = r
    return pack(ser_str(s) + ser_bool(nv) + ser_opt(ser_desc, a) + ser_opt(ser_desc, b) + ser_opt(ser_desc, c))


IMPORTS = "From Conductor Require Import Lib.Str Lib.Cmp Model.Ident."
DEFS = """Definition alpha : list N := %(alpha)s.
Definition all : list str := %(all)s.
Definition ser_ident (i : ident) : list N :=
  ser_list ser_str (ipath i) ++ ser_str (iname i) ++ ser_str (ident_repr i)
  ++ ser_list ser_str (out_path i None) ++ ser_list ser_str (out_path i (Some %(ts)d)).
Definition is_some {A} (o : option A) := match o with Some _ => true | None => false end.
Definition interesting (s : str) : bool :=
  is_name_valid s || is_some (from_str true s) || is_some (from_str false s) || is_some (from_relative_str s [[100]]).
Definition row (s : str) : N :=
  pack (ser_str s ++ ser_bool (is_name_valid s) ++ ser_opt ser_ident (from_str true s)
        ++ ser_opt ser_ident (from_str false s) ++ ser_opt ser_ident (from_relative_str s [[100]])).
"""


def interesting(r):
    return r[1] or r[2] is not None or r[3] is not None or r[4] is not None


def run(tier, seed, replay=None):
    chk = Check("C20", tier, seed)
    chk.build_proofs(["Model/Ident.vo", "Lib/Cmp.vo"])
    impl = Impl()

    if replay is not None:
        s = replay["input"]["string"]
        r = impl.row(s)
        print("replay: string=%r impl=%r doc_name=%r doc_ident(req)=%r doc_ident(noreq)=%r doc_rel=%r"
              % (s, r, doc_name(s), doc_ident(s, True), doc_ident(s, False), doc_rel(s)))
        oracle_one(chk, impl, r)
        return chk.finish()

    depth = 5 if tier == "quick" else 7
    # shards: (prefix list, inner depth)
    if tier == "quick":
        shards = [(ALPHA, [""], 0)] + [(ALPHA, [a], depth - 1) for a in ALPHA]
    else:
        singles = strings_upto(ALPHA, 1)
        shards = [(ALPHA, singles, 0)] + [(ALPHA, [a + b], depth - 2) for a in ALPHA for b in ALPHA]
    # runs of slashes in front (the optional prefix is exactly `//`): every continuation up to 3 more symbols (seed C20/m consumed the prefix twice:
    # `////lib:build` was accepted; the shortest such string has 6 symbols, beyond the quick tier's exhaustive length)
    shards.append((ALPHA, ["//", "///", "////", "/////", "//////"], 3 if tier == "quick" else 4))
    # non-ASCII letters, digits and look-alikes (outside the documented alphabet: must all be rejected)
    shards.append((ALPHA2, [""], 4 if tier == "quick" else 5))

    files = []
    seen_out = {}
    total = 0
    n_inter = 0
    lens = {}
    for k, (alpha, prefixes, d) in enumerate(shards):
        subs = strings_upto(alpha, d)
        strs = [p + t for p in prefixes for t in subs]
        total += len(strs)
        rows = []
        for s in strs:
            r = impl.row(s)
            lens[len(s)] = lens.get(len(s), 0) + 1
            if interesting(r) or doc_name(s) or doc_ident(s, False) or doc_rel(s):
                oracle_one(chk, impl, r, seen_out)
            if interesting(r):
                rows.append(r)
                n_inter += 1
                chk.sample({"string": s, "impl": [r[1], r[2] and r[2][2], r[3] and r[3][2], r[4] and r[4][2]]}) if len(s) >= 4 else None
        if d == 0:
            all_expr = clist([cstr(s) for s in strs])
        else:
            all_expr = "flat_map (fun p => map (app p) (strings_upto alpha %d%%nat)) %s" % (d, clist([cstr(p) for p in prefixes]))
        defs = DEFS % {"alpha": clist([str(ord(c)) for c in alpha]), "all": all_expr, "ts": VERSION_TS}
        files.append((defs, [pack_row(r) for r in rows], rows, len(strs)))
    chk.coverage["evaluations"] = total
    chk.coverage["distinct_nontrivial"] = n_inter
    chk.coverage["exhaustive"] = True
    chk.coverage["rule"] = (
        "every string over the symbol classes %r up to length %d, evaluated on is_name_valid, from_str (both prefix modes), "
        "from_relative_str, repr and the output path (without / with a version) on the implementation and on the Coq model; "
        "non-trivial = accepted by at least one of the four functions; plus every string over %r (non-ASCII letters and digits) up to length %d; plus "
        "multi-directory projects in which the same relative dependency string occurs in several COND files" % (ALPHA, depth, ALPHA2, 4 if tier == "quick" else 5)
    )
    relative_resolution(chk)
    equal_identifiers_are_one_key(chk)
    lookalike_identifiers_keep_their_own_versions(chk)
    names_in_declarations(chk, tier)
    identifiers_on_the_command_line(chk, tier)
    where_from_inside_a_task(chk)
    chk.coverage["distribution"]["length"] = {str(k): v for k, v in sorted(lens.items())}

    if chk.coq.model_ok:
        agree = 0
        for k, (defs, want, rows, nstr) in enumerate(files):
            # one coqc per shard, all shards in parallel
            pass
        import concurrent.futures
        from common import NCPU

        def one(item):
            defs, want, rows, nstr = item
            return run_packed_cases(IMPORTS, defs, ["map row (filter interesting all)"], [want])[0]

        with concurrent.futures.ThreadPoolExecutor(max_workers=NCPU) as ex:
            results = list(ex.map(one, files))
        for (defs, want, rows, nstr), (ok, bad, raw) in zip(files, results):
            if not ok:
                chk.violation("correspondence", "model evaluation failed: %s" % raw[-300:], {"theorem_or_tie": "correspondence Model/Ident.v", "coq_output": raw}, found_input=False)
            elif bad:
                i = bad[0]
                r = rows[i] if i < len(rows) else None
                chk.violation(
                    "correspondence",
                    "Model/Ident.v and task_identifier.py disagree at accepted-string #%d: %r" % (i, r),
                    {"theorem_or_tie": "correspondence Model/Ident.v vs conductor/task_identifier.py", "input": {"string": r[0] if r else None}, "impl_observation": r, "mismatching_indices": bad[:20]},
                    found_input=False,
                )
            else:
                agree += nstr
        chk.coverage["traces_validated_against_impl"] = agree
        chk.coverage["disagreements_checked"] = total
    else:
        chk.violation("correspondence", "model does not build: " + chk.coq.log[-400:], {"theorem_or_tie": "build of Model/Ident.vo", "log": chk.coq.log[-3000:]}, found_input=False)
    return chk.finish()


def names_in_declarations(chk, tier):
    """the name grammar at every place a task name is DECLARED: run_command, run_experiment, group, combine, the name of
    a run_experiment_group and the names of its instances -- every string over the symbol classes up to length 2 (3 when
    thorough) plus special ones; accepted iff the documented grammar accepts the name (real TaskIndex, real files)"""
    import implrun
    import pathlib
    from conductor.errors import ConductorError
    from conductor.parsing.task_index import TaskIndex
    from conductor.task_identifier import TaskIdentifier

    names = strings_upto(ALPHA, 2 if tier == "quick" else 3) + ["bad name", "sub/x", "v1.2", "a:b", "x\n", "caf\u00e9", "..", "x.task.1", "ok-1_2", "A", "9", "-", "_x"]
    forms = {
        "run_command": 'run_command(name=%s, run="true")\n',
        "run_experiment": 'run_experiment(name=%s, run="true")\n',
        "group": 'group(name=%s, deps=[":ok"])\n',
        "combine": 'combine(name=%s, deps=[":ok"])\n',
        "run_experiment_group": 'run_experiment_group(name=%s, run="true", experiments=[ExperimentInstance(name="i1")])\n',
        "ExperimentInstance": 'run_experiment_group(name="grp", run="true", experiments=[ExperimentInstance(name=%s)])\n',
    }
    for form, tmpl in forms.items():
        for nm in names:
            if nm in ("ok", "i1", "grp"):
                continue
            root = implrun.make_project({"COND": 'run_command(name="ok", run="true")\n' + tmpl % repr(nm)})
            idx = TaskIndex(pathlib.Path(root))
            try:
                idx.load_transitive_closure(TaskIdentifier.from_str("//:ok"))
                accepted = True
            except ConductorError:
                accepted = False
            except Exception as e:  # pylint: disable=broad-except
                accepted = "raised %s" % type(e).__name__
            chk.coverage["evaluations"] += 1
            want = doc_name(nm)
            chk.count("declared-names", "%s %s" % (form, "valid" if want else "invalid"))
            if accepted is not want:
                chk.violation("impl-violation", "%s declared with name %r was %s, the documented grammar %s it" % (form, nm, "accepted" if accepted is True else ("rejected" if accepted is False else accepted), "accepts" if want else "rejects"),
                              {"input": {"part": "declared-names", "form": form, "string": nm}, "impl_observation": accepted, "oracle_verdict": want}, match_key={"declared": form}, size=len(nm))


def equal_identifiers_are_one_key(chk):
    """"an identifier has one canonical form": every spelling of an identifier (optional //, a slash after the package
    path, doubled spellings through from_relative_str / relative_with_name) gives objects that are equal, print alike,
    HASH alike and find each other in dictionaries and sets -- the loader's visited sets, the planner's tables and the
    version look-ups are keyed by these objects; and identifiers that differ are different keys.  (Seed C01/j cached the
    hash of the spelling.)"""
    import pathlib
    from conductor.task_identifier import TaskIdentifier

    groups = {
        ("", "t"): ["//:t", ":t"],
        ("data", "prep"): ["//data:prep", "//data/:prep", "data:prep", "data/:prep"],
        ("a/b", "n-1"): ["//a/b:n-1", "//a/b/:n-1", "a/b:n-1", "a/b/:n-1"],
        ("a", "b"): ["//a:b", "a/:b"],
        ("A", "b"): ["//A:b"],
        ("a", "B"): ["//a:B"],
        ("a_b", "c"): ["//a_b:c"],
        ("a-b", "c"): ["//a-b:c"],
    }
    objs = []
    for (path, name), spellings in groups.items():
        for sp in spellings:
            objs.append(((path, name), sp, TaskIdentifier.from_str(sp, require_prefix=False)))
        objs.append(((path, name), "relative :%s in %r" % (name, path), TaskIdentifier.from_relative_str(":" + name, pathlib.Path(path))))
        objs.append(((path, name), "relative_with_name", TaskIdentifier.from_str("//%s:zz" % path).relative_with_name(name)))
        objs.append(((path, name), "constructor", TaskIdentifier(pathlib.Path(path), name)))
    for i, (ka, sa, a) in enumerate(objs):
        for kb, sb, b in objs[i:]:
            chk.coverage["evaluations"] += 1
            same = ka == kb
            table, members = {a: sa}, {a}
            msg = None
            if (a == b) != same:
                msg = "== says %s" % (a == b)
            elif same and (hash(a) != hash(b) or repr(a) != repr(b) or str(a) != str(b)):
                msg = "they are equal but hash / print differently (%r vs %r)" % (repr(a), repr(b))
            elif same and (table.get(b) != sa or b not in members):
                msg = "they are equal but one does not find the other in a dict / set"
            elif not same and (b in members or b in table):
                msg = "they differ but one is found under the other's key"
            if msg:
                chk.violation("impl-violation", "TaskIdentifier %s (%r) and %s (%r): %s" % (sa, ka, sb, kb, msg),
                              {"input": {"part": "one-key", "a": sa, "b": sb}, "impl_observation": msg}, match_key={"part": "one-key"}, size=2)
    chk.count("one-key", "pairs", len(objs) * (len(objs) + 1) // 2)


def lookalike_identifiers_keep_their_own_versions(chk):
    """"two different identifiers ... never map to the same output directory" -- and never to each other's VERSIONS: names
    that differ only in `-` / `_` or only in case (`sweep-1`, `sweep_1`, `Sweep-1`) are different tasks.  One of them has a
    recorded version; the others have none: `cond where` finds nothing for them, a dependent makes them run (and is handed
    THEIR new directory), the index records them under their own identifiers, and an archive of one holds only its own
    versions.  With and without git (the selection reads the index through different queries).  (Seeds C20/k and C02/k:
    the per-task queries matched the identifier with SQL LIKE, where `_` is a wildcard and ASCII case is folded.)"""
    import os
    import sqlite3
    import subprocess
    import implrun
    import archive_util as au
    import select_util

    env = dict(os.environ, **select_util.GIT_ENV)
    for use_git in (True, False):
        files = {"COND": "".join('run_experiment(name="%s", run="echo %s > $COND_OUT/r")\n' % (n, n) for n in ("sweep-1", "sweep_1", "Sweep-1"))
                         + 'run_command(name="report", run="printf %s \\"$COND_DEPS\\" > $COND_OUT/deps.txt", deps=[":sweep_1"])\n', ".gitignore": "cond-out\n"}
        root = implrun.make_project(files, git=use_git)
        if use_git:
            for a in (("init", "-q", "-b", "main"), ("add", "-A"), ("commit", "-q", "-m", "c0")):
                subprocess.run(["git"] + list(a), cwd=root, env=env, check=True, capture_output=True)
        out = os.path.join(root, "cond-out")
        r1 = implrun.run_cond(["run", "//:sweep-1"], root, env=env)
        problems = []
        if r1.code != 0:
            problems.append("harness: `cond run //:sweep-1` exited %s" % r1.code)
        for other in ("//:sweep_1", "//:Sweep-1"):
            w = implrun.run_cond(["where", other], root, env=env)
            chk.coverage["evaluations"] += 1
            if w.code == 0:
                problems.append("`cond where %s` reports %s although only //:sweep-1 has a version" % (other, implrun.strip_ansi(w.out).strip()))
        r2 = implrun.run_cond(["run", "//:report"], root, env=env)
        chk.coverage["evaluations"] += 1
        dirs = sorted(d for d in os.listdir(out) if ".task." in d) if os.path.isdir(out) else []
        mine = [d for d in dirs if d.startswith("sweep_1.task.")]
        dp = os.path.join(out, "report.task", "deps.txt")
        deps = open(dp).read() if os.path.exists(dp) else None
        if r2.code != 0 or len(mine) != 1 or deps != os.path.join(out, mine[0] if mine else "?"):
            problems.append("`cond run //:report` (deps=[':sweep_1']) exited %s; outputs of //:sweep_1: %r; COND_DEPS of //:report: %r" % (r2.code, mine, deps))
        tasks = sorted({r[0] for r in implrun.index_rows(root)})
        if tasks != ["//:sweep-1", "//:sweep_1"]:
            problems.append("the index records versions of %r, the experiments that ran are ['//:sweep-1', '//:sweep_1']" % tasks)
        apath = os.path.join(os.path.dirname(root), "one.tar.gz")
        a = implrun.run_cond(["archive", "//:sweep_1", "-o", apath], root, env=env)
        chk.coverage["evaluations"] += 1
        if a.code == 0 and os.path.isfile(apath):
            d = au.unpack(apath)
            atasks = sorted({r[0] for r in au.raw_rows(os.path.join(d, au.AINDEX))})
            adirs = sorted(x for x in os.listdir(d) if ".task." in x)
            if atasks != ["//:sweep_1"] or any(not x.startswith("sweep_1.task.") for x in adirs):
                problems.append("`cond archive //:sweep_1` holds versions of %r (directories %r)" % (atasks, adirs))
        elif not problems:
            problems.append("`cond archive //:sweep_1` failed: exit %s %s" % (a.code, implrun.strip_ansi(a.err)[-160:]))
        chk.count("lookalike", "git" if use_git else "no git")
        for msg in problems[:2]:
            chk.violation("impl-violation", "look-alike identifiers (%s): %s" % ("git project" if use_git else "no git", msg),
                          {"input": {"part": "lookalike", "git": use_git, "files": files}, "oracle_verdict": msg}, match_key={"part": "lookalike"}, size=3)
        if not problems:
            chk.coverage["traces_validated_against_impl"] = chk.coverage.get("traces_validated_against_impl", 0) + 4


def identifiers_on_the_command_line(chk, tier):
    """the grammar at the user-facing entry points: a string given to `cond run --check` / `cond where -f` is accepted iff
    the documented identifier grammar (prefix optional there) accepts it -- look-alikes padded with white space or control
    characters included"""
    import implrun

    import os

    root = implrun.make_project({"COND": 'run_experiment(name="ok", run="echo 1 > $COND_OUT/r")\n', "p/COND": 'run_experiment(name="t", run="echo 2 > $COND_OUT/r")\n'})
    for t in ("//:ok", "//p:t"):      # recorded versions, so that `cond archive <valid identifier>` has something to archive
        r0 = implrun.run_cond(["run", t], root, timeout=60)
        if r0.code != 0:
            chk.violation("correspondence", "harness: identifiers_on_the_command_line: `cond run %s` failed: %s" % (t, implrun.strip_ansi(r0.out + r0.err)[-300:]), {"theorem_or_tie": "scenario set-up"}, found_input=False)
            return
    pads = ["\n", " ", "\t", "\r", "\x0b", "\x0c", "\x1c", "\x85", "\xa0", "\u2003"]
    cands = ["//:ok", ":ok", "//p:t", "p:t"]
    cands += ["//:ok" + c for c in pads[: (4 if tier == "quick" else len(pads))]] + [c + "//:ok" for c in pads[: (3 if tier == "quick" else len(pads))]]
    cands += ["//p:t" + pads[0], " p:t", "//p:t ", "//:ok\n\n", "//:o k", "//:", "ok", "//p/:t", "//p//:t", "", " ", "//", ":", "////:ok", "////p:t", "///p:t", "/p:t"]
    for k, s in enumerate(cands):
        want = doc_ident(s, False) is not None
        arch = "arch-%d.tar.gz" % k
        for argv in (["run", "--check", s], ["where", "-f", s], ["archive", s, "-o", arch]):
            r = implrun.run_cond(argv, root, timeout=60)
            chk.coverage["evaluations"] += 1
            chk.count("cli-identifiers", "valid" if want else "invalid")
            accepted = r.code == 0
            made = os.path.exists(os.path.join(root, arch))
            if made:
                os.unlink(os.path.join(root, arch))
            if accepted != bool(want) or (made and not want):
                chk.violation("impl-violation", "`cond %s` with the string %r in the identifier position was %s%s, the documented identifier grammar %s the string"
                              % (argv[0] + (" --check" if argv[0] == "run" else " -f" if argv[0] == "where" else ""), s, "accepted" if accepted else "rejected",
                                 " and an archive was written" if made else "", "accepts" if want else "rejects"),
                              {"input": {"part": "cli-identifiers", "string": s, "argv": argv}, "impl_observation": {"exit": r.code, "stderr": implrun.strip_ansi(r.err)[-300:]}, "oracle_verdict": bool(want)},
                              match_key={"cli-identifier": argv[0]}, size=len(s))


def where_from_inside_a_task(chk):
    """`cond where -f X` (conductor.lib.where) answered from INSIDE a running task -- the process has inherited that task's
    COND_NAME / COND_OUT -- must be what a plain shell gets, for every X; in particular same-named tasks of different
    packages (//foo:build, //bar:build, //:build) keep their own, pairwise different, locations."""
    import implrun

    ids = ["//foo:build", "//bar:build", "//:build"]
    files = {"COND": 'run_command(name="build", run="echo root > $COND_OUT/o")\ngroup(name="all", deps=["//foo:build", "//bar:build", ":build"])\n',
             "foo/COND": 'run_command(name="build", run="echo foo > $COND_OUT/o")\n', "bar/COND": 'run_experiment(name="build", run="echo bar > $COND_OUT/o")\n'}
    root = implrun.make_project(files)
    r0 = implrun.run_cond(["run", "//:all"], root, timeout=60)
    if r0.code != 0:
        chk.violation("correspondence", "harness: where_from_inside_a_task: the project did not run: %s" % implrun.strip_ansi(r0.out + r0.err)[-300:], {"theorem_or_tie": "scenario set-up"}, found_input=False)
        return
    plain = {x: implrun.run_cond(["where", "-f", x], root, timeout=60) for x in ids}
    answers = {x: (r.code, r.out.strip()) for x, r in plain.items()}
    if len({a for a in answers.values()}) != len(ids) or any(c != 0 for c, _ in answers.values()):
        chk.violation("impl-violation", "different identifiers do not have pairwise different locations: %r" % answers,
                      {"input": {"part": "where-inside-task", "files": files}, "impl_observation": answers}, match_key={"where": "plain"}, size=3)
    for inside in ids:
        code, loc = answers[inside]
        if code != 0 or not loc:
            continue
        env = {"COND_NAME": "build", "COND_OUT": loc, "COND_DEPS": ""}
        for x in ids:
            r = implrun.run_cond(["where", "-f", x], root, env=env, timeout=60)
            chk.coverage["evaluations"] += 1
            chk.count("where-inside-task", "asked")
            if (r.code, r.out.strip()) != answers[x]:
                chk.violation("impl-violation", "`cond where -f %s` answers %r from inside the running task %s (COND_NAME=build, COND_OUT=%s) but %r from a shell"
                              % (x, (r.code, r.out.strip()), inside, loc, answers[x]),
                              {"input": {"part": "where-inside-task", "files": files, "inside": inside, "asked": x, "env": env}, "impl_observation": {"inside": [r.code, r.out.strip()], "shell": list(answers[x])},
                               "oracle_verdict": "the location of a task does not depend on who asks"}, match_key={"where": "inside-task"}, size=3)
            else:
                chk.coverage["traces_validated_against_impl"] = chk.coverage.get("traces_validated_against_impl", 0) + 1


def relative_resolution(chk):
    """':name' dependencies resolve against the directory of the COND file that lists them -- also when the
    same relative string occurs in several COND files of one invocation (real TaskIndex, real files)"""
    import implrun
    import pathlib
    from conductor.parsing.task_index import TaskIndex
    from conductor.task_identifier import TaskIdentifier

    dirs = ["alpha", "beta", "alpha/deep", ""]
    for order, shared in ((dirs, False), (list(reversed(dirs)), False), (dirs, True), (list(reversed(dirs)), True)):
        files = {}
        if shared:
            # the dependency list itself lives in ONE included file: every including COND file sees the same list object
            files["shared/deps.cond"] = 'DEPS = [":setup"]\n'
        for d in dirs:
            if shared:
                files[(d + "/" if d else "") + "COND"] = 'include("//shared/deps.cond")\nrun_command(name="setup", run="true")\nrun_command(name="run", run="true", deps=DEPS)\n'
            else:
                files[(d + "/" if d else "") + "COND"] = 'run_command(name="setup", run="true")\nrun_command(name="run", run="true", deps=[":setup"])\n'
        deps = ", ".join('"//%s:run"' % d for d in order)
        files["top/COND"] = 'run_command(name="all", run="true", deps=[%s])\n' % deps
        root = implrun.make_project(files)
        idx = TaskIndex(pathlib.Path(root))
        idx.load_transitive_closure(TaskIdentifier.from_str("//top:all"))
        chk.coverage["evaluations"] += 1
        for d in dirs:
            t = idx.get_task(TaskIdentifier.from_str("//%s:run" % d))
            got = [str(x) for x in t.deps]
            want = ["//%s:setup" % d]
            if got != want:
                chk.violation("impl-violation", "the dependency ':setup' listed in %s/COND resolved to %s instead of %s" % (d or ".", got, want),
                              {"input": {"files": files, "load": "//top:all"}, "impl_observation": got, "oracle_verdict": "':name' resolves against the listing file's directory"},
                              match_key={"relative": ":setup"}, size=len(order))


def oracle_one(chk, impl, r, seen_out=None):
    """the property itself, evaluated on the implementation"""
    s, nv, ft, ff, fr = r

    def bad(what, **extra):
        chk.violation(
            "impl-violation",
            "%s for %r" % (what, s),
            dict({"input": {"string": s}, "impl_observation": {"is_name_valid": nv, "from_str": ft, "from_str_noprefix": ff, "from_relative_str": fr},
                  "oracle_verdict": what}, **extra),
            match_key={"string": s},
            size=len(s),
        )

    if nv != doc_name(s):
        bad("is_name_valid=%s but the documented grammar says %s" % (nv, doc_name(s)))
    for got, exp, nm in ((ft, doc_ident(s, True), "from_str"), (ff, doc_ident(s, False), "from_str(require_prefix=False)"), (fr, doc_rel(s), "from_relative_str")):
        g = None if got is None else (got[0], got[1])
        if g != exp:
            bad("%s gives %r but the documented grammar gives %r" % (nm, g, exp))
        if got is not None:
            # print -> parse round trip
            try:
                again = impl.T.from_str(got[2])
                ok = tuple(again.path.parts) == got[0] and again.name == got[1]
            except impl.Err:
                ok = False
            if not ok:
                bad("printing the parsed identifier (%r) and parsing it again does not give it back" % (got[2],))
            if seen_out is not None:
                for v, out in ((None, got[3]), (VERSION_TS, got[4])):
                    key = (got[0], got[1], v)
                    prev = seen_out.setdefault(out, key)
                    if prev != key:
                        bad("output directory %r is shared by %r and %r" % (out, prev, key))
