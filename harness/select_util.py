"""Helpers of the C05 check: commit graphs (pure Python reachability), real git repositories,
stub context objects for the real RunExperiment / cli.run code, and the documented rule written
independently of the code (the oracle)."""
import os
import subprocess

GIT_ENV = {
    "GIT_AUTHOR_NAME": "verif",
    "GIT_AUTHOR_EMAIL": "verif@example.invalid",
    "GIT_COMMITTER_NAME": "verif",
    "GIT_COMMITTER_EMAIL": "verif@example.invalid",
    "GIT_CONFIG_GLOBAL": "/dev/null",
    "GIT_CONFIG_NOSYSTEM": "1",
    "GIT_AUTHOR_DATE": "2024-01-01T00:00:00Z",
    "GIT_COMMITTER_DATE": "2024-01-01T00:00:00Z",
    "GIT_TERMINAL_PROMPT": "0",
}
EMPTY_TREE = "4b825dc642cb6eb9a060e54bf8d69288fbee4904"
UNKNOWN_SHA = "deadbeef" * 5


INHERITED_GIT_VARS = ("GIT_DIR", "GIT_WORK_TREE", "GIT_INDEX_FILE", "GIT_OBJECT_DIRECTORY", "GIT_CEILING_DIRECTORIES", "GIT_NAMESPACE", "GIT_COMMON_DIR")


def setup_git_env():
    for v in INHERITED_GIT_VARS:      # e.g. when ./check is started from a git hook
        os.environ.pop(v, None)
    os.environ.update(GIT_ENV)


# ----------------------------------------------------------------------------- commit graphs
class Dag:
    """commits 0..n-1 in creation order; parents[i] = list of earlier commits"""

    def __init__(self, parents):
        self.parents = [list(p) for p in parents]
        self._reach = None

    def reach(self, c):
        if self._reach is None:
            self._reach = []
            for i, ps in enumerate(self.parents):
                s = {i}
                for p in ps:
                    s |= self._reach[p]
                self._reach.append(frozenset(s))
        return self._reach[c]

    def is_ancestor(self, commit, candidate):
        """candidate is an ancestor of (or equal to) commit"""
        if commit is None or candidate is None:
            return False
        return candidate in self.reach(commit)

    def distance(self, start, c):
        """number of commits reachable from start and not from c"""
        return len(self.reach(start) - self.reach(c))

    def shape(self):
        merges = sum(1 for p in self.parents if len(p) >= 2)
        roots = sum(1 for p in self.parents if not p)
        return "n%d-m%d-r%d" % (len(self.parents), merges, roots)

    def coq(self):
        """Coq literal of type dag (ids are index+1)"""
        return "[" + "; ".join("(%d, [%s])" % (i + 1, "; ".join(str(p + 1) for p in ps)) for i, ps in enumerate(self.parents)) + "]"


def random_dag(rng, n, p_merge=0.3, p_root=0.08):
    parents = []
    for i in range(n):
        if i == 0 or rng.random() < p_root:
            parents.append([])
        elif i >= 2 and rng.random() < p_merge:
            k = 2 if rng.random() < 0.85 or i < 3 else 3
            parents.append(sorted(rng.sample(range(i), k)))
        else:
            # bias towards recent commits (chains) with occasional branching from old ones
            parents.append([i - 1 if rng.random() < 0.55 else rng.randrange(i)])
    return Dag(parents)


def git(root, *args, check=True, inp=None):
    p = subprocess.run(["git"] + list(args), cwd=root, capture_output=True, text=True, input=inp, check=False)
    if check and p.returncode != 0:
        raise RuntimeError("git %s failed: %s" % (" ".join(args), p.stderr))
    return p


def build_git_dag(root, dag):
    """create the commits of dag in the repository at root with plumbing (real commit objects,
    arbitrary parents); returns the list of hashes"""
    os.makedirs(root, exist_ok=True)
    git(root, "init", "-q", "-b", "main")
    tree = git(root, "hash-object", "-t", "tree", "-w", "--stdin", inp="").stdout.strip()
    assert tree == EMPTY_TREE, tree
    shas = []
    for i, ps in enumerate(dag.parents):
        args = ["commit-tree", tree, "-m", "c%d" % i]
        for p in ps:
            args += ["-p", shas[p]]
        shas.append(git(root, *args).stdout.strip())
    return shas


# ----------------------------------------------------------------------------- oracle
class V:
    """a recorded version as the oracle sees it"""

    def __init__(self, ts, commit, dirty=False):
        self.ts = ts
        self.commit = commit
        self.dirty = dirty

    def key(self):
        return (self.ts, self.commit, self.dirty)

    def __repr__(self):
        return "V(%r,%r)" % (self.ts, self.commit)


def oracle_select(mode, vs, anc, dist):
    """The documented rule (run-experiment.md, Versioning and Caching Semantics), as a statement
    about the set of versions.  mode: 'nogit' | 'nocommits' | 'head'.  anc(c) / dist(c) are
    relative to HEAD.  Only meaningful for pairwise distinct timestamps."""
    if not vs:
        return None
    if mode != "head":
        return max(vs, key=lambda v: v.ts)
    compatible = [v for v in vs if v.commit is not None and anc(v.commit)]
    if compatible:
        closest = min(dist(v.commit) for v in compatible)
        return max((v for v in compatible if dist(v.commit) == closest), key=lambda v: v.ts)
    if all(v.commit is None for v in vs):
        return max(vs, key=lambda v: v.ts)  # behaviour of v0.4.0 and older, kept on purpose
    return None


def oracle_rerun(sel, at_least, is_anc):
    """--at-least C: re-run iff absent, no commit, or strict ancestor of C; no flag: iff absent"""
    if sel is None:
        return True
    if at_least is None:
        return False
    if sel.commit is None:
        return True
    return sel.commit != at_least and is_anc(at_least, sel.commit)


def oracle_flags(again, at_least, this_commit, mode, head, rev, is_anc):
    """cli/run.md: ('plan', run_again, commit|None) or ('rejected',)"""
    commit_flag = this_commit or at_least is not None
    if this_commit and at_least is not None:
        return ("rejected",)
    if again and commit_flag:
        return ("rejected",)
    if not commit_flag:
        return ("plan", again, None)
    if mode != "head":
        return ("rejected",)
    c = rev(at_least if at_least is not None else "HEAD")
    if c is None or not is_anc(head, c):
        return ("rejected",)
    return ("plan", False, c)


# ----------------------------------------------------------------------------- stubs for the real code
class StubGit:
    """same signatures as conductor.utils.git.Git"""

    def __init__(self, anc, dist, rev=None):
        self.anc = anc  # {(commit, candidate): bool}
        self.dist = dist  # {(start, ancestor): int}
        self.rev = rev or {}
        self.calls = 0

    def is_ancestor(self, commit_hash, candidate_ancestor_hash):
        self.calls += 1
        return self.anc.get((commit_hash, candidate_ancestor_hash), False)

    def get_distance(self, start_hash, ancestor_hash):
        return self.dist[(start_hash, ancestor_hash)]

    def rev_parse(self, commit_symbol):
        return self.rev.get(commit_symbol)


class StubTaskIndex:
    def load_transitive_closure(self, task_identifier):
        return None


class OrderedIndex:
    """version index handing out the rows in a prescribed order (sqlite promises none);
    rows come from a real VersionIndex when given, otherwise from the list itself"""

    def __init__(self, real, versions):
        self.real = real
        self.versions = versions  # list of conductor Version in the order to return

    def get_all_versions_for_task(self, task_identifier):
        if self.real is None:
            return list(self.versions)
        got = self.real.get_all_versions_for_task(task_identifier)
        by_ts = {v.timestamp: v for v in got}
        assert len(by_ts) == len(got) == len(self.versions)
        return [by_ts[v.timestamp] for v in self.versions]

    def get_latest_output_version(self, task_identifier):
        assert self.real is not None
        return self.real.get_latest_output_version(task_identifier)


class StubCtx:
    def __init__(self, mode, head, git_stub, version_index, commit_cls, out="/out"):
        import pathlib

        self.uses_git = mode != "nogit"
        self.current_commit = commit_cls(head) if mode == "head" else None
        self.git = git_stub
        self.version_index = version_index
        self.output_path = pathlib.Path(out)
        self.project_root = pathlib.Path("/proj")
        self.task_index = StubTaskIndex()
