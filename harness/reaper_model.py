"""C09, child-reaping protocol: the REAL SigchldHelper (track / wait / _handler) is run against a simulated kernel and
a simulated CPython signal machinery (os.pipe/os.read/os.write/os.waitpid/signal.signal/signal.set_wakeup_fd replaced),
under generated schedules of child exits, signal deliveries, handler runs and wait() calls.  Every small step that
happens is logged; the log must be a run of coq/Model/Reaper.v (each step enabled) ending in the same state
(refinement), and an independent oracle looks for a lost wake-up and for lost / duplicated / misattributed exits.

What the simulation assumes about the world (validated separately by the forced schedules on real processes in
reaper_util.py): a delivered signal makes CPython set its pending flag and write one byte to the registered wakeup fd
at once; Python-level handlers run between bytecodes of the main thread, never while it sleeps in a system call."""
import errno
import os
import signal

from common import HARNESS_FAULT, raised_in_harness, pack, ser_list, ser_n, ser_bool, run_packed_cases, clist, setup_impl_path

IMPORTS = "From Conductor Require Import Lib.Str Lib.Cmp Model.Reaper Model.Inflight."
DEFS = """
Definition ser_pc (p : rpc) : list N := match p with PIdle => [0] | PTest => [1] | PRead => [2] end.
Definition ser_pair (x : nat * nat) : list N := [N.of_nat (fst x); N.of_nat (snd x)].
Definition ser_rstate (o : option rstate) : list N :=
  match o with
  | None => [99]
  | Some s => ser_list ser_pair (zombies s) ++ ser_bool (kpending s) ++ ser_bool (tripped s) ++ [N.of_nat (pipe s)]
              ++ ser_list ser_pair (rcs s) ++ ser_pc (pc s) ++ ser_list ser_pair (returned s)
  end.
Definition reaper_hash (tr : list revent) : N := pack (ser_rstate (rrun false rinit tr)).
(* ... and what _InflightOperations.wait_for_next_op made of the values wait() returned (Model/Inflight.v) *)
Definition inflight_hash (tr : list revent) (t : list (nat * nat)) : N :=
  pack (ser_rstate (rrun false rinit tr) ++
        match rrun false rinit tr with Some s => ser_list ser_pair (completions t (returned s)) | None => [98] end).
"""


class Blocked(Exception):
    pass


class World:
    def __init__(self, schedule):
        self.schedule = list(schedule)   # remaining environment events usable while wait() sleeps
        self.zombies = []                # (pid, decoded rc, raw status)
        self.running = 0
        self.kpending = False
        self.tripped = False
        self.pipe = 0
        self.wakeup_fd = -1
        self.handler = None
        self.fds = None
        self.log = []
        self.returned = []
        self.pc = 0
        self.in_handler = 0
        self.stopped = []                # children that are stopped and whose stop has not been reported by waitpid
        self.nested_q = []               # (pid, rc): children that exit while a handler is in its last waitpid()

    # --- environment
    def exit_child(self, pid, rc):
        status = (rc << 8) if rc < 128 else (rc - 128)       # exit code, or killed by signal rc-128
        decoded = rc if rc < 128 else rc - 128
        self.zombies.append((pid, decoded, status))
        self.kpending = True
        self.log.append(("exit", pid, decoded))

    def stop_child(self, pid):
        """job control: the child is stopped (SIGSTOP / SIGTSTP); the parent gets SIGCHLD, there is nothing to reap"""
        self.stopped.append(pid)
        self.kpending = True
        self.log.append(("stop",))

    def deliver(self):
        if not self.kpending:
            return False
        self.kpending = False
        self.tripped = True
        if self.fds is not None and self.wakeup_fd == self.fds[1]:
            self.pipe += 1                                    # C-level handler writes to the wakeup fd
        self.log.append(("deliver",))
        return True

    def run_handler(self):
        if not self.tripped or self.handler in (None, signal.SIG_DFL, signal.SIG_IGN):
            return False
        self.tripped = False
        self.log.append(("handler",))
        self.in_handler += 1
        try:
            self.handler(signal.SIGCHLD, None)
        finally:
            self.in_handler -= 1
        return True

    # --- fake system interface
    def pipe_(self):
        self.fds = (1000001, 1000002)
        return self.fds

    def set_blocking(self, fd, flag):  # pylint: disable=unused-argument
        return None

    def set_wakeup_fd(self, fd, **kw):  # pylint: disable=unused-argument
        old, self.wakeup_fd = self.wakeup_fd, fd
        return old

    def signal_(self, signum, handler):
        assert signum == signal.SIGCHLD
        old, self.handler = self.handler, handler
        return old if old is not None else signal.SIG_DFL

    def waitpid(self, pid, options):  # pylint: disable=unused-argument
        if self.zombies:
            p, _rc, status = self.zombies.pop(0)
            return p, status
        if self.stopped and (options & os.WUNTRACED):
            # only a caller that ASKS for stopped children is told about them (status: stopped by SIGSTOP)
            return self.stopped.pop(0), (19 << 8) | 0x7F
        no_children = self.running == 0
        if self.in_handler == 1 and self.nested_q:
            # This call has found nothing more to reap.  Before the handler executes its next bytecode another child
            # exits and its SIGCHLD is delivered: CPython runs the Python-level handler again, NESTED inside this one.
            npid, nrc = self.nested_q.pop(0)
            self.running -= 1
            self.exit_child(npid, nrc)
            self.deliver()
            self.run_handler()
        if no_children:
            raise ChildProcessError(errno.ECHILD, "No child processes")
        return 0, 0

    def write(self, fd, data):
        if self.fds is not None and fd == self.fds[1]:
            self.pipe += len(data)
            return len(data)
        raise OSError(errno.EBADF, "bad fd")

    def close(self, fd):  # pylint: disable=unused-argument
        return None

    def read(self, fd, n):  # pylint: disable=unused-argument
        # `while len(self._returncodes) == 0` was just evaluated (and was true)
        self.log.append(("test",))
        self.pc = 2
        while self.pipe == 0:
            if not self.schedule and self.nested_q:
                npid, nrc = self.nested_q.pop(0)          # no handler ran in time: it is an ordinary exit
                self.schedule = [("exit", npid, nrc), ("deliver",)]
            if not self.schedule:
                raise Blocked()
            ev = self.schedule.pop(0)
            if ev[0] == "nested":
                self.nested_q.append((ev[1], ev[2]))
                continue
            if ev[0] == "stop":
                self.stop_child(ev[1])
                continue
            if ev[0] == "spawn":
                self.running += 1
            if ev[0] == "exit":
                self.running -= 1
                self.exit_child(ev[1], ev[2])
            elif ev[0] == "deliver":
                self.deliver()
            # handler runs and wait() calls cannot happen while the main thread sleeps in read()
        self.pipe -= 1
        self.log.append(("read",))
        self.pc = 1
        self.run_handler()          # pending Python-level handlers run before the next bytecode
        return b"x"


def run_schedule(schedule):
    """schedule: list of ("spawn",) | ("exit", pid, rc) | ("deliver",) | ("handler",) | ("wait",).  Returns the World."""
    setup_impl_path()
    import conductor.utils.sigchld as sc

    w = World([])
    saved = {}

    def patch(mod, name, val):
        saved[(mod, name)] = getattr(mod, name)
        setattr(mod, name, val)

    helper = sc.SigchldHelper()
    old_instance = sc.SigchldHelper._Instance  # pylint: disable=protected-access
    sc.SigchldHelper._Instance = helper  # pylint: disable=protected-access
    # the executor's layer on top: _InflightOperations.wait_for_next_op() calls wait() until the pid is one it registered
    import conductor.execution.executor as ex_mod
    from conductor.execution.handle import OperationExecutionHandle

    inflight_ops = ex_mod._InflightOperations()  # pylint: disable=protected-access
    w.op_results = []
    w.op_labels = []
    w.known = set()
    real_wait = helper.wait

    def logged_wait():
        w.log.append(("call",))
        w.pc = 1
        w.run_handler()                       # function entry is a bytecode boundary
        pid, rc = real_wait()
        w.log.append(("test",))               # the evaluation that ended the loop
        w.pc = 0
        w.returned.append((pid, rc))
        return pid, rc

    helper.wait = logged_wait
    patch(sc.os, "pipe", w.pipe_)
    patch(sc.os, "set_blocking", w.set_blocking)
    patch(sc.os, "waitpid", w.waitpid)
    patch(sc.os, "read", w.read)
    patch(sc.os, "write", w.write)
    patch(sc.os, "close", w.close)
    patch(sc.signal, "set_wakeup_fd", w.set_wakeup_fd)
    patch(sc.signal, "signal", w.signal_)
    blocked = False
    crash = None
    try:
        cm = helper.track()
        cm.__enter__()
        try:
            rest = list(schedule)
            while rest:
                ev = rest.pop(0)
                if ev[0] == "spawn":
                    w.running += 1
                    if len(ev) > 1 and ev[2]:      # ("spawn", pid, registered?[, label])
                        w.known.add(ev[1])
                        inflight_ops.add_op(OperationExecutionHandle.from_async_process(ev[1]), ev[3] if len(ev) > 3 else "op-%d" % ev[1])
                elif ev[0] == "exit":
                    w.running -= 1
                    w.exit_child(ev[1], ev[2])
                elif ev[0] == "nested":
                    w.nested_q.append((ev[1], ev[2]))
                elif ev[0] == "stop":
                    w.stop_child(ev[1])
                elif ev[0] == "deliver":
                    w.deliver()
                elif ev[0] == "handler":
                    w.run_handler()
                elif ev[0] == "wait":
                    # while wait() sleeps in read(), the environment events that follow in the schedule happen (the
                    # scheduled handler runs / further wait() calls in between cannot: they are dropped)
                    w.schedule = rest
                    try:
                        if w.known and len(inflight_ops) > 0:
                            handle, _op = inflight_ops.wait_for_next_op()
                            w.op_results.append((handle.pid, handle.returncode))
                            w.op_labels.append(_op)
                        else:
                            helper.wait()
                    except Blocked:
                        blocked = True
                        break
                    w.schedule = []
            w.final_rcs = list(helper._returncodes)  # pylint: disable=protected-access
        finally:
            # leave track() inside the simulated world (the state of interest was captured above)
            try:
                cm.__exit__(None, None, None)
            except Exception:  # pylint: disable=broad-except
                pass
    except Exception as e:  # pylint: disable=broad-except
        import traceback

        crash = "%s%s: %s\n%s" % (HARNESS_FAULT + " " if raised_in_harness(e) else "", type(e).__name__, e, traceback.format_exc()[-800:])
        w.final_rcs = list(getattr(helper, "_returncodes", []))
    finally:
        for (mod, name), val in saved.items():
            setattr(mod, name, val)
        sc.SigchldHelper._Instance = old_instance  # pylint: disable=protected-access
    w.blocked = blocked
    w.crash = crash
    return w


def coq_event(e):
    return {"exit": lambda: "EvExit %d %d" % (e[1], e[2]), "deliver": lambda: "EvDeliver", "handler": lambda: "EvHandler",
            "call": lambda: "EvCall", "test": lambda: "EvTest", "read": lambda: "EvRead", "stop": lambda: "EvStop"}[e[0]]()


def ser_world(w):
    pairs = lambda l: ser_list(lambda x: [x[0], x[1]], l)  # noqa: E731
    return (pairs([(p, rc) for p, rc, _s in w.zombies]) + ser_bool(w.kpending) + ser_bool(w.tripped) + [w.pipe]
            + pairs(w.final_rcs) + [w.pc] + pairs(w.returned))


def gen_schedule(rng):
    n = rng.randint(1, 6)
    pids = list(range(100, 100 + n))
    # some children are not the executor's (started by a wrapper before exec, or by a library): they are reaped and ignored
    mixed = rng.random() < 0.4
    reg = {p: (not mixed or rng.random() < 0.6) for p in pids}
    if mixed and not any(reg.values()):
        reg[pids[0]] = True
    sched = [("spawn", p, reg[p]) for p in pids]
    rng.shuffle(pids)
    pending = list(pids)
    waits = 0
    steps = rng.randint(n, 4 * n + 4)
    for _ in range(steps):
        r = rng.random()
        if r < 0.35 and pending:
            p = pending.pop()
            if len(pending) >= 1 and rng.random() < 0.25:
                # p exits while the handler that reaps ANOTHER child is in its last waitpid(): a nested handler run
                q = pending.pop()
                sched.append(("nested", p, rng.choice([0, 3, 128 + 9])))
                sched.append(("exit", q, rng.choice([0, 1])))
                sched.append(("deliver",))
                if rng.random() < 0.5:
                    sched.append(("handler",))
                continue
            sched.append(("exit", p, rng.choice([0, 0, 1, 3, 127, 128 + 9, 128 + 15, 128 + 11])))
            if rng.random() < 0.6:
                sched.append(("deliver",))
        elif r < 0.5:
            sched.append(("deliver",))
        elif r < 0.55 and pending:
            sched.append(("stop", pending[-1]))          # a running child is stopped (and continued later): SIGCHLD, nothing to reap
            if rng.random() < 0.7:
                sched.append(("deliver",))
        elif r < 0.6:
            sched.append(("handler",))
        elif waits < sum(1 for p in reg if reg[p]):
            sched.append(("wait",))
            waits += 1
    # the kernel eventually delivers what is pending, and the executor waits for every task it started
    for p in pending:
        sched.append(("exit", p, rng.choice([0, 2, 128 + 9])))
    sched.append(("deliver",))
    while waits < sum(1 for p in reg if reg[p]):
        sched.append(("wait",))
        sched.append(("deliver",))
        waits += 1
    return sched


def pid_reuse_case(chk):
    """Known finding F4 (latent): the SIGCHLD handler reaps with waitpid(-1) at once, so the pid of an exited task is free
    again while its (pid, status) record still waits in the queue; the executor keys its in-flight table by pid.  If the
    next task it launches is given that pid (a pid wrap within the few milliseconds between two waits), the new entry
    overwrites the old one and the queued exit is charged to the NEW operation: a task that has just been started is
    reported finished, the one that did finish never is.  Shown here on the real SigchldHelper and _InflightOperations
    under the simulated kernel; on a real kernel it needs pid_max to be almost exhausted."""
    sched = [("spawn", 1, True, "first-op"), ("spawn", 2, True, "other-op"), ("exit", 1, 0), ("deliver",), ("handler",),
             ("spawn", 1, True, "second-op-with-the-recycled-pid"), ("wait",)]
    w = run_schedule(sched)
    chk.coverage["evaluations"] += 1
    chk.count("reaper-protocol", "pid-reuse")
    if w.crash and w.crash.startswith(HARNESS_FAULT):
        chk.violation("tie-broken", "the simulated-kernel harness no longer fits the executor's internals: %s" % w.crash[:300],
                      {"theorem_or_tie": "refinement harness (harness/reaper_model.py) vs executor.py _InflightOperations", "detail": w.crash}, found_input=False)
        return
    if w.op_labels and w.op_labels[0] != "first-op":
        chk.violation("impl-violation", "pid reuse: process 1 exits and is reaped, a new task is then given pid 1, and the queued exit of the first one is handed to the executor as the completion of %r (which has only just been started)" % (w.op_labels[0],),
                      {"input": {"part": "reaper-protocol", "schedule": [list(e) for e in sched]}, "impl_observation": {"completions": [list(r) for r in w.op_results], "operations": w.op_labels},
                       "oracle_verdict": "the completion belongs to 'first-op'"}, match_key={"reaper": "pid-reuse"}, size=len(sched))


def protocol_part(chk, tier):
    pid_reuse_case(chk)
    rng = chk.rng
    n = 400 if tier == "quick" else 6000
    cases = [
        # an unrelated child exits with 0 just before the executor's task exits with 3
        [("spawn", 50, False), ("spawn", 51, True), ("wait",), ("exit", 50, 0), ("deliver",), ("exit", 51, 3), ("deliver",)],
        [("spawn", 50, False), ("spawn", 51, True), ("exit", 50, 5), ("exit", 51, 0), ("deliver",), ("wait",)],
        # the D17 schedule: the exit is signalled after the loop test and before read() blocks
        [("spawn",), ("wait",), ("exit", 7, 0), ("deliver",)],
        # one SIGCHLD for three exits
        [("spawn",)] * 3 + [("exit", 1, 0), ("exit", 2, 3), ("exit", 3, 137), ("deliver",), ("wait",), ("wait",), ("wait",)],
        # a child is stopped while wait() sleeps: a wake-up with nothing to reap; wait() must go back to sleep and return
        # only the real exit
        [("spawn", 1, True), ("wait",), ("stop", 1), ("deliver",), ("exit", 1, 0), ("deliver",)],
        [("spawn", 1, True), ("spawn", 2, True), ("stop", 2), ("deliver",), ("handler",), ("wait",), ("exit", 1, 3), ("deliver",), ("wait",), ("exit", 2, 0), ("deliver",)],
        # a second child exits while the handler that reaps the first one is in its last waitpid(): nested handler run
        [("spawn", 1, True), ("spawn", 2, True), ("wait",), ("nested", 2, 0), ("exit", 1, 0), ("deliver",), ("wait",)],
        [("spawn", 1, True), ("spawn", 2, True), ("nested", 2, 3), ("exit", 1, 0), ("deliver",), ("handler",), ("wait",), ("wait",)],
        # handler runs before wait() is called; a stale byte stays in the pipe
        [("spawn",), ("spawn",), ("exit", 1, 0), ("deliver",), ("handler",), ("wait",), ("wait",), ("exit", 2, 0), ("deliver",)],
    ] + [gen_schedule(rng) for _ in range(n)]
    exprs, wants, kept = [], [], []
    for sched in cases:
        w = run_schedule(sched)
        chk.coverage["evaluations"] += 1
        exits = [(e[1], e[2] if e[2] < 128 else e[2] - 128) for e in sched if e[0] == "exit"]
        happened = [(e[1], e[2]) for e in w.log if e[0] == "exit"]
        problems = []
        if w.crash and w.crash.startswith(HARNESS_FAULT):
            chk.violation("tie-broken", "the simulated-kernel harness no longer fits SigchldHelper's internals: %s" % w.crash[:300],
                          {"theorem_or_tie": "refinement harness (harness/reaper_model.py) vs utils/sigchld.py internals", "detail": w.crash}, found_input=False)
            return
        if w.crash:
            problems.append("SigchldHelper raised %s" % w.crash[:300])
        else:
            if w.blocked and (w.zombies or w.final_rcs) and not w.kpending:
                problems.append("wait() sleeps in read() on an empty pipe with no signal pending although %s: nothing will ever wake it (lost wake-up)"
                                % ("children %r have exited and are not reaped" % [z[0] for z in w.zombies] if w.zombies else "return codes %r are waiting" % w.final_rcs))
            acc = sorted(w.returned + list(w.final_rcs) + [(p, rc) for p, rc, _s in w.zombies])
            if acc != sorted(happened):
                problems.append("exits %r but returned + recorded + unreaped = %r (an exit was lost, duplicated or attributed to the wrong process)" % (sorted(happened), acc))
            if len(set(p for p, _ in w.returned)) != len(w.returned):
                problems.append("wait() returned the same process twice: %r" % w.returned)
            exit_rc = dict(happened)
            for pid, rc in w.op_results:
                if pid not in w.known:
                    problems.append("wait_for_next_op() handed the executor process %r, which it never registered" % (pid,))
                elif exit_rc.get(pid) != rc:
                    problems.append("wait_for_next_op() reported status %r for process %d, which exited with %r (a foreign child's status was charged to it)" % (rc, pid, exit_rc.get(pid)))
        chk.count("reaper-protocol", "blocked" if w.blocked else "completed")
        chk.count("reaper-protocol-batch", "several exits per delivery" if any(sched[i][0] == "exit" and sched[i + 1][0] == "exit" for i in range(len(sched) - 1)) else "single")
        for msg in problems:
            chk.violation("impl-violation", "child-reaping protocol under the schedule %r: %s" % (sched, msg),
                          {"input": {"part": "reaper-protocol", "schedule": [list(e) for e in sched]}, "impl_observation": {"log": [list(e) for e in w.log], "returned": w.returned, "rcs": w.final_rcs,
                                                                                                            "zombies": [list(z[:2]) for z in w.zombies], "pipe": w.pipe, "blocked": w.blocked},
                           "oracle_verdict": msg}, match_key={"reaper": msg.split(" ")[0]}, size=len(sched))
        if w.crash is None:
            regs = [e[1] for e in sched if e[0] == "spawn" and len(e) > 2 and e[2]]
            if len(set(regs)) == len(regs):
                # the executor's table (operation := pid) and the completions it obtained
                exprs.append("inflight_hash %s %s" % (clist([coq_event(e) for e in w.log]), clist(["(%d, %d)%%nat" % (p_, p_) for p_ in regs])))
                wants.append(pack(ser_world(w) + ser_list(lambda x: [x[0], x[1]], list(w.op_results))))
            else:
                exprs.append("reaper_hash %s" % clist([coq_event(e) for e in w.log]))
                wants.append(pack(ser_world(w)))
            kept.append((sched, w))
        del exits
    if chk.coq.model_ok and exprs:
        shard = 200
        chunks = [clist(exprs[a:a + shard]) for a in range(0, len(exprs), shard)]
        wl = [wants[a:a + shard] for a in range(0, len(exprs), shard)]
        for off, (ok, bad, raw) in zip(range(0, len(exprs), shard), run_packed_cases(IMPORTS, DEFS, chunks, wl)):
            if not ok:
                chk.violation("correspondence", "model evaluation failed (reaper protocol): %s" % raw[-300:], {"theorem_or_tie": "correspondence Model/Reaper.v", "coq_output": raw}, found_input=False)
                continue
            chk.coverage["disagreements_checked"] += len(wl[off // shard])
            chk.coverage["traces_validated_against_impl"] += len(wl[off // shard]) - len(bad)
            for i in bad[:3]:
                sched, w = kept[off + i]
                chk.violation("correspondence", "the steps SigchldHelper took under the schedule %r are not a run of Model/Reaper.v ending in the same state, or the completions _InflightOperations obtained are not those of Model/Inflight.v: log %r, state zombies=%r pending=%s tripped=%s pipe=%d rcs=%r returned=%r completions=%r"
                              % (sched, w.log, [z[:2] for z in w.zombies], w.kpending, w.tripped, w.pipe, w.final_rcs, w.returned, w.op_results),
                              {"theorem_or_tie": "refinement: utils/sigchld.py vs Model/Reaper.v (rrun)", "input": {"part": "reaper-protocol", "schedule": [list(e) for e in sched]}}, found_input=False, size=len(sched))
