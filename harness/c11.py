"""C11 -- archive then restore reproduces exactly the selected versions.

proofs : coq/Props/C11.v about coq/Model/Archive.v (queries as list functions, traverse,
         archive selection, restore as atomic steps), coq/Refuted/TraverseOld.v (defect D5).
tie    : (a) real sqlite through VersionIndex.copy_entries_to on generated row sets vs the list
             functions (exhaustive over 2 tasks x 2 timestamps, then random);
         (b) real TaskIndex + TaskType.traverse + compute_tasks_to_archive on generated
             dependency graphs (all ordered-dependency DAGs on <= 4 tasks, then random) vs the model;
         (c) real `cond run` histories -> `cond archive` (all flag combinations) -> removal ->
             `cond restore` on generated projects vs the model's archive/restore.
oracle : the selection rule, duplicate-free traversal of exactly the reachable tasks, identical
         rows and byte-identical trees after the round trip, source untouched -- stated
         independently in Python and evaluated on what the real code did.
"""
import itertools
import os
import shutil
import sqlite3

import archive_util as au
import implrun
from common import Check, cbool, clist, copt, cstr, new_dir, pack, run_packed_cases, ser_bool, ser_list, ser_n, ser_opt, ser_str, setup_impl_path

SELECT = "SELECT task_identifier, timestamp, git_commit_hash, has_uncommitted_changes FROM version_index ORDER BY rowid"


# =================================================================== (a) queries
def real_copy(src, dest0, tasks, latest):
    """VersionIndex.copy_entries_to on real sqlite files; returns (rows visible in dest, count|None)"""
    from conductor.execution.version_index import VersionIndex
    from conductor.task_identifier import TaskIdentifier
    import pathlib

    d = new_dir("q")
    s = VersionIndex.create_or_load(pathlib.Path(d, "src.sqlite"))
    s.bulk_load(list(src))
    s.commit_changes()
    dd = VersionIndex.create_or_load(pathlib.Path(d, "dest.sqlite"))
    dd.bulk_load(list(dest0))
    dd.commit_changes()
    try:
        n = s.copy_entries_to(dd, None if tasks is None else [TaskIdentifier.from_str(t) for t in tasks], latest)
    except sqlite3.IntegrityError:
        n = None
    view = [tuple(r) for r in dd._conn.execute(SELECT)]  # pylint: disable=protected-access
    s._conn.close()  # pylint: disable=protected-access
    dd._conn.close()  # pylint: disable=protected-access
    shutil.rmtree(d, ignore_errors=True)
    return view, n


def spec_selection(src, tasks, latest):
    """the documented selection as a list (with multiplicity when a task is named twice)"""
    def newest(rows):
        best = {}
        for r in rows:
            if r[0] not in best or r[1] > best[r[0]][1]:
                best[r[0]] = r
        return list(best.values())

    if tasks is None:
        return newest(src) if latest else list(src)
    out = []
    for t in tasks:
        mine = [r for r in src if r[0] == t]
        out.extend(newest(mine) if latest else mine)
    return out


def oracle_copy(chk, case, view, n):
    src, dest0, tasks, latest = case
    sel = spec_selection(src, tasks, latest)
    keys = [(r[0], r[1]) for r in sel]
    clash = len(set(keys)) != len(keys) or (set(keys) & {(r[0], r[1]) for r in dest0})
    what = None
    if n is not None and tasks is not None and len(set(tasks)) != len(tasks) and not (set(keys) & {(r[0], r[1]) for r in dest0}):
        # a task LISTED TWICE (compute_tasks_to_archive never does that: C11_traverse_nodup): the sources load its rows twice and meet
        # the primary key; an implementation that loads them once copies exactly the selection -- that is no violation of the property
        # (the correspondence with the model, which mirrors the sources, still reports the difference, without claiming an input)
        once = [r for i, r in enumerate(sel) if (r[0], r[1]) not in keys[:i]]
        if sorted(view, key=repr) == sorted(list(dest0) + once, key=repr) and n == len(once):
            return
    if n is None:
        if not clash:
            what = "IntegrityError although the selected rows are pairwise distinct and absent from the destination"
        elif sorted(r for r in view if r not in dest0) and not set(view) <= set(dest0) | set(sel):
            what = "rows outside the selection were inserted before the IntegrityError"
    else:
        if clash:
            what = "a duplicate (task, timestamp) was accepted"
        elif sorted(view, key=repr) != sorted(list(dest0) + sel, key=repr):
            what = "destination rows %r are not destination + selection %r" % (view, sel)
        elif n != len(sel):
            what = "reported %r copied rows, selection has %d" % (n, len(sel))
    if what:
        chk.violation("impl-violation", "copy_entries_to(tasks=%r, latest=%r): %s" % (tasks, latest, what),
                      {"input": {"kind": "copy", "src": src, "dest0": dest0, "tasks": tasks, "latest": latest},
                       "impl_observation": {"dest_rows": view, "count": n}, "oracle_verdict": what},
                      match_key={"query": "copy"}, size=len(src))


def copy_cases(chk, tier):
    cases = []
    uni = [("//:a", 1, None, 0), ("//:a", 2, "c1", 1), ("//s:b", 1, "c2", 0), ("//s:b", 2, None, 1)]
    tasksets = [None, [], ["//:a"], ["//s:b"], ["//:a", "//s:b"], ["//:a", "//:a"], ["//:zz"]]
    for mask in range(16):
        src = [uni[i] for i in range(4) if mask >> i & 1]
        # insertion order matters for rowids: also the reversed order
        for s in (src, src[::-1]) if mask in (15, 10, 5) else (src,):
            for dest0 in ([], [("//:a", 1, "other", 1)]):
                for tasks in tasksets:
                    for latest in (False, True):
                        cases.append((s, dest0, tasks, latest))
    # a closure larger than any plausible internal batch size (seed C11/j dropped every 100th task of a batched query)
    big = [("//big:t%03d" % i, 1 + i % 3, None, 0) for i in range(230)]
    for latest in (False, True):
        cases.append((big, [], [r[0] for r in big], latest))
    cases.append((big, [], [r[0] for r in big[::-1]] + ["//:none"], False))
    pool = ["//:a", "//:b", "//s:a", "//s/t:c", "//x-y/z_1:T-2"]
    commits = [None, "ab12", "ff00ff00ff00ff00ff00ff00ff00ff00ff00ff00"]
    n_rand = 250 if tier == "quick" else 3000
    for _ in range(n_rand):
        keys = set()
        src = []
        for _ in range(chk.rng.randint(0, 9)):
            k = (chk.rng.choice(pool), chk.rng.randint(1, 5))
            if k not in keys:
                keys.add(k)
                src.append((k[0], k[1], chk.rng.choice(commits), chk.rng.choice([0, 0, 1])))
        dest0 = []
        for _ in range(chk.rng.choice([0, 0, 1, 2])):
            k = (chk.rng.choice(pool), chk.rng.randint(1, 6))
            if k not in [(r[0], r[1]) for r in dest0]:
                dest0.append((k[0], k[1], None, 0))
        r = chk.rng.random()
        tasks = None if r < 0.35 else [chk.rng.choice(pool + ["//:none"]) for _ in range(chk.rng.randint(0, 3))]
        cases.append((src, dest0, tasks, chk.rng.random() < 0.5))
    return cases


def copy_expr(case):
    src, dest0, tasks, latest = case
    return "case_copy %s %s %s %s" % (au.ctable(src), au.ctable(dest0), copt(tasks, lambda l: clist([cstr(t) for t in l])), cbool(latest))


def copy_want(view, n, dest0):
    return pack(au.ser_rows(view if n is not None else dest0) + ser_opt(ser_n, n))


def part_queries(chk, tier):
    cases = copy_cases(chk, tier)
    exprs, wants = [], []
    nontrivial = set()
    for case in cases:
        view, n = real_copy(*case)
        oracle_copy(chk, case, view, n)
        exprs.append(copy_expr(case))
        wants.append(copy_want(view, n, case[1]))
        if case[0]:
            nontrivial.add(repr(case))
        chk.count("copy_entries_to", "integrity-error" if n is None else ("latest" if case[3] else "all") + ("/tasks" if case[2] is not None else ""))
    chk.coverage["evaluations"] += len(cases)
    return cases, exprs, wants, len(nontrivial)


# =================================================================== (b) traversal
def ordered_subsets(items):
    out = []
    for k in range(len(items) + 1):
        out.extend(itertools.permutations(items, k))
    return out


def all_dags(n):
    """every graph on nodes 0..n-1 whose edges go to higher-numbered nodes, with every order
    of every dependency list"""
    per_node = [ordered_subsets(list(range(i + 1, n))) for i in range(n)]
    return [list(c) for c in itertools.product(*per_node)]


def trav_graphs(chk, tier):
    graphs = []  # (deps per node, archivable mask per node, root)
    # corpus: the D5 shape in both listing orders
    graphs.append(([(2, 1), (2,), ()], [True, False, True], 0))   # g->[e1,mid]; mid->[e1]
    graphs.append(([(1, 2), (2,), ()], [True, False, True], 0))   # g->[mid,e1]; mid->[e1]
    for deps in all_dags(3):
        for mask in range(8):
            graphs.append((deps, [bool(mask >> i & 1) for i in range(3)], 0))
    dags4 = all_dags(4)
    for deps in dags4:
        masks = range(16) if tier == "thorough" else [chk.rng.randrange(16), 15 - chk.rng.randrange(3)]
        for mask in masks:
            graphs.append((deps, [bool(mask >> i & 1) for i in range(4)], 0))
    n_rand = 150 if tier == "quick" else 2500
    for _ in range(n_rand):
        n = chk.rng.randint(5, 8)
        deps = []
        for i in range(n):
            later = list(range(i + 1, n))
            k = min(len(later), chk.rng.choice([0, 1, 2, 2, 3, 4]))
            deps.append(tuple(chk.rng.sample(later, k)))
        graphs.append((deps, [chk.rng.random() < 0.6 for _ in range(n)], chk.rng.choice([0, 0, 0, 1])))
    return graphs


class Shim:
    """what compute_tasks_to_archive and traverse use of a Context"""

    def __init__(self, task_index):
        self.task_index = task_index


def part_traverse(chk, tier):
    from conductor.cli.archive import compute_tasks_to_archive
    from conductor.parsing.task_index import TaskIndex
    from conductor.task_identifier import TaskIdentifier
    import pathlib

    graphs = trav_graphs(chk, tier)
    files = {}
    for gi, (deps, arch, _root) in enumerate(graphs):
        lines = []
        for i, ds in enumerate(deps):
            dl = "[%s]" % ", ".join('"//g%d:n%d"' % (gi, d) for d in ds)
            if arch[i]:
                lines.append('run_experiment(name="n%d", run="true", deps=%s)' % (i, dl))
            else:
                lines.append('run_command(name="n%d", run="true", deps=%s)' % (i, dl))
        files["g%d/COND" % gi] = "\n".join(lines) + "\n"
    root = implrun.make_project(files, name="trav")
    ctx = Shim(TaskIndex(pathlib.Path(root)))
    exprs, wants = [], []
    nontrivial = set()
    for gi, (deps, arch, r) in enumerate(graphs):
        name = lambda i, gi=gi: "//g%d:n%d" % (gi, i)
        rid = TaskIdentifier.from_str(name(r))
        ctx.task_index.load_transitive_closure(rid)
        calls = []
        ctx.task_index.get_task(rid).traverse(ctx, lambda t: calls.append(str(t.identifier)))
        tasks = [str(t) for t in compute_tasks_to_archive(ctx, name(r))]
        g = [(name(i), [name(d) for d in deps[i]], arch[i]) for i in range(len(deps))]
        reach = au.reachable(g, name(r))
        amap = {name(i): arch[i] for i in range(len(deps))}
        what = None
        if len(set(calls)) != len(calls):
            what = "the visitor was called more than once on %s" % sorted({c for c in calls if calls.count(c) > 1})
        elif set(calls) != reach:
            what = "visited %r, reachable %r" % (sorted(calls), sorted(reach))
        elif tasks != [c for c in calls if amap[c]]:
            what = "tasks to archive %r are not the archivable visited tasks" % (tasks,)
        shape = "g->[e1,mid];mid->[e1]" if gi < 2 else "generated"
        if what:
            chk.violation("impl-violation", "traverse from %s over %r: %s" % (name(r), deps, what),
                          {"input": {"kind": "trav", "deps": [list(d) for d in deps], "archivable": arch, "root": r},
                           "impl_observation": {"visitor_calls": calls, "tasks_to_archive": tasks}, "oracle_verdict": what},
                          match_key={"graph": shape}, size=len(deps))
        exprs.append("case_trav %s %s" % (au.cgraph(g), cstr(name(r))))
        wants.append(pack([0] + ser_list(ser_str, calls) + ser_list(ser_str, tasks)))
        shared = len(reach) < sum(len(d) for i, d in enumerate(deps) if name(i) in reach) + 1
        if shared:
            nontrivial.add(repr((deps, arch, r)))
        chk.count("traverse", "shared-dependency" if shared else "tree")
    chk.coverage["evaluations"] += len(graphs)
    return graphs, exprs, wants, len(nontrivial)


# =================================================================== (c) archive -> restore
def gen_job(rng, shape=None, rich=None, git=None):
    spec = au.gen_spec(rng, shape=shape, rich=rich, git=git)
    ids = [au.task_str(t["pkg"], t["name"]) for t in spec["tasks"]]
    variants = []
    targets = [None, ids[-1], rng.choice(ids)]
    if shape:
        targets = ["//:g", None]
    for target in targets:
        for latest in ((False, True) if rng.random() < 0.5 or shape else (rng.random() < 0.5,)):
            variants.append({
                "target": target, "latest": latest,
                "qmode": rng.choice(["clean", "rmtree", "lacking", "lacking", "rerun"]),
                "out": rng.choice(["file", "file", "dir", "default"]),
                # -o may name any file: the archive is a gzip-compressed tar whatever the name says
                "suffix": rng.choice([".tar.gz", ".tar.gz", ".tar", "-2026", ".tgz", ".tar.xz"]),
                "plant_aidx": rng.random() < 0.2,
                "rm_dir": rng.random() < 0.08,
                "cwd": rng.choice(["", "", "sub"]),
            })
    return {"spec": spec, "variants": variants}


def selection(g, rows, target, latest):
    if target is None:
        cand = list(rows)
    else:
        reach = au.reachable(g, target)
        arch = {t for t, _d, a in g if a}
        cand = [r for r in rows if r[0] in reach and r[0] in arch]
    if latest:
        best = {}
        for r in cand:
            if r[0] not in best or r[1] > best[r[0]][1]:
                best[r[0]] = r
        cand = list(best.values())
    return cand


def e2e_job(job):
    """runs in a forked worker: build the project, then every variant; returns observations,
    the oracle's verdicts and the model cases"""
    ids = au.ContentIds()
    spec = job["spec"]
    g = au.spec_graph(spec)
    root, log = au.build_project(spec)
    out = {"log": log, "variants": [], "n_rows": len(au.project_rows(root))}
    for vi, v in enumerate(job["variants"]):
        problems = []
        src = au.clone_project(root, "src")
        rows0 = au.project_rows(src)
        sel = selection(g, rows0, v["target"], v["latest"])
        if v.get("plant_aidx") and os.path.exists(os.path.join(src, au.OUT, au.INDEX)):
            shutil.copy(os.path.join(src, au.OUT, au.INDEX), os.path.join(src, au.OUT, au.AINDEX))
        removed = None
        if v.get("rm_dir") and sel:
            removed = (sel[0][0], sel[0][1])
            shutil.rmtree(os.path.join(src, au.OUT, au.vdir_rel(*removed)), ignore_errors=True)
        before = au.observe(src, ids)
        snap_before = implrun.tree_snapshot(os.path.join(src, au.OUT))
        vsnaps = au.version_snaps(src)
        argv = ["archive"]
        if v["target"] is not None:
            argv.append(v["target"])
        if v["latest"]:
            argv.append("--latest")
        apath = None
        if v["out"] == "file":
            apath = os.path.join(src, "arch", "a%d%s" % (vi, v.get("suffix", ".tar.gz")))
            argv += ["-o", apath]
        elif v["out"] == "dir":
            argv += ["-o", os.path.join(src, "arch")]
        cwd = os.path.join(src, v["cwd"]) if v["cwd"] and os.path.isdir(os.path.join(src, v["cwd"])) else src
        ra = implrun.run_cond(argv, cwd)
        if apath is None:
            where = os.path.join(src, "arch") if v["out"] == "dir" else os.path.join(src, au.OUT)
            found = [f for f in os.listdir(where) if f.startswith("cond-archive+")]
            if found:
                moved = os.path.join(src, "arch", "moved%d.tar.gz" % vi)
                shutil.move(os.path.join(where, found[0]), moved)
                apath = moved
        after = au.observe(src, ids)
        snap_after = implrun.tree_snapshot(os.path.join(src, au.OUT))
        err = implrun.strip_ansi(ra.err)
        tag = 0 if ra.code == 0 else (1 if "no task outputs to archive" in err else (5 if "tar utility" in err else 9))
        # ---- oracle: source untouched
        snap_before.pop(au.AINDEX, None)      # a planted stale archive index is neither a recorded version
        snap_after.pop(au.AINDEX, None)       # nor an output; its fate is compared with the model (p_aidx)
        if snap_after != snap_before:
            diff = sorted(set(snap_after.items()) ^ set(snap_before.items()))[:4]
            problems.append("archiving changed the source's cond-out: %r" % (diff,))
        if after["rows"] != before["rows"]:
            problems.append("archiving changed the recorded versions of the source")
        # ---- oracle: outcome and selection
        expect_ok = bool(sel) and removed is None
        if expect_ok and ra.code != 0:
            problems.append("archive failed (exit %d: %s) although %d recorded versions are selected" % (ra.code, err.strip()[-300:], len(sel)))
        if not expect_ok and ra.code == 0:
            problems.append("archive succeeded although %s" % ("nothing is selected" if not sel else "the directory of %r is missing" % (removed,)))
        if ra.code != 0 and apath and os.path.exists(apath):
            problems.append("a failed archive left its output file behind")
        rec = {"variant": v, "archive_exit": ra.code, "archive_err": err.strip()[-400:], "tag": tag, "selected": sel,
               "P": {"rows": before["rows"], "dirs": before["dirs"], "aidx": before["aidx"]},
               "P_after": {"rows": after["rows"], "dirs": after["dirs"], "aidx": after["aidx"]}}
        if ra.code == 0 and apath:
            tops = au.top_members(au.tar_members(apath))
            want_tops = {au.AINDEX} | {au.vdir_rel(r[0], r[1]) for r in sel}
            if tops != want_tops:
                problems.append("tar member list %r differs from the selection %r" % (sorted(tops), sorted(want_tops)))
            xv = au.extraction_view(apath, ids)
            rec["A"] = {"rows": xv["index"], "dirs": xv["dirs"]}
            if sorted(xv["index"] or [], key=repr) != sorted(sel, key=repr):
                problems.append("archive index rows %r differ from the selection %r" % (xv["index"], sel))
            # ---- the target project
            q = au.clone_project(src, "q")
            keys = [(r[0], r[1]) for r in sel]
            if v["qmode"] == "clean":
                rc = implrun.run_cond(["clean", "-f"], q)
                if rc.code != 0:
                    problems.append("cond clean failed: %s" % rc.err[-200:])
            elif v["qmode"] == "rmtree":
                shutil.rmtree(os.path.join(q, au.OUT), ignore_errors=True)
            elif v["qmode"] == "lacking":
                au.delete_versions(q, keys)
            else:
                shutil.rmtree(os.path.join(q, au.OUT), ignore_errors=True)
                exps = [t for t, _d, a in g if a]
                if exps:
                    implrun.run_cond(["run", exps[0]], q)
            qb = au.observe(q, ids)
            qsnaps = au.version_snaps(q)
            pre_ok = not (set(keys) & {(r[0], r[1]) for r in qb["rows"]}) and not (set(keys) & set(qb["dirs"]))
            qcwd = os.path.join(q, v["cwd"]) if v["cwd"] and os.path.isdir(os.path.join(q, v["cwd"])) else q
            rr = implrun.run_cond(["restore", os.path.relpath(apath, qcwd) if v["cwd"] else apath], qcwd)
            qa = au.observe(q, ids)
            qsnaps_after = au.version_snaps(q)
            rec.update({"Q": {"rows": qb["rows"], "dirs": qb["dirs"], "stage": qb["stage"]},
                        "Q_after": {"rows": qa["rows"], "dirs": qa["dirs"], "stage": qa["stage"]},
                        "restore_exit": rr.code, "restore_err": implrun.strip_ansi(rr.err).strip()[-400:], "pre_ok": pre_ok})
            if pre_ok:
                if rr.code != 0:
                    problems.append("restore into a project that lacks the versions failed (exit %d): %s" % (rr.code, rec["restore_err"][-300:]))
                else:
                    if sorted(qa["rows"], key=repr) != sorted(qb["rows"] + sel, key=repr):
                        problems.append("rows after restore %r are not previous rows + selection %r" % (qa["rows"], qb["rows"] + sel))
                    for r in sel:
                        rel = au.vdir_rel(r[0], r[1])
                        if qsnaps_after.get(rel) != vsnaps.get(rel):
                            a, b = qsnaps_after.get(rel), vsnaps.get(rel)
                            d = "missing" if a is None else sorted(set(a.items()) ^ set((b or {}).items()))[:4]
                            problems.append("restored tree of %s@%d differs from the archived one: %r" % (r[0], r[1], d))
                    for rel, s in qsnaps.items():
                        if qsnaps_after.get(rel) != s:
                            problems.append("restore modified the existing directory %s" % rel)
                    extra = set(qsnaps_after) - set(qsnaps) - {au.vdir_rel(r[0], r[1]) for r in sel}
                    if extra:
                        problems.append("restore created unselected directories %r" % sorted(extra))
                    if qa["stage"]:
                        problems.append("the staging directory was left behind")
            shutil.rmtree(os.path.dirname(q), ignore_errors=True)
        rec["problems"] = problems
        out["variants"].append(rec)
        shutil.rmtree(os.path.dirname(src), ignore_errors=True)
    shutil.rmtree(os.path.dirname(root), ignore_errors=True)
    return out


def e2e_model_case(g, rec):
    v = rec["variant"]
    P, Q = rec["P"], rec.get("Q")
    q_expr = au.cproj(Q["rows"], Q["dirs"], Q["stage"]) if Q else au.cproj([], {})
    expr = "case_e2e %s %s %s %s %s" % (
        au.cgraph(g), copt(v["target"], cstr), cbool(v["latest"]),
        au.cproj(P["rows"], P["dirs"], False, P["rows"] if P["aidx"] else None), q_expr)
    Pa = rec["P_after"]
    nums = [rec["tag"]] + au.ser_rows(Pa["rows"]) + au.ser_dirs(Pa["dirs"]) + ser_bool(Pa["aidx"])
    if rec["tag"] == 0 and "A" in rec and Q:
        Qa = rec["Q_after"]
        nums += au.ser_rows(rec["A"]["rows"] or []) + au.ser_dirs(rec["A"]["dirs"])
        nums += au.ser_after(rec["restore_exit"] == 0, Qa["rows"], Qa["dirs"], Qa["stage"])
    return expr, pack(nums)


def tree_kind(spec):
    kinds = set()
    for t in spec["tasks"]:
        for it in t.get("tree", []):
            if it[0] == "l":
                kinds.add("symlink")
            if it[0] == "d":
                kinds.add("emptydir")
    return kinds


def part_e2e(chk, tier, jobs=None):
    if jobs is None:
        jobs = [gen_job(au.sub_rng(chk.rng), shape="d5", rich=True, git=False),
                gen_job(au.sub_rng(chk.rng), shape="d5rev", rich=True, git=True)]
        n = 14 if tier == "quick" else 330
        for _ in range(n):
            jobs.append(gen_job(au.sub_rng(chk.rng)))
    results = au.run_jobs(e2e_job, jobs)
    exprs, wants, meta = [], [], []
    nontrivial = set()
    for job, res in zip(jobs, results):
        g = au.spec_graph(job["spec"])
        shape = "g->[e1,mid];mid->[e1]" if [t["name"] for t in job["spec"]["tasks"]] == ["e1", "mid", "g"] else "generated"
        kinds = tree_kind(job["spec"])
        chk.count("projects", "git" if job["spec"]["git"] else "no-git")
        chk.count("versions per project", str(min(res["n_rows"], 9)))
        for rec in res["variants"]:
            v = rec["variant"]
            chk.coverage["evaluations"] += 1
            chk.count("archive flags", ("task" if v["target"] else "all") + ("+latest" if v["latest"] else ""))
            chk.count("target project", v["qmode"] if rec["tag"] == 0 else "archive-refused")
            if rec["tag"] == 0 and rec.get("pre_ok") and len(rec["selected"]) >= 2:
                nontrivial.add(repr((job["spec"], v)))
            for what in rec["problems"]:
                chk.violation("impl-violation", "archive %s%s -> %s -> restore: %s" % (v["target"] or "(all)", " --latest" if v["latest"] else "", v["qmode"], what),
                              {"input": {"kind": "e2e", "job": {"spec": job["spec"], "variants": [v]}},
                               "impl_observation": {k: rec.get(k) for k in ("archive_exit", "archive_err", "restore_exit", "restore_err", "selected")},
                               "oracle_verdict": what},
                              match_key={"graph": shape, "tree": "symlink" if "symlink" in kinds else "plain"},
                              size=len(job["spec"]["tasks"]))
            e, w = e2e_model_case(g, rec)
            exprs.append(e)
            wants.append(w)
            meta.append((job, rec))
            if len(rec["selected"]) >= 2:
                chk.sample({"tasks": [au.task_str(t["pkg"], t["name"]) + ":" + t["kind"] for t in job["spec"]["tasks"]],
                            "history": job["spec"]["history"], "archive": [v["target"], v["latest"], v["qmode"]],
                            "selected": [[r[0], r[1]] for r in rec["selected"]], "archive_exit": rec["archive_exit"],
                            "restore_exit": rec.get("restore_exit")})
    return jobs, exprs, wants, meta, len(nontrivial)


# =================================================================== driver
def compare(chk, label, exprs, wants, describe, shard=300):
    """evaluate the model on the cases inside Coq and compare with the packed observations"""
    if not exprs:
        return 0
    shards_e = [exprs[i:i + shard] for i in range(0, len(exprs), shard)]
    shards_w = [wants[i:i + shard] for i in range(0, len(wants), shard)]
    res = run_packed_cases(au.IMPORTS, au.DEFS, [clist(s) for s in shards_e], shards_w)
    agree = 0
    for si, (ok, bad, raw) in enumerate(res):
        if not ok:
            chk.violation("correspondence", "%s: model evaluation failed: %s" % (label, raw[-300:]),
                          {"theorem_or_tie": "correspondence Model/Archive.v (%s)" % label, "coq_output": raw}, found_input=False)
            continue
        agree += len(shards_e[si]) - len(bad)
        for i in bad[:3]:
            k = si * shard + i
            chk.violation("correspondence", "%s: Model/Archive.v and the implementation disagree on case #%d: %s" % (label, k, describe(k)[:300]),
                          {"theorem_or_tie": "correspondence Model/Archive.v vs conductor (%s)" % label, "case": describe(k), "coq_case": exprs[k][:2000]},
                          found_input=False)
    chk.coverage["traces_validated_against_impl"] += agree
    chk.coverage["disagreements_checked"] += len(exprs)
    return agree


def part_output_decision(chk):
    """Model/ArchiveOut.v handle_output_path vs the real conductor.cli.archive.handle_output_path on real file-system
    configurations of the -o argument (absent; a directory; a file; links to either; a dangling link; absent below a
    directory / a file / nothing; relative spellings).  The probe (exists / is_dir / parent ...) is taken independently
    with os.path; the real function's answer is classified by what it returned or raised."""
    import pathlib
    import types
    import conductor.cli.archive as arch
    from conductor.errors import OutputFileExists, OutputPathDoesNotExist

    base = new_dir("outdec")
    os.makedirs(os.path.join(base, "cond-out"))
    os.makedirs(os.path.join(base, "adir", "sub"))
    open(os.path.join(base, "afile"), "w").write("x")
    open(os.path.join(base, "adir", "old.tar.gz"), "w").write("x")
    os.symlink("adir", os.path.join(base, "link-to-dir"))
    os.symlink("afile", os.path.join(base, "link-to-file"))
    os.symlink("nowhere", os.path.join(base, "dangling"))
    ctx = types.SimpleNamespace(output_path=pathlib.Path(base, "cond-out"))
    raws = [None, "adir", "adir/", "adir/sub", "afile", "adir/old.tar.gz", "link-to-dir", "link-to-file", "dangling", "new.tar.gz", "adir/new.tar.gz", "adir/sub/../new.tar.gz",
            "afile/new.tar.gz", "missing/new.tar.gz", "missing/deeper/new.tar.gz", "link-to-dir/new.tar.gz", "dangling/new.tar.gz", ".", "..", "./new.tar.gz", "adir/res:v1.tar.gz",
            os.path.join(base, "abs-new.tar.gz"), os.path.join(base, "afile"), os.path.join(base, "adir"), "cond-out", "cond-out/new.tar.gz"]
    exprs, wants, descr = [], [], []
    cwd = os.getcwd()
    os.chdir(base)
    saved_gen = arch.generate_archive_name
    arch.generate_archive_name = lambda: "cond-archive+pinned.tar.gz"        # the clock, pinned: two archives "within the same second"
    open(os.path.join(base, "link-to-dir", "cond-archive+pinned.tar.gz"), "w").write("made a moment ago")     # = adir/...
    try:
        for raw in raws + [None, "adir/sub", "cond-out"]:
            if len(descr) == len(raws):             # second pass: the generated name is taken in cond-out as well
                open(os.path.join(base, "cond-out", "cond-archive+pinned.tar.gz"), "w").write("made a moment ago")
            gen_in = ctx.output_path if raw is None else pathlib.Path(raw)
            gen_exists = os.path.exists(os.path.join(str(gen_in), "cond-archive+pinned.tar.gz")) if (raw is None or os.path.isdir(raw)) else False
            if raw is None:
                probe = (False, False, False, False, False)
            else:
                parent = os.path.dirname(raw.rstrip("/")) if raw not in (".", "..") else ""       # pathlib drops a trailing slash; Path('.').parent is '.'
                parent = parent or "."
                if raw == "..":
                    parent = ".."
                probe = (True, os.path.exists(raw), os.path.isdir(raw), os.path.exists(parent), os.path.isdir(parent))
            try:
                res = arch.handle_output_path(ctx, raw)
                if raw is None:
                    code = 0 if res.parent == ctx.output_path else 99
                elif res == pathlib.Path(raw):
                    code = 2
                elif res.parent == pathlib.Path(raw):
                    code = 1
                else:
                    code = 99
            except OutputFileExists:
                code = 3
            except OutputPathDoesNotExist:
                code = 4
            chk.coverage["evaluations"] += 1
            chk.count("output-decision", {0: "generated in cond-out", 1: "generated in the given directory", 2: "the given path", 3: "refused: exists", 4: "refused: no such directory"}.get(code, "other"))
            probe = tuple(probe) + (gen_exists,)
            exprs.append("decision_code (handle_output_path {| o_given := %s; o_exists := %s; o_is_dir := %s; o_parent_exists := %s; o_parent_is_dir := %s; o_gen_exists := %s |})" % tuple(cbool(b) for b in probe))
            wants.append(code)
            descr.append((raw, probe, code))
    finally:
        os.chdir(cwd)
        arch.generate_archive_name = saved_gen
    if chk.coq.model_ok:
        ok, bad, rawout = run_packed_cases("From Conductor Require Import Lib.Cmp Model.ArchiveOut.", "", [clist(exprs)], [wants])[0]
        if not ok:
            chk.violation("correspondence", "output decision: model evaluation failed: %s" % rawout[-300:], {"theorem_or_tie": "correspondence Model/ArchiveOut.v", "coq_output": rawout}, found_input=False)
        elif bad:
            for i in bad[:3]:
                chk.violation("correspondence", "Model/ArchiveOut.v handle_output_path and cli/archive.py disagree on -o %r (probe %r): the implementation's answer is %r" % descr[i],
                              {"theorem_or_tie": "correspondence Model/ArchiveOut.v vs cli/archive.py handle_output_path", "case": repr(descr[i])}, found_input=False)
        else:
            chk.coverage["traces_validated_against_impl"] += len(exprs)
        chk.coverage["disagreements_checked"] += len(exprs)


def names_that_look_like_options(chk):
    """The identifier grammar allows `-` anywhere in a segment, also in front: an experiment `-x` of the root package, a
    package `-p`, names such as `--help`.  Their output directories (`-x.task.<ts>`, `-p/...`) are tar MEMBER names, not
    options: `cond archive` must succeed and `cond restore` into a checkout lacking the versions must recreate exactly
    them.  (D42: the member names were handed to tar without `--`; `cond archive` failed for every project that holds
    such a task.)"""
    files = {"COND": 'run_experiment(name="-x", run="echo x > $COND_OUT/r")\nrun_experiment(name="--help", run="echo h > $COND_OUT/r")\nrun_experiment(name="plain", run="echo p > $COND_OUT/r")\n'
                     'group(name="all", deps=[":-x", ":--help", ":plain", "//-p:t", "//-p/-q:-C"])\n',
             "-p/COND": 'run_experiment(name="t", run="echo t > $COND_OUT/r")\n', "-p/-q/COND": 'run_experiment(name="-C", run="echo c > $COND_OUT/r")\n'}
    src = implrun.make_project(files, name="dash-src")
    r = implrun.run_cond(["run", "//:all"], src)
    rows = sorted((x[0], x[1]) for x in au.project_rows(src))
    chk.coverage["evaluations"] += 1
    chk.count("dash-names", "projects")
    problems = []
    if r.code != 0 or len(rows) != 5:
        problems.append("harness: `cond run //:all` exited %s, recorded %r" % (r.code, rows))
    for argv, want in ((["archive", "-o", "all.tar.gz"], rows), (["archive", "//:-x", "-o", "one.tar.gz"], [k for k in rows if k[0] == "//:-x"]), (["archive", "-l", "//-p/-q:-C", "-o", "deep.tar.gz"], [k for k in rows if k[0] == "//-p/-q:-C"])):
        if problems:
            break
        a = implrun.run_cond(argv, src)
        chk.coverage["evaluations"] += 1
        apath = os.path.join(src, argv[-1])
        if a.code != 0 or not os.path.isfile(apath):
            problems.append("`cond %s` failed (exit %s): %s" % (" ".join(argv), a.code, implrun.strip_ansi(a.out + a.err).strip()[-200:]))
            continue
        dst = implrun.make_project(files, name="dash-dst")
        rr = implrun.run_cond(["restore", apath], dst)
        got = sorted((x[0], x[1]) for x in au.project_rows(dst))
        same = all(implrun.tree_snapshot(os.path.join(dst, au.OUT, au.vdir_rel(*k))) == implrun.tree_snapshot(os.path.join(src, au.OUT, au.vdir_rel(*k))) for k in want) if got == want else False
        if rr.code != 0 or got != want or not same:
            problems.append("`cond %s` then `cond restore`: exit %s, restored versions %r (selected: %r), trees identical: %s" % (" ".join(argv), rr.code, got, want, same))
        shutil.rmtree(os.path.dirname(dst), ignore_errors=True)
    for msg in problems[:2]:
        chk.violation("impl-violation", "tasks and packages whose names start with '-': %s" % msg, {"input": {"kind": "dash-names", "files": files}, "oracle_verdict": msg}, match_key={"part": "dash-names"}, size=3)
    if not problems:
        chk.coverage["traces_validated_against_impl"] += 3


def archives_within_the_same_second(chk):
    """The names Conductor generates for archives (`cond archive` without -o, or with -o <directory>) carry the time to the
    second.  With the clock pinned (generate_archive_name replaced in the forked child: the only intervention) a second
    `cond archive` "within the same second" -- one that fails because nothing is archivable, one that would succeed -- must
    leave the archive made a moment ago byte for byte as it is; the later one is refused.  (D43: the generated name was
    never tested for existence: the failing command's handler unlinked the earlier archive, a succeeding one overwrote it.)"""
    import hashlib

    def pin():
        import conductor.cli.archive as a

        a.generate_archive_name = lambda: "cond-archive+pinned.tar.gz"

    files = {"COND": 'run_experiment(name="e", run="echo e > $COND_OUT/r")\nrun_experiment(name="f", run="echo f > $COND_OUT/r")\nrun_experiment(name="never", run="true")\n'}
    digest = lambda p: hashlib.sha1(open(p, "rb").read()).hexdigest() if os.path.isfile(p) else None
    for where_ in ("cond-out", "-o directory"):
        root = implrun.make_project(files)
        os.makedirs(os.path.join(root, "store"))
        for t in ("//:e", "//:f"):
            implrun.run_cond(["run", t], root)
        extra = [] if where_ == "cond-out" else ["-o", "store"]
        target = os.path.join(root, "cond-out" if where_ == "cond-out" else "store", "cond-archive+pinned.tar.gz")
        first = implrun.run_cond(["archive", "//:e"] + extra, root, pre=pin)
        h0 = digest(target)
        problems = []
        if first.code != 0 or h0 is None:
            problems.append("harness: the first archive failed: %r" % (first,))
        for what, argv in (("an archive of a task without outputs", ["archive", "//:never"] + extra), ("an archive of another task", ["archive", "//:f"] + extra), ("the same archive again", ["archive", "//:e"] + extra)):
            if problems:
                break
            r = implrun.run_cond(argv, root, pre=pin)
            chk.coverage["evaluations"] += 1
            chk.count("same-second", where_)
            h1 = digest(target)
            if h1 != h0:
                problems.append("%s made within the same second (`cond %s`, exit %s) %s the archive made a moment ago (%s)" % (what, " ".join(argv), r.code, "removed" if h1 is None else "replaced", os.path.relpath(target, root)))
            elif r.code == 0:
                problems.append("`cond %s` reports success although the generated name was taken" % " ".join(argv))
        for msg in problems[:2]:
            chk.violation("impl-violation", "two `cond archive` within the same second (generated name in %s): %s" % (where_, msg),
                          {"input": {"kind": "same-second", "where": where_, "files": files}, "oracle_verdict": msg}, match_key={"part": "same-second"}, size=3)
        if not problems:
            chk.coverage["traces_validated_against_impl"] += 3


def refused_archives_change_nothing(chk):
    """"Archiving never changes the source project's recorded versions or outputs" -- also when `cond archive` REFUSES
    to write: `-o` names a file that exists (an archive made a moment ago; a file inside a recorded output directory),
    the task does not exist, nothing in the closure is archivable, the identifier is not one.  Each of these must end
    non-zero, leave every existing file (the earlier archive, the outputs), the recorded rows and the trees of cond-out
    as they were and leave no new file behind; the earlier archive must still restore.  (Seed C11/i: the existence test
    moved inside the try whose handler unlinks a PARTIAL archive -- the file it refused to overwrite was removed.  Seed
    C20/j: `cond archive ""` took the empty string for "no identifier" and archived the whole project.)"""
    import hashlib

    files = {"COND": 'run_command(name="plain", run="true")\n',
             "sweep/inner/COND": 'run_experiment(name="exp", run="echo $RANDOM > $COND_OUT/data.csv; ln -s data.csv $COND_OUT/l; mkdir $COND_OUT/empty")\n',
             "other/COND": 'run_experiment(name="o", run="echo o > $COND_OUT/o.txt")\n'}
    root = implrun.make_project(files)
    for extra in ([], ["--again"]):
        implrun.run_cond(["run", "//sweep/inner:exp"] + extra, root)
    implrun.run_cond(["run", "//other:o"], root)
    rows = implrun.index_rows(root)
    out = os.path.join(root, "cond-out")
    vdir = sorted(d for d in os.listdir(os.path.join(out, "sweep", "inner")) if d.startswith("exp.task."))
    digest = lambda p: hashlib.sha1(open(p, "rb").read()).hexdigest() if os.path.isfile(p) else None
    backup = os.path.join(root, "backup.tar.gz")
    first = implrun.run_cond(["archive", "//sweep/inner:exp", "-o", "backup.tar.gz"], root)
    problems = []
    if first.code != 0 or not os.path.isfile(backup) or len(vdir) != 2 or len(rows) != 3:
        problems.append("harness: set-up failed: %r rows=%r dirs=%r" % (first, rows, vdir))
    inside = os.path.join("cond-out", "sweep", "inner", vdir[-1], "data.csv") if vdir else "cond-out/x"
    attempts = [("the same -o again", ["archive", "//sweep/inner:exp", "-o", "backup.tar.gz"], None),
                ("-o an existing file, --latest, whole project", ["archive", "--latest", "-o", "backup.tar.gz"], None),
                ("-o a file inside a recorded output", ["archive", "-o", inside], None),
                ("a task that does not exist", ["archive", "//sweep/inner:nope", "-o", "new1.tar.gz"], "new1.tar.gz"),
                ("a task without archivable outputs", ["archive", "//:plain", "-o", "new2.tar.gz"], "new2.tar.gz"),
                ("the empty string as identifier", ["archive", "", "-o", "new3.tar.gz"], "new3.tar.gz"),
                ("a padded identifier", ["archive", " //other:o", "-o", "new4.tar.gz"], "new4.tar.gz"),
                ("an identifier without a name", ["archive", "//other", "-o", "new5.tar.gz"], "new5.tar.gz")]
    for what, argv, newfile in attempts:
        before = (digest(backup), implrun.tree_snapshot(out, skip=("version_index.sqlite",)), implrun.index_rows(root), sorted(os.listdir(root)))
        res = implrun.run_cond(argv, root)
        after = (digest(backup), implrun.tree_snapshot(out, skip=("version_index.sqlite",)), implrun.index_rows(root), sorted(os.listdir(root)))
        chk.coverage["evaluations"] += 1
        chk.count("refused-archive", what)
        msgs = []
        if res.code == 0:
            msgs.append("was accepted (exit 0): %s" % implrun.strip_ansi(res.out).strip()[-160:])
        if after[0] != before[0]:
            msgs.append("the archive written earlier (backup.tar.gz) was %s" % ("removed" if after[0] is None else "changed"))
        if after[1] != before[1]:
            msgs.append("the outputs under cond-out changed: %r" % sorted(set(before[1].items()) ^ set(after[1].items()))[:3])
        if after[2] != before[2]:
            msgs.append("the recorded versions changed: %r -> %r" % (before[2], after[2]))
        if after[3] != before[3]:
            msgs.append("files appeared or disappeared in the project root: %r" % sorted(set(before[3]) ^ set(after[3])))
        for m in msgs[:2]:
            problems.append("`cond %s` (%s) %s" % (" ".join(repr(a) if a == "" or " " in a else a for a in argv), what, m))
        if not msgs:
            chk.coverage["traces_validated_against_impl"] += 1
    # the earlier archive still restores into a project that lacks the versions
    if not problems:
        dest = implrun.make_project(files, name="dest")
        shutil.copy(backup, os.path.join(dest, "backup.tar.gz"))
        r = implrun.run_cond(["restore", "backup.tar.gz"], dest)
        got = [x for x in implrun.index_rows(dest)]
        want = [x for x in rows if x[0] == "//sweep/inner:exp"]
        if r.code != 0 or got != want or implrun.tree_snapshot(os.path.join(dest, "cond-out", "sweep")) != implrun.tree_snapshot(os.path.join(out, "sweep")):
            problems.append("the archive made before the refused attempts no longer restores the selected versions: exit %s rows %r (wanted %r)" % (r.code, got, want))
    for msg in problems[:3]:
        chk.violation("impl-violation", "refused archive: %s" % msg, {"input": {"kind": "refused-archives", "files": files, "attempts": [a[1] for a in attempts]}, "oracle_verdict": msg},
                      match_key={"part": "refused-archives"}, size=3)


def run(tier, seed, replay=None):
    chk = Check("C11", tier, seed)
    chk.build_proofs(["Model/Archive.vo", "Model/ArchiveOut.vo", "Lib/Cmp.vo", "Refuted/TraverseOld.vo"])
    setup_impl_path()
    new_dir("warm")

    if replay is not None:
        inp = replay.get("input") or {}
        if inp.get("kind") == "copy":
            case = ([tuple(r) for r in inp["src"]], [tuple(r) for r in inp["dest0"]], inp["tasks"], inp["latest"])
            view, n = real_copy(*case)
            print("replay: copy_entries_to -> rows=%r count=%r; documented selection=%r" % (view, n, spec_selection(case[0], case[2], case[3])))
            oracle_copy(chk, case, view, n)
        elif inp.get("kind") == "trav":
            chk2 = chk
            saved = trav_graphs
            globals()["trav_graphs"] = lambda _c, _t: [([tuple(d) for d in inp["deps"]], inp["archivable"], inp["root"])]
            try:
                part_traverse(chk2, tier)
            finally:
                globals()["trav_graphs"] = saved
        elif inp.get("kind") == "e2e":
            _jobs, exprs, wants, meta, _n = part_e2e(chk, tier, jobs=[inp["job"]])
            for _job, rec in meta:
                print("replay: archive exit=%r restore exit=%r selected=%r problems=%r" % (rec["archive_exit"], rec.get("restore_exit"), rec["selected"], rec["problems"]))
            if chk.coq.model_ok:
                compare(chk, "archive->restore", exprs, wants, lambda k: repr(meta[k][1]["variant"]))
        else:
            print("replay: nothing to re-run (%s)" % replay.get("theorem_or_tie"))
        return chk.finish()

    cases, ex_a, w_a, nt_a = part_queries(chk, tier)
    graphs, ex_b, w_b, nt_b = part_traverse(chk, tier)
    _jobs, ex_c, w_c, meta, nt_c = part_e2e(chk, tier)
    refused_archives_change_nothing(chk)
    archives_within_the_same_second(chk)
    names_that_look_like_options(chk)
    part_output_decision(chk)
    au.equal_timestamps_across_tasks(chk, "C11")
    chk.coverage["distinct_nontrivial"] = nt_a + nt_b + nt_c
    chk.coverage["exhaustive"] = False
    chk.coverage["rule"] = (
        "(a) copy_entries_to on real sqlite: every subset of 2 tasks x 2 timestamps x 7 task lists x --latest x a clashing destination, then random tables "
        "(non-trivial = non-empty source table); (b) TaskType.traverse/compute_tasks_to_archive on the real TaskIndex: the D5 shape in both orders, every "
        "ordered-dependency DAG on 3 and 4 tasks, random DAGs on 5-8 tasks (non-trivial = some reachable task is listed by two tasks); (c) generated projects "
        "(1-4 packages incl. nested, experiments / commands / combine, trees with binary files, modes, empty dirs, dangling and directory symlinks, optional git "
        "with dirty runs) with real `cond run` histories, `cond archive` under every flag combination and output form, removal by clean / rmtree / deleting "
        "exactly the selected versions / a re-run, `cond restore` (non-trivial = restore of >= 2 selected versions into a project lacking them)"
    )
    if chk.coq.model_ok:
        compare(chk, "copy_entries_to", ex_a, w_a, lambda k: repr(cases[k]))
        compare(chk, "traverse", ex_b, w_b, lambda k: repr(graphs[k]))
        compare(chk, "archive->restore", ex_c, w_c, lambda k: repr((meta[k][0]["spec"]["history"], meta[k][1]["variant"], meta[k][1].get("archive_err"), meta[k][1].get("restore_err"))), shard=60)
    else:
        chk.violation("correspondence", "model does not build: " + chk.coq.log[-400:], {"theorem_or_tie": "build of Model/Archive.vo", "log": chk.coq.log[-3000:]}, found_input=False)
    if tier == "thorough":
        chk.run_coqchk()
    if os.environ.get("VERIF_DEBUG_ALL"):
        for v in chk.violations:
            print("  ?", v["kind"], v["summary"][:400])
    return chk.finish()
