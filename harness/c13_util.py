"""Helpers of harness/c13.py: tree specs on disk, the independent oracle of C13, generators.

A tree is a list of nodes; a node is ("f", name) | ("d", name, [nodes]) | ("l", name, target)
(symbolic link; only generated inside task directories, where gc never looks; read back as "f").
"""
import os
import sqlite3
import string

from common import cstr, clist, new_dir
import implrun

IDC = set(string.ascii_letters + string.digits + "-_")
DIGITS = "0123456789"


# ----------------------------------------------------------------------------- disk
def insert_rows(index_path, rows):
    conn = sqlite3.connect(index_path)
    try:
        for ident, ts in rows:
            conn.execute("INSERT INTO version_index VALUES (?, ?, NULL, 0)", (ident, ts))
        conn.commit()
    finally:
        conn.close()


def materialise(path, tree):
    for n in tree:
        p = os.path.join(path, n[1])
        if n[0] == "f":
            with open(p, "w", encoding="utf-8") as f:
                f.write("content of " + repr(n[1]))
        elif n[0] == "l":
            os.symlink(n[2], p)
        else:
            os.mkdir(p)
            materialise(p, n[2])


def read_tree(path):
    """the tree as the kernel lists it (os.listdir order = Path.iterdir order)"""
    out = []
    for n in os.listdir(path):
        p = os.path.join(path, n)
        if os.path.islink(p) or not os.path.isdir(p):
            out.append(("f", n))
        else:
            out.append(("d", n, read_tree(p)))
    return out


def filter_existing(path, tree):
    """the part of `tree` (an earlier listing of path) that still exists, in the earlier order"""
    out = []
    for n in tree:
        p = os.path.join(path, n[1])
        if not os.path.lexists(p):
            continue
        if n[0] == "f":
            out.append(n)
        else:
            out.append(("d", n[1], filter_existing(p, n[2])))
    return out


def tree_to_json(tree):
    return [[n[0], n[1]] if n[0] == "f" else [n[0], n[1], tree_to_json(n[2])] for n in tree]


def tree_from_json(j):
    return [("f", n[1]) if n[0] == "f" else ("d", n[1], tree_from_json(n[2])) for n in j]


def tree_size(tree):
    return sum(1 + (tree_size(n[2]) if n[0] == "d" else 0) for n in tree)


def tree_depth(tree):
    return max([0] + [1 + (tree_depth(n[2]) if n[0] == "d" else 0) for n in tree])


# ----------------------------------------------------------------------------- Coq literals
def cnode(n):
    if n[0] == "f":
        return "File %s" % cstr(n[1])
    return "Dir %s %s" % (cstr(n[1]), ctree(n[2]))


def ctree(tree):
    return clist([cnode(n) for n in tree])


def crows(rows):
    return clist(["(%s, %d)" % (cstr(i), t) for i, t in rows])


def cb(b):
    return "true" if b else "false"


# ----------------------------------------------------------------------------- the oracle
# Written from the property and website/docs (task names: letters, digits, '-', '_'; experiment
# outputs live in <name>.task.<timestamp>, other task outputs in <name>.task), not from gc.py.
def doc_name(s):
    return len(s) > 0 and all(c in IDC for c in s)


def parse_version_dir(n):
    parts = n.split(".")
    if len(parts) != 3 or parts[1] != "task" or not doc_name(parts[0]):
        return None
    ts = parts[2]
    if ts == "" or any(c not in DIGITS for c in ts) or ts[0] == "0":
        return None
    return parts[0], int(ts)


def is_regular_dir(n):
    return n.endswith(".task") and doc_name(n[: -len(".task")])


def looks_task(n):
    return parse_version_dir(n) is not None or is_regular_dir(n)


def canon_ident(s):
    """(path tuple, name) of a '//path/to:name' identifier, None if it is not one"""
    if not s.startswith("//"):
        return None
    body = s[2:]
    if body.count(":") != 1:
        return None
    p, n = body.split(":")
    if not doc_name(n):
        return None
    segs = p.split("/")
    if not all(doc_name(g) for g in segs[:-1]) or not (segs[-1] == "" or doc_name(segs[-1])):
        return None
    return (tuple(g for g in segs if g), n)


def all_dir_paths(tree, prefix=()):
    for n in tree:
        if n[0] == "d":
            q = prefix + (n[1],)
            yield q
            yield from all_dir_paths(n[2], q)


def recorded_set(rows):
    return {(canon_ident(i), t) for i, t in rows if canon_ident(i) is not None}


def expected_targets(tree, rows):
    """every directory p/<n>.task.<t> with no task-like component in p and (//p:n, t) unrecorded"""
    rec = recorded_set(rows)
    out = []
    for q in all_dir_paths(tree):
        v = parse_version_dir(q[-1])
        if v is None or any(looks_task(c) for c in q[:-1]):
            continue
        if ((tuple(q[:-1]), v[0]), v[1]) in rec:
            continue
        out.append(list(q))
    return out


def kept_version_dirs(tree, rows):
    """version-like directories that must survive (recorded, or shielded by a task directory above)"""
    targets = {tuple(q) for q in expected_targets(tree, rows)}
    out = []
    for q in all_dir_paths(tree):
        if parse_version_dir(q[-1]) is not None and not any(q[: k + 1] in targets for k in range(len(q))):
            out.append(q)
    return out


# ----------------------------------------------------------------------------- snapshots / output
def snap_without(snap, prefixes):
    pres = [os.path.normpath(p) for p in prefixes]
    out = {}
    for k, v in snap.items():
        if any(k == p or k.startswith(p + "/") for p in pres):
            continue
        out[k] = v
    return out


def snap_diff(want, got):
    d = []
    for k in sorted(set(want) | set(got)):
        if want.get(k) != got.get(k):
            d.append((k, "missing" if k not in got else ("unexpected" if k not in want else "changed")))
    return d


def last_name(diff):
    return os.path.basename(diff[0][0]) if diff else None


def split_lines(out, prefix):
    """['a', 'b'] for 'Would delete a\\nWould delete b\\n'; None if the text is not of that form"""
    if out == "":
        return []
    chunks = out.split(prefix)
    if chunks[0] != "" or not all(c.endswith("\n") for c in chunks[1:]):
        return None
    return [c[:-1] for c in chunks[1:]]


def first_diff(a, b):
    sa, sb = set(a), set(b)
    for x in sorted(sa ^ sb):
        return x
    return None


# ----------------------------------------------------------------------------- generators
def D(name, *children):
    return ("d", name, list(children))


def F(name):
    return ("f", name)


def corpus():
    """hand-picked cases that run first"""
    big = 99999999999999999999999  # > 2^64: can only be on disk, never in the index
    return [
        # the probe of DESIGN 6 / D15: a trailing newline is not version 5 of x
        ([D("x.task.5\n"), D("a", D("x.task.5\n", F("f")), D("x.task.5")), D("x.task\n", D("y.task.3"))], [("//a:x", 5)]),
        # nested packages, recorded and unrecorded versions side by side, look-alikes inside outputs
        (
            [
                D("a", D("x.task.5", F("stdout.log")), D("x.task.6", D("y.task.7")), D("x.task", D("z.task.9")), D("x.task.007"), D("x.task.5."), D("X.task.12", D("inner")), F("f.task.4")),
                D("b", D("c", D("z.task.9", F("r.txt")), D("z.task.10"))),
                D("a.b", D("q.task.3")),
                D("archive-tmp", D("cond-out", D("a", D("x.task.8")))),
                F("x.task.77"),
            ],
            [("//a:x", 5), ("//b/c:z", 10), ("//a:x", 8), ("//:x", 6)],
        ),
        # same task name at different paths; the row of one must not protect the other
        ([D("x.task.5"), D("a", D("x.task.5")), D("a-a", D("a", D("x.task.5")))], [("//a:x", 5)]),
        ([D("x.task.5"), D("a", D("x.task.5"))], [("//:x", 5)]),
        # timestamps: neighbours, leading zeros, zero, huge, non-ASCII digits
        ([D("t.task.1"), D("t.task.10"), D("t.task.01"), D("t.task.0"), D("t.task.%d" % big), D("t.task.٥"), D("t.task.５"), D("t.task.1_0")], [("//:t", 1), ("//:t", 100)]),
        # empty cond-out (only the index)
        ([], []),
        # a non-canonical but valid row ("//a/:x" is //a:x)
        ([D("a", D("x.task.5"), D("x.task.6"))], [("//a/:x", 5)]),
        # malformed rows: gc must refuse to run
        ([D("a", D("x.task.5"))], [("a:x", 5)]),
        ([D("a", D("x.task.5"))], [("//a:x", 5), ("//a:x\n", 6)]),
        # upper case / digits-only / dashes in task names
        ([D("A_b", D("7.task.7"), D("-.task.1"), D("_.task.2"), D("a b.task.3"), D("é.task.5"))], [("//A_b:7", 7)]),
        # a file where a version directory would be, a directory named like the index
        ([F("x.task.5"), D("version_index.sqlite.task.5"), D("p", F("y.task.1"), D("y.task.2"))], []),
    ]


def small_family():
    """4 fixed root directories, every subset of {x.task.5, x.task} below each, every subset of 3 rows"""
    inner_sets = [[], [D("x.task.5")], [D("x.task")], [D("x.task.5"), D("x.task")]]
    row_sets = [[], [("//:x", 5)], [("//a:x", 5)], [("//:x", 5), ("//a:x", 5)], [("//x:x", 5)]]
    roots = ["a", "x.task", "x.task.5", "x.task.5\n"]
    out = []

    def rec(i, acc):
        if i == len(roots):
            for rows in row_sets:
                out.append((list(acc), list(rows)))
            return
        for inner in inner_sets:
            rec(i + 1, acc + [D(roots[i], *inner)])

    rec(0, [])
    return out


PKG = ["a", "b", "pkg-1", "A_b", "x", "exp", "archive-tmp", "cond-out", "a.b", "my dir", "é", "task", "x.tasks", ".hidden", "x.task.d", "7"]
TASKN = ["x", "y", "run-1", "B_2", "task", "7"]
TSS = [1, 5, 9, 10, 12, 50, 1700000001, 1700000002, 99999999999999999999]
LOOKALIKE = [
    "x.task.007", "x.task.0", "x.task.05", "x.task.5.", "x.task.", "x.task.5\n", "x.task.5 ", ".task.5", "x..task.5",
    "x.Task.5", "x.task.5a", "x.task.-5", "x.task.+5", "x.task.5.6", "x y.task.5", "é.task.5", "x.task.٥",
    "x.task.５", "x.task\n", "x.taskk", "\nx.task.5", "x.task.5\n\n", "x.TASK", "x.task.5_", "x.task.1e3",
]


def version_name(rng):
    return "%s.task.%d" % (rng.choice(TASKN), rng.choice(TSS))


def gen_dir(rng, depth, budget, in_task):
    """children of a directory; budget = [remaining nodes]"""
    out, names = [], set()
    k = rng.choice([0, 1, 2, 2, 3, 3, 4, 5]) if depth > 0 else rng.choice([2, 3, 4, 5, 6])
    for _ in range(k):
        if budget[0] <= 0:
            break
        r = rng.random()
        if r < 0.25 and depth < 4:
            name, kind = rng.choice(PKG), "pkg"
        elif r < 0.55:
            name, kind = version_name(rng), "ver"
        elif r < 0.65:
            name, kind = rng.choice(TASKN) + ".task", "reg"
        elif r < 0.85:
            name, kind = rng.choice(LOOKALIKE), rng.choice(["pkg", "file", "leaf"])
        else:
            name, kind = rng.choice(["r.txt", "stdout.log", "args.json", version_name(rng), rng.choice(TASKN) + ".task", rng.choice(PKG)]), "file"
        if name in names:
            continue
        names.add(name)
        budget[0] -= 1
        if kind == "file":
            out.append(F(name))
        elif kind == "leaf":
            out.append(D(name))
        elif kind == "pkg":
            out.append(D(name, *gen_dir(rng, depth + 1, budget, in_task)))
        else:  # task output directory: content never looked at by gc
            inner = gen_dir(rng, depth + 1, budget, True) if rng.random() < 0.5 and depth < 4 else [F("stdout.log")]
            if rng.random() < 0.15 and "link" not in [c[1] for c in inner]:
                inner.append(("l", "link", "../" + version_name(rng)))
            out.append(D(name, *inner))
    return out


def random_case(rng):
    tree = gen_dir(rng, 0, [rng.choice([6, 12, 20, 35])], False)
    tree = [n if n[0] != "l" else F(n[1]) for n in tree]  # no links at the top (outside task directories)
    rows = []
    for q in all_dir_paths(_nolinks(tree)):
        v = parse_version_dir(q[-1])
        if v is None or v[1] >= 2 ** 63 or not all(doc_name(c) for c in q[:-1]):
            continue
        ident = "//" + "/".join(q[:-1]) + ":" + v[0]
        r = rng.random()
        if r < 0.45:
            rows.append((ident, v[1]))
        elif r < 0.55:
            rows.append((ident, v[1] + 1))
        elif r < 0.65:
            rows.append(("//" + "/".join(("zz",) + q[:-1]) + ":" + v[0], v[1]))
        elif r < 0.72 and len(q) > 1:
            rows.append(("//" + "/".join(q[:-2]) + ":" + v[0], v[1]))
    if rng.random() < 0.3:
        rows.append(("//nowhere:gone", 1700000000))
    if rng.random() < 0.04:
        rows.append((rng.choice(["a:x", "//a:x\n", "//a b:x", ":x", "//a//b:x"]), 3))
    rows = sorted(set(rows))
    return tree, rows


def _nolinks(tree):
    return [n if n[0] != "d" else ("d", n[1], _nolinks(n[2])) for n in tree if n[0] != "l"]


# ----------------------------------------------------------------------------- histories of real runs
ROOT_COND = """
run_experiment(name="ok", run="echo hi > $COND_OUT/r.txt")
run_experiment(name="bad", run="echo partial > $COND_OUT/r.txt; exit 3")
run_experiment(name="nest", run="mkdir -p $COND_OUT/inner.task.7 $COND_OUT/z.task; exit $NEST_RC")
run_command(name="cmd", run="mkdir -p $COND_OUT/q.task.5; echo x > $COND_OUT/q.task.5/f")
combine(name="comb", deps=[":ok", "//sub/deep:ok2"])
"""
DEEP_COND = """
run_experiment(name="ok2", run="true")
run_experiment(name="bad2", run="false")
run_experiment(name="flaky", run="exit $FLAKY_RC")
"""


def real_history(rng):
    top = new_dir("c13h")
    root = os.path.join(top, "p")
    os.makedirs(os.path.join(root, "sub", "deep"))
    os.makedirs(os.path.join(top, "sibling", "cond-out", "x.task.5"))
    with open(os.path.join(root, "cond_config.toml"), "w") as f:
        f.write("disable_git = true\n")
    with open(os.path.join(root, "COND"), "w") as f:
        f.write(ROOT_COND)
    with open(os.path.join(root, "sub", "deep", "COND"), "w") as f:
        f.write(DEEP_COND)
    cmds = [["run", "//:ok"], ["run", "//:ok", "--again"], ["run", "//:bad"], ["run", "//:nest"], ["run", "//:nest", "--again"], ["run", "//:cmd"],
            ["run", "//:comb"], ["run", "//sub/deep:bad2"], ["run", "//sub/deep:flaky"], ["run", "//sub/deep:flaky", "--again"], ["run", "//sub/deep:ok2", "--again"]]
    log = []
    for _ in range(rng.choice([4, 5, 6, 7])):
        c = rng.choice(cmds)
        env = {"NEST_RC": str(rng.choice([0, 1])), "FLAKY_RC": str(rng.choice([0, 0, 2]))}
        r = implrun.run_cond(c, root, env=env)
        log.append("%s%s->%d" % (" ".join(c[1:]), "" if "nest" not in c[1] and "flaky" not in c[1] else "[%s/%s]" % (env["NEST_RC"], env["FLAKY_RC"]), r.code))
    # manual additions afterwards
    if rng.random() < 0.5:
        with open(os.path.join(root, "cond-out", "notes.txt"), "w") as f:
            f.write("n")
    if rng.random() < 0.5:
        os.makedirs(os.path.join(root, "cond-out", "sub", "deep", "ok2.task.3"), exist_ok=True)
    return top, root, " ".join(log)
