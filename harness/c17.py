"""C17 -- commands behave the same from any directory inside the project (PARTIAL).

proofs : coq/Props/C17.v -- root discovery (nearest ancestor with the config file, same root from
         everywhere below it, MissingProjectRoot exactly when there is none) and every rendering of
         a printed path (gc, archive, where) is total and denotes the path it stands for.
tie    : (a) Model/Cwd.v:find_root vs the real Context.from_cwd on generated directory chains
             (config file present / absent / a directory of that name at every level; every cwd);
         (b) the renderings vs what `cond gc -n/-v`, `cond archive [-o ...]`, `cond where [-p]`
             really print from every working directory (packed channel);
         (c) NOT proved, differential testing of the implementation against itself: every
             subcommand x flag combination run from every directory of generated projects (root,
             package directories, directories without COND files, cond-out itself, inside task
             outputs) on equal copies of one project state -- exit status, resulting project tree
             (canonical snapshot), version index rows, what the tasks saw ($COND_OUT, $COND_DEPS,
             working directory) and stdout with printed paths resolved against the cwd must equal
             the run from the root.
"""
import multiprocessing
import os
import re
import shutil
import tarfile

from common import (Check, cstr, clist, copt, cbool, setup_impl_path, new_dir, ser_str, ser_list, ser_opt, ser_bool,
                    pack, run_packed_cases, NCPU)
import implrun
from c1718_util import (parts_of, COQ_LISTS_UPTO, cpath, cpaths, chunks, PKGS, Task, render_cond, read_trace, out_rel,
                        canon_timestamps, copy_tree, run_cond_retry, run_cond_at, preimport)

IMPORTS = "From Conductor Require Import Lib.Str Lib.Cmp Lib.Path Model.Cwd."

# ============================================================================= (a) root discovery
DEFS_ROOT = COQ_LISTS_UPTO + """
Definition root_case (cfgs : list (list str)) (cwd : list str) : N :=
  pack (ser_opt (ser_list ser_str) (find_root (fun d => mem_path d cfgs) cwd)).
"""


class RootProbe:
    """runs the real Context.from_cwd with a class that only records the root it is given"""

    def __init__(self):
        setup_impl_path()
        from conductor.context import Context
        from conductor.errors import MissingProjectRoot

        class Probe(Context):  # pylint: disable=too-few-public-methods
            def __init__(self, project_root):  # pylint: disable=super-init-not-called
                self.found = project_root

        self.Probe = Probe
        self.from_cwd = Context.from_cwd.__func__
        self.Missing = MissingProjectRoot

    def find(self, cwd):
        old = os.getcwd()
        os.chdir(cwd)
        try:
            return str(self.from_cwd(self.Probe).found)
        except self.Missing:
            return None
        finally:
            os.chdir(old)


def part_root(chk, tier):
    probe = RootProbe()
    depth = 4 if tier == "quick" else 5
    states = ["none", "file", "dir"]
    top = os.path.realpath(new_dir("c17root"))
    cases = []  # (cfg dirs (absolute parts), cwd parts, found parts | None)
    n = 0
    # exhaustive: every assignment of {nothing, config file, directory named like the config file} to a chain
    names = ["a", "b", "c", "d", "e"][:depth]
    import itertools

    for assign in itertools.product(states, repeat=depth):
        base = os.path.join(top, "t%d" % n)
        n += 1
        dirs = [os.path.join(base, *names[: i + 1]) for i in range(depth)]
        os.makedirs(dirs[-1])
        cfgs = []
        for d, st in zip(dirs, assign):
            p = os.path.join(d, "cond_config.toml")
            if st == "file":
                open(p, "w").close()
                cfgs.append(parts_of(d))
            elif st == "dir":
                os.makedirs(p)
        for d in dirs:
            found = probe.find(d)
            cases.append((cfgs, parts_of(d), None if found is None else parts_of(found)))
            # the property itself: nearest ancestor-or-self with the file
            exp = None
            q = d
            while True:
                if os.path.isfile(os.path.join(q, "cond_config.toml")):
                    exp = q
                    break
                if q == os.path.dirname(q):
                    break
                q = os.path.dirname(q)
            if found != exp:
                chk.violation("impl-violation", "from %s the project root found is %r, the nearest ancestor with cond_config.toml is %r" % (d[len(top):], found, exp),
                              {"input": {"kind": "root", "levels": list(assign), "cwd_depth": dirs.index(d) + 1}, "impl_observation": found, "oracle_verdict": exp},
                              match_key={"kind": "root"}, size=depth)
            chk.count("root_cases", "found" if found else "missing")
    shutil.rmtree(top, ignore_errors=True)
    chk.coverage["evaluations"] += len(cases)
    agree = 0
    if chk.coq.model_ok:
        shards = chunks(cases, 120)
        exprs = [clist(["root_case %s %s" % (cpaths(c[0]), cpath(c[1])) for c in sh]) for sh in shards]
        wants = [[pack(ser_opt(lambda r: ser_list(ser_str, r), c[2])) for c in sh] for sh in shards]
        for sh, (ok, bad, raw) in zip(shards, run_packed_cases(IMPORTS, DEFS_ROOT, exprs, wants)):
            if not ok:
                chk.violation("correspondence", "model evaluation failed (find_root): %s" % raw[-300:], {"theorem_or_tie": "correspondence Model/Cwd.v:find_root", "coq_output": raw}, found_input=False)
            elif bad:
                c = sh[bad[0]]
                chk.violation("correspondence", "Model/Cwd.v:find_root and Context.from_cwd disagree: config files in %r, cwd %r, impl found %r" % (c[0], c[1], c[2]),
                              {"theorem_or_tie": "correspondence Model/Cwd.v:find_root vs context.py:Context.from_cwd", "input": {"kind": "rootcase", "cfgs": c[0], "cwd": c[1]}, "impl_observation": c[2]}, found_input=False)
                agree += len(sh) - len(bad)
            else:
                agree += len(sh)
    return len(cases), agree


# ============================================================================= projects and states
def fixed_project():
    a = Task("rc", "", "a")
    b = Task("rc", "p/q", "b", deps=[a])
    e = Task("exp", "p", "e", deps=[a])
    f = Task("exp", "p/q/s", "f", deps=[b])
    x = Task("exp", "r", "x", fail=True)
    y = Task("exp", "p/q", "y", fail=True, deps=[a])
    g = Task("group", "p", "g", deps=[a, e])
    c = Task("combine", "r", "c", deps=[a, e, f, b])
    top = Task("group", "", "all", deps=[c, g, f])
    bad = Task("group", "", "bad", deps=[x, y])
    return [a, b, e, f, x, y, g, c, top, bad]


def gen_project(rng):
    pkgs = rng.sample(PKGS, k=rng.randint(2, 4))
    if "" not in pkgs:
        pkgs.append("")
    if not any("/" in p for p in pkgs):
        pkgs.append(rng.choice(["p/q", "p/q/s", "r/t"]))
    leaves = []
    for i in range(rng.randint(3, 5)):
        kind = rng.choice(["rc", "exp", "exp"])
        t = Task(kind, rng.choice(pkgs), ("a%d" if kind == "rc" else "e%d") % i)
        if leaves and rng.random() < 0.4:
            t.deps = rng.sample(leaves, 1)
        leaves.append(t)
    if not any(t.kind == "exp" for t in leaves):
        leaves.append(Task("exp", rng.choice(pkgs), "e9"))
    if not any(t.kind == "rc" for t in leaves):
        leaves.append(Task("rc", rng.choice(pkgs), "a9"))
    fails = [Task("exp", rng.choice(pkgs), "x%d" % i, fail=True) for i in range(rng.randint(1, 2))]
    g = Task("group", rng.choice(pkgs), "g", deps=rng.sample(leaves, 2))
    c = Task("combine", rng.choice(pkgs), "c", deps=rng.sample(leaves, rng.randint(1, min(3, len(leaves)))))
    top = Task("group", "", "all", deps=[c, g] + leaves)
    bad = Task("group", "", "bad", deps=fails)
    return leaves + fails + [g, c, top, bad]


EXTRA_FILES = {"docs/readme.txt": "no COND file here\n", "p/nocond/deep/readme.txt": "nor here\n"}


def rc(argv, root, cwd_rel, trace, stdin_data=None, chk=None, restore=None):
    cwd = os.path.normpath(os.path.join(root, cwd_rel))
    if chk is None:
        return run_cond_at(argv, cwd, env={"TRACE_DIR": trace}, stdin_data=stdin_data, timeout=20)
    return run_cond_retry(chk, argv, cwd, env={"TRACE_DIR": trace}, stdin_data=stdin_data, restore=restore)


class Counter:
    """stand-in for Check inside worker processes: collects counts and violations to send back"""

    def __init__(self):
        self.counts = {}
        self.violations = []
        self.coverage = {}

    def count(self, key, sub, n=1):
        d = self.counts.setdefault(key, {})
        d[sub] = d.get(sub, 0) + n

    def violation(self, kind, summary, replay, found_input=True, match_key=None, size=0):
        self.violations.append((kind, summary, replay, found_input, match_key, size))


def prepare_states(tasks, chk):
    """builds the pristine states; returns {state name: root path}, all under one scratch directory.
    Every state is reached by commands issued from the project root."""
    files = dict(render_cond(tasks))
    files.update(EXTRA_FILES)
    base = new_dir("c17state")
    states = {}

    def fresh(name, src=None):
        d = os.path.join(base, name)
        os.makedirs(d)
        root = os.path.join(d, "p")
        if src is None:
            os.makedirs(root)
            for rel, text in dict(files, **{"cond_config.toml": "disable_git = true\n"}).items():
                p = os.path.join(root, rel)
                os.makedirs(os.path.dirname(p), exist_ok=True)
                with open(p, "w", encoding="utf-8") as fh:
                    fh.write(text)
        else:
            copy_tree(src, root)
        os.makedirs(os.path.join(d, "trace"))
        return root

    s0 = fresh("S0")
    states["S0"] = s0
    s2 = fresh("S2", s0)
    tr = os.path.join(os.path.dirname(s2), "trace")
    for argv in (["run", "//:all"], ["run", "//:all", "--again"], ["run", "//:bad"], ["run", "//:bad"], ["archive", "-o", "arch.tar.gz"]):
        res = rc(argv, s2, ".", tr, chk=chk)
        expect = 1 if argv[1] == "//:bad" else 0
        if (res.code == 0) != (expect == 0) or res.code < 0:
            raise RuntimeError("state preparation: cond %s exited %d: %s" % (" ".join(argv), res.code, res.err[-400:]))
    # the same archive under a name containing ':' (tar takes a RELATIVE name `host:file` for a remote archive; D28)
    shutil.copy(os.path.join(s2, "arch.tar.gz"), os.path.join(s2, "ar:ch.tar.gz"))
    states["S2"] = s2
    s3 = fresh("S3", s2)
    res = rc(["clean", "-f"], s3, ".", tr, chk=chk)
    if res.code != 0:
        raise RuntimeError("state preparation: clean failed")
    states["S3"] = s3
    return base, states


def known_timestamps(root):
    known = set()
    for _r, dirs, _f in os.walk(os.path.join(root, "cond-out")):
        for d in dirs:
            m = re.search(r"^(.*)\.task\.(\d+)$", d)
            if m:
                known.add((m.group(1), int(m.group(2))))
    return known


def cwd_candidates(root, tasks):
    cands = ["."]
    for t in tasks:
        if t.pkg and t.pkg not in cands:
            cands.append(t.pkg)
    cands += ["docs", "p/nocond/deep"]
    co = os.path.join(root, "cond-out")
    if os.path.isdir(co):
        cands.append("cond-out")
        rcs = [t for t in tasks if t.kind == "rc" and os.path.isdir(os.path.join(root, out_rel(t.pkg, t.name)))]
        if rcs:
            cands.append(out_rel(rcs[-1].pkg, rcs[-1].name))
        for r_, dirs, _f in os.walk(co):
            vd = sorted(d for d in dirs if re.search(r"\.task\.\d+$", d))
            if vd:
                cands.append(os.path.relpath(os.path.join(r_, vd[0]), root))
                break
    return [c for c in cands if os.path.isdir(os.path.join(root, c))]


def commands_for(state, tasks, root):
    """[(label, argv builder(cwd_abs) -> argv, stdin)] -- paths given on the command line designate the same
    absolute location from every cwd"""
    rcs = [t for t in tasks if t.kind == "rc"]
    exps = [t for t in tasks if t.kind == "exp" and not t.fail]
    nested = [t for t in exps + rcs if t.pkg]
    combine = [t for t in tasks if t.kind == "combine"][0]
    group = [t for t in tasks if t.kind == "group" and t.name == "g"][0]
    fixed = lambda *a: (lambda cwd: list(a))  # noqa: E731
    cmds = []

    def add(label, builder, stdin=None):
        cmds.append((label, builder, stdin))

    def rel(target):
        return lambda cwd: os.path.relpath(os.path.join(root, target), cwd)

    if state == "S0":
        add("run all", fixed("run", "//:all"))
        add("run --check", fixed("run", "//:all", "--check"))
        if nested:
            add("run nested", fixed("run", nested[0].id[2:]))
        add("where -f rc", fixed("where", "-f", rcs[0].id))
        add("where rc (none)", fixed("where", rcs[0].id))
        add("where exp (none)", fixed("where", exps[0].id))
        add("gc", fixed("gc"))
        add("gc -n", fixed("gc", "-n"))
        add("archive (nothing)", fixed("archive"))
        add("clean -f", fixed("clean", "-f"))
        add("run unknown task", fixed("run", "//:nope"))
        # the short spelling `:name` of a task of the ROOT package means //:name from every directory (also from a package directory)
        add("run --check short id", fixed("run", ":all", "--check"))
        add("run short id", fixed("run", ":all"))
        for t in [t for t in rcs + exps if not t.pkg][:1]:
            add("where -f short id", fixed("where", "-f", ":" + t.name))
    elif state == "S2":
        add("run --check short id", fixed("run", ":all", "--check"))
        add("archive short id", fixed("archive", ":all"))
        for t in [t for t in rcs + exps if not t.pkg][:2]:
            add("where short id " + t.kind, fixed("where", ":" + t.name))
        add("run all", fixed("run", "//:all"))
        add("run all --again", fixed("run", "//:all", "--again"))
        add("run --check", fixed("run", "//:all", "--check"))
        add("run -j2 --again", fixed("run", "-j", "2", "//:all", "--again"))
        add("run -e bad", fixed("run", "-e", "//:bad"))
        if nested:
            add("run nested --again", fixed("run", nested[0].id[2:], "--again"))
        for t, nm in ((rcs[0], "rc"), (exps[0], "exp"), (combine, "combine"), (group, "group")):
            for flags in ([], ["-p"], ["-f"], ["-p", "-f"]):
                add("where %s %s" % (" ".join(flags), nm), fixed("where", *(flags + [t.id])))
        add("gc", fixed("gc"))
        add("gc -n", fixed("gc", "-n"))
        add("gc -v", fixed("gc", "-v"))
        add("gc -n -v", fixed("gc", "-n", "-v"))
        add("archive", fixed("archive"))
        add("archive -l", fixed("archive", "-l"))
        add("archive task", fixed("archive", combine.id))
        add("archive -l task", fixed("archive", "-l", exps[0].id))
        add("archive -o absdir", lambda cwd: ["archive", "-o", os.path.join(root, "docs")])
        add("archive -o absfile", lambda cwd: ["archive", "-o", os.path.join(root, "docs", "new.tar.gz")])
        add("archive -o reldir", lambda cwd: ["archive", "-o", rel("docs")(cwd)])
        add("archive -o relfile", lambda cwd: ["archive", "-l", "-o", rel("docs/new.tar.gz")(cwd)])
        add("archive -o existing", lambda cwd: ["archive", "-o", rel("arch.tar.gz")(cwd)])
        add("archive -o missing parent", lambda cwd: ["archive", "-o", rel("nodir/x.tar.gz")(cwd)])
        add("archive -o relfile with colon", lambda cwd: ["archive", "-l", "-o", rel("docs/res:v1.tar.gz")(cwd)])
        add("restore duplicate", lambda cwd: ["restore", rel("arch.tar.gz")(cwd)])
        add("restore missing file", lambda cwd: ["restore", rel("none.tar.gz")(cwd)])
        add("clean -f", fixed("clean", "-f"))
        add("clean y", fixed("clean"), b"y\n")
        add("clean n", fixed("clean"), b"n\n")
        add("clean eof", fixed("clean"), b"")
    elif state == "S3":
        add("restore abs", lambda cwd: ["restore", os.path.join(root, "arch.tar.gz")])
        add("restore rel", lambda cwd: ["restore", rel("arch.tar.gz")(cwd)])
        add("restore rel with colon", lambda cwd: ["restore", rel("ar:ch.tar.gz")(cwd)])
        add("run all", fixed("run", "//:all"))
        add("where exp (none)", fixed("where", exps[0].id))
        add("gc -n", fixed("gc", "-n"))
    return cmds


# ----------------------------------------------------------------------------- canonical observations
_TIME_RE = re.compile(r"\(Ran for [0-9.]+ (seconds|minutes|hours)[^)]*\)")
_LOC_RES = []


def _loc_re():
    """lines that end with a location: gc's two messages (their wording is learnt from the code under test, see
    c13.wording) and archive's"""
    if not _LOC_RES:
        import c13  # pylint: disable=import-outside-toplevel

        heads = {"Would delete", "Deleting", "✨ Done! Archive saved as", c13.wording("-n").rstrip(" "), c13.wording("-v").rstrip(" ")}
        _LOC_RES.append(re.compile(r"^(%s) (.*)$" % "|".join(re.escape(h) for h in sorted(heads, key=len, reverse=True) if h)))
    return _LOC_RES[0]


def canon_stdout(text, cwd, known):
    """printed locations resolved against the working directory; times, new versions, archive names masked"""
    out = []
    locs = []
    for ln in implrun.strip_ansi(text).splitlines():
        ln = _TIME_RE.sub("(Ran for <T>)", ln)
        m = _loc_re().match(ln)
        if m:
            locs.append((m.group(1), m.group(2)))
            ln = m.group(1) + " " + os.path.normpath(os.path.join(cwd, m.group(2)))
        out.append(canon_timestamps(ln, known))
    return out, locs


def snapshot(root, known, mask_root=False):
    """canonical tree of the project: version timestamps / archive names masked, sqlite files reduced to a
    marker (their rows are compared separately), archives to their member lists"""

    def ct(text):
        return canon_timestamps(text.replace(root, "<ROOT>") if mask_root else text, known)

    snap = {}
    for k, v in implrun.tree_snapshot(root).items():
        p = os.path.join(root, k)
        if v[0] == "f":
            if k.endswith(".sqlite"):
                v = ("db",)
            elif k.endswith(".tar.gz"):
                try:
                    with tarfile.open(p) as tf:
                        v = ("tar", tuple(sorted(ct(n) for n in tf.getnames())))
                except (tarfile.TarError, OSError, EOFError) as ex:
                    v = ("tar-unreadable", type(ex).__name__)
            else:
                try:
                    text = open(p, encoding="utf-8").read()
                    v = ("f", ct(text) if len(text) < 4096 else v[1], v[2])
                except UnicodeDecodeError:
                    pass
        elif v[0] == "l":
            v = ("l", ct(v[1]))
        snap[ct(k)] = v
    return snap


def canon_rows(root, known):
    return sorted(((tid, str(ts) if (tid.split(":")[-1], ts) in known else "<NEW>") for tid, ts, _h, _u in implrun.index_rows(root)))


def canon_trace(trace, known):
    """what every executed task saw: $COND_OUT, its working directory, $COND_NAME, $COND_DEPS"""
    res = {}
    if os.path.isdir(trace):
        for n in sorted(os.listdir(trace)):
            res[n] = canon_timestamps(open(os.path.join(trace, n), encoding="utf-8").read(), known)
    return res


def observe_run(state_root, work, argv_builder, stdin, cwd_rel, known, counter):
    """one command from one directory on a fresh copy of the state placed at work/p"""
    root = os.path.join(work, "p")
    trace = os.path.join(work, "trace")

    def restore():
        copy_tree(state_root, root)
        if os.path.isdir(trace):
            shutil.rmtree(trace)
        os.makedirs(trace)

    restore()
    cwd = os.path.normpath(os.path.join(root, cwd_rel))
    argv = argv_builder(cwd)
    res = rc(argv, root, cwd_rel, trace, stdin_data=stdin, chk=counter, restore=restore)
    lines, locs = canon_stdout(res.out, cwd, known)
    err = [canon_timestamps(_TIME_RE.sub("(Ran for <T>)", ln), known) for ln in implrun.strip_ansi(res.err).splitlines()]
    return {
        "argv": argv, "cwd": cwd_rel, "code": res.code, "stdout": lines, "stderr": err, "locs": locs,
        "snapshot": snapshot(root, known), "rows": canon_rows(root, known), "trace": canon_trace(trace, known),
        "raw_out": res.out[-1500:], "raw_err": res.err[-1500:],
    }


def diff_obs(base, other):
    """first difference between the run from the root and the run from another directory"""
    if base["code"] != other["code"]:
        return "exit status %d from the root, %d from %s" % (base["code"], other["code"], other["cwd"])
    if base["snapshot"] != other["snapshot"]:
        ks = sorted(set(base["snapshot"]) | set(other["snapshot"]))
        for k in ks:
            if base["snapshot"].get(k) != other["snapshot"].get(k):
                return "resulting project tree differs at %r: %r from the root, %r from %s" % (k, base["snapshot"].get(k), other["snapshot"].get(k), other["cwd"])
    if base["rows"] != other["rows"]:
        return "version index rows differ: %r from the root, %r from %s" % (base["rows"], other["rows"], other["cwd"])
    if base["trace"] != other["trace"]:
        return "what the tasks saw (COND_OUT/COND_DEPS) differs: %r from the root, %r from %s" % (base["trace"], other["trace"], other["cwd"])
    if base["stdout"] != other["stdout"]:
        for i, (x, y) in enumerate(zip(base["stdout"] + [None], other["stdout"] + [None])):
            if x != y:
                return "stdout (locations resolved against the cwd) differs at line %d: %r from the root, %r from %s" % (i, x, y, other["cwd"])
        return "stdout differs in length"
    if base["code"] != 0 and [l for l in base["stderr"] if l.startswith("ERROR")] != [l for l in other["stderr"] if l.startswith("ERROR")]:
        return "reported error differs: %r from the root, %r from %s" % (base["stderr"][-1:], other["stderr"][-1:], other["cwd"])
    return None


def _work_one(job):
    """worker: one (state, command) from every directory; returns (violations, counts, model cases)"""
    (meta, state, state_root, ci, cwds, work_base) = job
    import c18  # pylint: disable=import-outside-toplevel

    tasks = c18.tasks_from_meta(meta)
    counter = Counter()
    work = os.path.join(work_base, "w-%s-%d" % (state, ci))
    os.makedirs(work, exist_ok=True)
    root = os.path.join(work, "p")
    label, builder, stdin = commands_for(state, tasks, root)[ci]
    known = known_timestamps(state_root)
    latest = {}
    for tid, ts, _h, _u in implrun.index_rows(state_root):
        latest[tid] = max(latest.get(tid, 0), ts)
    byid = {t.id: t for t in tasks}
    base_obs = None
    model_cases = []
    n = 0
    for cwd_rel in cwds:
        obs = observe_run(state_root, work, builder, stdin, cwd_rel, known, counter)
        n += 1
        counter.count("commands", label.split(" ")[0])
        counter.count("exit", str(obs["code"]))
        counter.count("cwd_kind", cwd_kind(cwd_rel))
        if base_obs is None:
            base_obs = obs
        else:
            d = diff_obs(base_obs, obs)
            if d is not None:
                counter.violation(
                    "impl-violation", "`cond %s` (%s, state %s): %s" % (" ".join(obs["argv"]), label, state, d[:600]),
                    {"input": {"kind": "command", "tasks": meta, "state": state, "command": label, "cwd": cwd_rel},
                     "impl_observation": {"from_root": {k: base_obs[k] for k in ("argv", "code", "raw_out", "raw_err")}, "from_cwd": {k: obs[k] for k in ("argv", "code", "raw_out", "raw_err")}},
                     "oracle_verdict": d},
                    True, {"command": label, "cwd": "root" if cwd_rel == "." else "subdir"}, len(parts_of(cwd_rel)))
        # renderings for the model
        cwd_parts = parts_of(os.path.normpath(os.path.join(root, cwd_rel)))
        for li, (what, shown) in enumerate(obs["locs"]):
            if what.startswith("✨"):
                continue
            # the location meant: what the run from the root printed (resolved there)
            bl = base_obs["locs"][li][1] if li < len(base_obs["locs"]) else shown
            target = parts_of(os.path.normpath(os.path.join(root, bl)))
            model_cases.append(("gc", cwd_parts, target, shown, state, label, cwd_rel, None))
        if obs["argv"][0] == "archive":
            # handle_output_path + the "Archive saved as" line
            o_arg = obs["argv"][obs["argv"].index("-o") + 1] if "-o" in obs["argv"] else None
            saved = [sh for wh, sh in obs["locs"] if wh.startswith("✨")]
            errs = [l for l in obs["stderr"] if l.startswith("ERROR")]
            if saved:
                observed = ("ok", parts_of(os.path.normpath(os.path.join(root, cwd_rel, saved[0]))), saved[0])
            elif errs and "points to an existing file" in errs[0]:
                observed = ("exists",)
            elif errs and "output path does not exist" in errs[0]:
                observed = ("missing",)
            else:
                observed = None  # failed for another reason (nothing to archive): not about the output path
            if observed is not None:
                ex, dirs = [], []
                if o_arg is not None:
                    loc = os.path.normpath(os.path.join(root, cwd_rel, o_arg))
                    for cand in (loc, os.path.dirname(loc) if loc != "/" else loc):
                        in_state = os.path.join(state_root, os.path.relpath(cand, root)) if (cand + "/").startswith(root + "/") else cand
                        if os.path.exists(in_state):
                            ex.append(parts_of(cand))
                        if os.path.isdir(in_state):
                            dirs.append(parts_of(cand))
                name = observed[1][-1] if observed[0] == "ok" else "N"
                model_cases.append(("archive", cwd_parts, parts_of(root), o_arg, name, ex, dirs, observed, state, label, cwd_rel))
        if obs["argv"][0] == "where" and obs["code"] == 0 and obs["stdout"]:
            t = byid[("//" + obs["argv"][-1]) if obs["argv"][-1].startswith(":") else obs["argv"][-1]]
            expected = parts_of(os.path.join(root, out_rel(t.pkg, t.name, latest.get(t.id) if t.kind == "exp" else None)))
            model_cases.append(("where", parts_of(root), "-p" in obs["argv"], implrun.strip_ansi(obs["raw_out"]).strip().splitlines()[-1], expected, state, label, cwd_rel))
    shutil.rmtree(work, ignore_errors=True)
    return counter.violations, counter.counts, model_cases, n, counter.coverage.get("hangs_retried", 0)


def cwd_kind(c):
    if c == ".":
        return "root"
    if c.startswith("cond-out"):
        return "cond-out" if c == "cond-out" else "inside a task output"
    if c.startswith("docs") or "nocond" in c:
        return "no COND file"
    return "package"


DEFS_RENDER = COQ_LISTS_UPTO + """
Definition gc_case (cwd p : list str) : N := pack (ser_str (show (gc_render cwd p))).
Definition where_case (root out : list str) (project : bool) : N :=
  pack (ser_opt (fun s => ser_str (show s)) (where_render root out project)).
Definition out_case (ex dirs : list (list str)) (cwd root : list str) (name : str) (raw : option user_path) : N :=
  pack (match handle_output_path (fun p => mem_path p ex) (fun p => mem_path p dirs) cwd root name raw with
        | OutOk u => 0 :: ser_list ser_str (locate cwd u) ++ ser_str (show (archive_render cwd u))
        | OutputFileExists => [1]
        | OutputPathDoesNotExist => [2]
        end).
"""


def user_path_of(arg):
    """pathlib.Path(arg): absolute or relative parts ('.' components dropped, '..' kept)"""
    parts = [x for x in arg.split("/") if x not in ("", ".")]
    return ("UAbs %s" if arg.startswith("/") else "URel %s") % cpath(parts), parts, arg.startswith("/")


def part_render(chk, model_cases):
    """what was printed vs what Model/Cwd.v renders"""
    exprs_all, wants_all, labels = [], [], []
    for c in model_cases:
        if c[0] == "gc":
            _k, cwd, target, shown, state, label, cwd_rel, _ = c
            exprs_all.append("gc_case %s %s" % (cpath(cwd), cpath(target)))
            wants_all.append(pack(ser_str(shown)))
        elif c[0] == "where":
            _k, root, project, shown, out, state, label, cwd_rel = c
            exprs_all.append("where_case %s %s %s" % (cpath(root), cpath(out), cbool(project)))
            wants_all.append(pack(ser_opt(ser_str, shown)))
            # `where` must not depend on the cwd at all: checked by diff_obs (stdout equal)
        else:
            _k, cwd, root, o_arg, name, ex, dirs, observed, state, label, cwd_rel = c
            raw = "None" if o_arg is None else "(Some (%s))" % user_path_of(o_arg)[0]
            exprs_all.append("out_case %s %s %s %s %s %s" % (cpaths(ex), cpaths(dirs), cpath(cwd), cpath(root), cstr(name), raw))
            if observed[0] == "ok":
                wants_all.append(pack([0] + ser_list(ser_str, observed[1]) + ser_str(observed[2])))
            else:
                wants_all.append(pack([1] if observed[0] == "exists" else [2]))
        labels.append(c)
    chk.coverage["evaluations"] += len(exprs_all)
    agree = 0
    if not exprs_all or not chk.coq.model_ok:
        return len(exprs_all), 0
    shards_e, shards_w, shards_l = chunks(exprs_all, 150), chunks(wants_all, 150), chunks(labels, 150)
    res = run_packed_cases(IMPORTS, DEFS_RENDER, [clist(s) for s in shards_e], shards_w)
    for ls, (ok, bad, raw) in zip(shards_l, res):
        if not ok:
            chk.violation("correspondence", "model evaluation failed (renderings): %s" % raw[-300:], {"theorem_or_tie": "correspondence Model/Cwd.v renderings", "coq_output": raw}, found_input=False)
        else:
            agree += len(ls) - len(bad)
            for i in bad[:2]:
                c = ls[i]
                chk.violation("correspondence", "Model/Cwd.v renders a path differently from `cond %s`: %r" % (c[0], c[1:]),
                              {"theorem_or_tie": "correspondence Model/Cwd.v:%s_render vs cli" % c[0], "case": list(c)}, found_input=False)
    for c in model_cases:
        chk.count("renderings", c[0])
    return len(exprs_all), agree


# ============================================================================= mixed-cwd histories
def mixed_history(chk, tasks, rng, label):
    """the same command sequence once entirely from the root and once with every command issued from a
    seed-chosen directory; the resulting project trees / index rows must be equal"""
    files = dict(render_cond(tasks))
    files.update(EXTRA_FILES)
    seq = [["run", "//:all"], ["run", "//:bad"], ["run", "//:all", "--again"], ["gc", "-v"], ["archive", "-o", "@arch.tar.gz"], ["clean", "-f"], ["restore", "@arch.tar.gz"], ["run", "//:all"], ["gc", "-n"]]
    results = []
    cwd_choice = None
    for mode in ("root", "mixed"):
        root = implrun.make_project(dict(files))
        trace = os.path.join(os.path.dirname(root), "trace")
        os.makedirs(trace)
        codes = []
        chosen = []
        for argv in seq:
            cands = cwd_candidates(root, tasks)
            cwd_rel = "." if mode == "root" else rng.choice(cands)
            chosen.append(cwd_rel)
            cwd = os.path.normpath(os.path.join(root, cwd_rel))
            if not os.path.isdir(cwd):
                cwd_rel, cwd = ".", root
            real = [os.path.relpath(os.path.join(root, a[1:]), cwd) if a.startswith("@") else a for a in argv]
            res = run_cond_retry(chk, real, cwd, env={"TRACE_DIR": trace})
            chk.coverage["evaluations"] += 1
            codes.append(res.code)
        # every version is new here: compare by rank
        known = set()
        results.append({"codes": codes, "snapshot": snapshot(root, known, mask_root=True), "rows": canon_rows(root, known), "chosen": chosen})
        shutil.rmtree(os.path.dirname(root), ignore_errors=True)
    a, b = results
    for k in ("codes", "rows", "snapshot"):
        if a[k] != b[k]:
            detail = ""
            if k == "snapshot":
                for key in sorted(set(a[k]) | set(b[k])):
                    if a[k].get(key) != b[k].get(key):
                        detail = " at %r: %r vs %r" % (key, a[k].get(key), b[k].get(key))
                        break
            chk.violation("impl-violation", "history %s: %s differ between all-from-root and commands issued from %r%s" % (label, k, b["chosen"], detail[:400]),
                          {"input": {"kind": "history", "tasks": [t.meta() for t in tasks], "cwds": b["chosen"], "sequence": seq}, "oracle_verdict": "%s differ%s" % (k, detail)},
                          match_key={"command": "history", "cwd": "subdir"}, size=len(seq))
            break
    chk.count("histories", "compared")


def outside_project(chk):
    """from a directory that has no ancestor with the config file every subcommand reports that, touches nothing"""
    d = new_dir("c17outside")
    for argv in (["run", "//:a"], ["where", "//:a"], ["gc"], ["archive"], ["clean", "-f"], ["restore", "x.tar.gz"]):
        res = run_cond_retry(chk, argv, d)
        chk.coverage["evaluations"] += 1
        if res.code == 0 or os.listdir(d):
            chk.violation("impl-violation", "`cond %s` outside any project: exit %d, files created: %r" % (" ".join(argv), res.code, os.listdir(d)),
                          {"input": {"kind": "outside", "argv": argv}, "impl_observation": {"exit": res.code, "stderr": res.err[-400:]}}, match_key={"command": "outside"})
    shutil.rmtree(d, ignore_errors=True)


def where_api_follows_the_working_directory(chk):
    """conductor.lib.where() answers for the project of the directory the process is in WHEN IT IS CALLED -- the nearest
    ancestor holding cond_config.toml -- also in one long-lived process that moves between an outer project and a project
    nested inside it (os.chdir between calls), in every order of visits.  (Seed C17/m: where() remembered the roots it had
    found and reused any remembered root that is an ancestor of the current directory.)"""
    import subprocess
    from common import PY, SRC

    base = new_dir("nested")
    outer = os.path.join(base, "outer")
    inner = os.path.join(outer, "pkg", "inner")
    for root in (outer, inner):
        os.makedirs(os.path.join(root, "sub"))
        open(os.path.join(root, "cond_config.toml"), "w").write("disable_git = true\n")
        open(os.path.join(root, "COND"), "w").write('run_command(name="t", run="true")\n')
        open(os.path.join(root, "sub", "COND"), "w").write('run_command(name="u", run="true")\n')
    visits = [os.path.join(outer, "sub"), inner, outer, os.path.join(inner, "sub"), os.path.join(outer, "pkg"), inner]
    server = ("import os, sys\nimport conductor.lib as L\n"
              "for d in sys.argv[1:]:\n"
              "    os.chdir(d)\n"
              "    try:\n        print('OK ' + str(L.where('//:t', non_existent_ok=True)), flush=True)\n"
              "    except BaseException as ex:\n        print('ERR ' + type(ex).__name__, flush=True)\n")
    for order in (visits, visits[::-1]):
        r = subprocess.run([PY, "-c", server] + order, env=dict(os.environ, PYTHONPATH=SRC), capture_output=True, text=True, timeout=120, cwd=base)
        got = r.stdout.split("\n")[:len(order)]
        chk.coverage["evaluations"] += len(order)
        chk.count("where-api", "visits", len(order))
        for d, g in zip(order, got):
            root = inner if (d + "/").startswith(inner + "/") else outer
            want = "OK " + os.path.join(root, "cond-out", "t.task")
            if g != want:
                chk.violation("impl-violation", "one process calling conductor.lib.where('//:t') after os.chdir(%s): got %r, the project of that directory is %s (visits so far: %r)"
                              % (os.path.relpath(d, base), g, os.path.relpath(root, base), [os.path.relpath(x, base) for x in order[:order.index(d) + 1]]),
                              {"input": {"part": "where-api", "visits": [os.path.relpath(x, base) for x in order]}, "impl_observation": got, "oracle_verdict": want}, match_key={"part": "where-api"}, size=3)
                break
        else:
            chk.coverage["traces_validated_against_impl"] = chk.coverage.get("traces_validated_against_impl", 0) + len(order)


def symlinked_cwd(chk):
    """the working directory is reached through symbolic links and the shell exports the LOGICAL path in $PWD
    (cd link && cond ...): root discovery and include() must behave as from the physical directory"""
    files = {"COND": 'run_command(name="r", run="true")\n', "pkg/COND": "include('c.cond')\nrun_command(name=\"a\", run=\"true\", deps=[\"//:r\"])\n",
             "pkg/c.cond": "X = 1\n", "pkg/sub/keep": ""}
    root = implrun.make_project(files)
    top = os.path.dirname(root)
    os.symlink(os.path.join(root, "pkg"), os.path.join(top, "pkg-link"))        # a package directory reached from outside the project
    os.symlink(root, os.path.join(top, "checkout"))                              # the whole project reached through a link
    cwds = [("physical", os.path.join(root, "pkg")), ("link-to-package", os.path.join(top, "pkg-link")),
            ("link-to-project/pkg", os.path.join(top, "checkout", "pkg")), ("link-to-project/pkg/sub", os.path.join(top, "checkout", "pkg", "sub"))]
    for argv in (["where", "//pkg:a", "-f"], ["run", "//pkg:a", "--check"], ["gc", "-n"]):
        base = None
        for label, cwd in cwds:
            res = run_cond_retry(chk, argv, cwd, env={"PWD": cwd})
            chk.coverage["evaluations"] += 1
            obs = (res.code, os.path.realpath(res.out.strip()) if argv[0] == "where" and res.code == 0 else res.out.strip()[:200])
            if base is None:
                base = obs
            elif obs != base:
                chk.violation("impl-violation", "`cond %s` from %s (PWD=%s): exit %s, from the physical directory: exit %s; stderr %r" % (" ".join(argv), label, cwd, res.code, base[0], res.err[-300:]),
                              {"input": {"kind": "symlinked-cwd", "argv": argv, "cwd": label}, "impl_observation": {"exit": res.code, "stdout": res.out[-300:], "stderr": res.err[-500:]}},
                              match_key={"command": " ".join(argv), "cwd": "symlink"})
    shutil.rmtree(top, ignore_errors=True)


def git_and_include(chk):
    """a git-enabled project whose COND files use the project-wide form include("//..."), with a look-alike of the
    included file under a package directory, and with a foreign git repository (no cond_config.toml of its own)
    vendored below the root: the commit flags (--this-commit, --at-least), include() and the outputs must be the same
    from the root, a package directory, a plain directory, cond-out and from inside the vendored repository."""
    import subprocess
    import select_util

    env = dict(os.environ, **select_util.GIT_ENV)

    def git(cwd, *a):
        subprocess.run(["git"] + list(a), cwd=cwd, env=env, capture_output=True, text=True, check=True)

    # the same with `disable_git = true` in a project that nevertheless lies inside a git repository: the configuration file
    # must be found and honoured from every directory (the commit flags are then refused everywhere, no commit is recorded)
    for cfg in ("", "disable_git = true\n"):
        files = {
            "cond_config.toml": cfg,
            ".gitignore": "cond-out\n",
            "common/defs.cond": 'MSG = "project-wide-defs"\n',
            "pkg/common/defs.cond": 'MSG = "pkg-local-defs"\n',
            "pkg/COND": 'include("//common/defs.cond")\nrun_experiment(name="t", run="echo " + MSG + " > $COND_OUT/msg.txt")\n',
            "docs/notes/readme": "x\n",
            "third_party/lib/file": "vendored\n",
        }
        template = implrun.make_project(files, git=True)
        git(template, "init", "-q", "-b", "main")
        # the vendored repository has its own history; the outer repository ignores its .git
        git(os.path.join(template, "third_party", "lib"), "init", "-q", "-b", "main")
        git(os.path.join(template, "third_party", "lib"), "add", "-A")
        git(os.path.join(template, "third_party", "lib"), "commit", "-q", "-m", "vendored")
        git(template, "add", "cond_config.toml", ".gitignore", "common", "pkg", "docs")
        git(template, "commit", "-q", "-m", "c0")
        cwds = [".", "pkg", "docs/notes", "third_party/lib", "common"]
        commands = [["run", "//pkg:t"], ["run", "//pkg:t", "--check"], ["run", "//pkg:t", "--this-commit"], ["run", "//pkg:t", "--at-least", "HEAD"],
                    ["run", "//pkg:t", "--again", "--at-least", "main"], ["where", "//pkg:t"]]
        top = os.path.dirname(template)
        for argv in commands:
            base = None
            for cwd in cwds:
                work = os.path.join(top, "w-%s-%s" % ("-".join(a.strip("/-:") for a in argv[1:]) or "x", cwd.replace("/", "_").replace(".", "root")))
                shutil.copytree(template, work, symlinks=True)
                if argv[0] == "where":     # something to locate
                    run_cond_retry(chk, ["run", "//pkg:t"], work, env=env)
                res = run_cond_retry(chk, argv, os.path.join(work, cwd), env=env)
                chk.coverage["evaluations"] += 1
                chk.count("git+include" + (" (disable_git = true)" if cfg else ""), cwd)
                outs = {}
                for dp, _dn, fn in os.walk(os.path.join(work, "cond-out")):
                    for f in fn:
                        if f == "msg.txt":
                            outs[re.sub(r"\.task\.\d+", ".task.<v>", os.path.relpath(dp, work))] = open(os.path.join(dp, f)).read().strip()
                rows = [(r[0], r[2] is not None, bool(r[3])) for r in implrun.index_rows(work)]
                loc = re.sub(r"\.task\.\d+", ".task.<v>", os.path.relpath(os.path.realpath(os.path.join(work, cwd, res.out.strip())), work)) if argv[0] == "where" and res.code == 0 and res.out.strip() else None
                obs = {"exit": res.code, "outputs": outs, "rows": rows, "location": loc}
                if base is None:
                    base = obs
                elif obs != base:
                    chk.violation("impl-violation", "`cond %s` from %s: %r; from the project root: %r (stderr %r)" % (" ".join(argv), cwd, obs, base, res.err[-300:]),
                                  {"input": {"kind": "git-and-include", "argv": argv, "cwd": cwd, "files": files, "cond_config": cfg}, "impl_observation": {"from_cwd": obs, "from_root": base, "stderr": res.err[-600:]}},
                                  match_key={"command": " ".join(argv), "cwd": "git+include"}, size=len(cwd))
                shutil.rmtree(work, ignore_errors=True)
        shutil.rmtree(top, ignore_errors=True)


# ============================================================================= entry point
def run_projects(chk, projects, only=None):
    """projects: [(label, tasks)]; only: optional (state, command label, cwd) filter for replay"""
    jobs = []
    bases = []
    work_base = new_dir("c17work")
    for label, tasks in projects:
        base, states = prepare_states(tasks, chk)
        bases.append(base)
        meta = [t.meta() for t in tasks]
        for state, sroot in states.items():
            cwds = cwd_candidates(sroot, tasks)
            cmds = commands_for(state, tasks, "/nonexistent")
            for ci, (clabel, _b, _s) in enumerate(cmds):
                if only is not None and (state != only[0] or clabel != only[1]):
                    continue
                use = cwds if only is None else [".", only[2]]
                jobs.append((meta, state, sroot, ci, use, os.path.join(work_base, label)))
        chk.count("projects", "prepared")
        chk.sample({"project": label, "tasks": [m["id"] + ":" + m["kind"] for m in meta], "working_directories": cwd_candidates(states["S2"], tasks)})
    preimport()

    ctx = multiprocessing.get_context("fork")
    with ctx.Pool(min(NCPU, 12)) as pool:
        results = pool.map(_work_one, jobs, chunksize=1)
    model_cases = []
    n_runs = 0
    distinct = set()
    for job, (viol, counts, mc, n, hangs) in zip(jobs, results):
        for v in viol:
            chk.violation(v[0], v[1], v[2], found_input=v[3], match_key=v[4], size=v[5])
        for k, d in counts.items():
            for sub, c in d.items():
                chk.count(k, sub, c)
        if hangs:
            chk.coverage["hangs_retried"] = chk.coverage.get("hangs_retried", 0) + hangs
        model_cases += mc
        n_runs += n
        for cwd in job[4][1:]:
            distinct.add((id(job[0]), job[1], job[3], cwd))
    chk.coverage["evaluations"] += n_runs
    for b in bases:
        shutil.rmtree(b, ignore_errors=True)
    shutil.rmtree(work_base, ignore_errors=True)
    return n_runs, len(distinct), model_cases


def run(tier, seed, replay=None):
    chk = Check("C17", tier, seed)
    chk.build_proofs(["Model/Cwd.vo", "Lib/Path.vo", "Lib/Cmp.vo"])
    setup_impl_path()
    preimport()
    import c18  # pylint: disable=import-outside-toplevel

    if replay is not None:
        inp = replay.get("input") or {}
        kind = inp.get("kind")
        if kind == "command":
            tasks = c18.tasks_from_meta(inp["tasks"])
            n, _d, mc = run_projects(chk, [("replay", tasks)], only=(inp["state"], inp["command"], inp["cwd"]))
            part_render(chk, mc)
            print("replay: `%s` in state %s from %r vs from the root: %d runs, %d difference(s)" % (inp["command"], inp["state"], inp["cwd"], n, len(chk.violations)))
        elif kind == "history":
            mixed_history(chk, c18.tasks_from_meta(inp["tasks"]), chk.rng, "replay")
        elif kind == "root":
            part_root(chk, tier)
        elif kind == "outside":
            outside_project(chk)
        elif kind == "symlinked-cwd":
            symlinked_cwd(chk)
        elif kind == "git-and-include":
            git_and_include(chk)
        else:
            print("replay: nothing to re-run (no input recorded): %s" % replay.get("summary"))
        return chk.finish()

    import time

    t0 = time.time()
    n_root, agree_root = part_root(chk, tier)
    t1 = time.time()
    projects = [("fixed", fixed_project())]
    for i in range(1 if tier == "quick" else 16):
        projects.append(("generated-%d" % i, gen_project(chk.rng)))
    n_runs, distinct, model_cases = run_projects(chk, projects)
    t2 = time.time()
    n_render, agree_render = part_render(chk, model_cases)
    t3 = time.time()
    for i, (label, tasks) in enumerate(projects[: (1 if tier == "quick" else 12)]):
        mixed_history(chk, tasks, chk.rng, label)
    outside_project(chk)
    symlinked_cwd(chk)
    where_api_follows_the_working_directory(chk)
    git_and_include(chk)
    t4 = time.time()
    if tier == "thorough":
        chk.run_coqchk()
    chk.coverage["part_wall_s"] = {"root": round(t1 - t0, 1), "commands": round(t2 - t1, 1), "renderings": round(t3 - t2, 1), "histories": round(t4 - t3, 1)}
    chk.coverage["distinct_nontrivial"] = distinct
    chk.coverage["exhaustive"] = "root discovery: every assignment of {none, file, directory} to a chain of %d directories x every cwd on it" % (4 if tier == "quick" else 5)
    chk.coverage["rule"] = (
        "distinct_nontrivial = distinct (project, state, subcommand+flags, working directory other than the root) combinations whose run "
        "(exit status, canonical project tree incl. cond-out, index rows, task-side COND_OUT/COND_DEPS trace, stdout with locations resolved "
        "against the cwd) was compared with the run of the same command from the root on an equal copy of the state; evaluations add the "
        "root-discovery cases, the rendering cases compared with the model and the commands of the mixed-cwd histories"
    )
    chk.coverage["traces_validated_against_impl"] = agree_root + agree_render
    chk.coverage["disagreements_checked"] = n_root + n_render
    chk.coverage["differential_runs"] = n_runs
    chk.assumptions += [
        "PARTIAL: equality of whole commands across working directories is differential testing of the implementation against itself; the theorems cover root discovery and path rendering only",
        "the working directory is not reached through a symbolic link (os.getcwd() returns the physical path; lexical '..' = parent): from inside a cond-out that is a symlink "
        "to another disk, or a project sub-directory that is a symlink to the outside, the root is not found; a working directory that was deleted makes os.getcwd() raise",
        "no directory between the invocation directory and the project root holds a cond_config.toml of its own (then THAT directory is the nearest root: C17_root's hypothesis)",
        "COND files are pure declarations: a COND file is executed with the process's working directory (and sys.path[0] under `python -m`) being the invocation directory, "
        "so Python in a COND file that reads os.getcwd(), lists '.', or imports a module beside itself behaves differently from different directories; the generated "
        "COND files contain constructor calls only",
    ]
    return chk.finish()
