#!/usr/bin/env python3
"""Writes /verif/MANIFEST.json from the table below (run after changing what is claimed)."""
import json
import os

VERIF = os.path.dirname(os.path.dirname(os.path.abspath(__file__)))

BASE_NOTE = (
    "Trusted: Coq 8.16.1 kernel incl. vm_compute (no native_compute); no axioms (Print Assumptions is parsed on every run and "
    "anything but 'Closed under the global context' fails the check); the translator harness/gen_generated.py; the correspondence "
    "harness (differential testing: generator quality bounds the tie for hand-written models; models are evaluated inside Coq, no extraction). "
    "Modelled, not verified: CPython, sqlite, git, tar, shutil, bash, the kernel. "
)

# one fragment per claimed property: harness/manifest/Cxx.json with keys text, note, technique, design_ref
CLAIMED = {}
# only properties listed in harness/manifest/ENABLED are claimed (a fragment may exist before its check is finished)
ENABLED = set(open(os.path.join(VERIF, "harness", "manifest", "ENABLED"), encoding="utf-8").read().split())
for _fn in sorted(os.listdir(os.path.join(VERIF, "harness", "manifest"))):
    if _fn.endswith(".json") and _fn[:-5] in ENABLED:
        CLAIMED[_fn[:-5]] = json.load(open(os.path.join(VERIF, "harness", "manifest", _fn), encoding="utf-8"))

NOT_YET = {}

ALL = ["C%02d" % i for i in range(1, 21)]


def main():
    checks = []
    for pid in ALL:
        if pid not in CLAIMED:
            continue
        c = CLAIMED[pid]
        checks.append(
            {
                "property_id": pid,
                "quick_cmd": "./check %s --tier quick" % pid,
                "thorough_cmd": "./check %s --tier thorough" % pid,
                "evidence_file": "/verif/evidence/%s.json" % pid,
                "replay_cmd_template": "./check %s --replay {path}" % pid,
                "engine": "coq-proof+correspondence",
                "level_claimed": {"category": "proof", "text": c["text"], "design_ref": "DESIGN.md section " + c["design_ref"]},
                "level_note": BASE_NOTE + c["note"],
                "technique": c["technique"],
            }
        )
    na = []
    for pid in ALL:
        if pid in CLAIMED:
            continue
        na.append({"property_id": pid, "reason": NOT_YET.get(pid, "check not built yet in this session (model and theorems planned in DESIGN.md section 5); not claimed until its check exists and passes")})
    manifest = {
        "version": 1,
        "setup_cmd": "./setup.sh",
        "hooks": {
            "guard": "CONDUCTOR_VERIF",
            "enable": "none needed: all instrumentation is applied from outside the source by monkey-patching (fake process layer, line-level injector); no hook commits exist",
            "baseline_off_cmd": "cd /repo && /venv/bin/python -m pytest -ra -q -p no:cacheprovider --timeout=900 --continue-on-collection-errors",
            "source_commits": [],
            "add_only": True,
        },
        "engines": [
            {
                "name": "coq-proof+correspondence",
                "path": "/verif/check",
                "serves_properties": [c["property_id"] for c in checks],
                "kind_free_text": "Coq 8.16.1 theorems about executable Gallina models (coq/Model, coq/Proofs, coq/Props); parameters regenerated from /repo by harness/gen_generated.py; models evaluated by vm_compute inside Coq against the implementation imported from /repo/src",
            }
        ],
        "checks": checks,
        "notes": "See DESIGN.md. `./check Cxx --tier quick|thorough`; VERIF_SEED selects the PRNG seed; VERIF_REPO (default /repo) selects the tree under test (used only for mutant self-validation).",
        "not_applicable": na,
    }
    with open(os.path.join(VERIF, "MANIFEST.json"), "w", encoding="utf-8") as f:
        json.dump(manifest, f, indent=1)
    print("wrote MANIFEST.json: %d claimed, %d not claimed" % (len(checks), len(na)))


if __name__ == "__main__":
    main()
