"""C16 -- an interrupt stops all running tasks and records nothing unfinished.

proofs : coq/Props/C16.v (the signal handler, the deferred region around a launch and run_plan's abort handler as a small
         machine over the statements of the block -- regenerated from the sources; loop states)
tie    : line-level signal injector on the REAL planner/executor under the fake process layer:
         for sampled (thorough: all) line events k of a run, SIGINT/SIGTERM is raised there and the
         Python-level handler raises ConductorAbort before line k executes.  Oracle per injection:
         (1) ConductorAbort -- not an internal error -- leaves the run; (2) every fake process that
         was spawned and not reaped received killpg(SIGTERM); (3) every index row belongs to a task
         whose process had exited 0.  The point "inside Popen() after the fork" (D35, the former known
         finding D7') is injected at the end of the fake Popen.  Real `cond run` processes with sleeping children
         are interrupted with real signals as well.
limits : injection is per line; CPython can deliver between the bytecodes of one line (inside the launch block this no
         longer matters: the handler only notes the signal there).
"""
import os
import signal
import subprocess
import time

from common import Check, PY, SRC, HARNESS_FAULT
from sched_checks import MODEL_TARGETS
from sched_util import Case, Task, run_impl
import implrun

T = Task


def fixed_cases():
    out = []
    # fan-in of parallel experiments, a chain, a mix with combine/group, a failing task with --stop-early
    out.append(Case([T(2, [1, 2, 3], "command", True), T(2, [], "experiment", True), T(2, [], "experiment", True), T(2, [], "experiment", True)], jobs=3, picks=[1, 0, 0, 0]))
    out.append(Case([T(2, [1], "experiment"), T(2, [2], "experiment"), T(2, [], "command")], jobs=1))
    out.append(Case([T(2, [1, 2], "combine"), T(2, [3], "experiment", True), T(2, [3], "group"), T(2, [], "experiment", True, pkg="p0")], jobs=2, again=True))
    out.append(Case([T(2, [1, 2], "command"), T(2, [], "experiment", True), T(2, [], "experiment", True)], jobs=2, stop=True, rcs=[0, 3, 0], picks=[1, 0]))
    out.append(Case([T(2, [1, 2], "experiment", True), T(2, [], "experiment", True, sr=False), T(2, [], "command", True)], jobs=4))
    return out


def judge(chk, case, obs, k, sig):
    a = obs.abort
    f = a["fired"]
    if f is None:
        return False
    point = "%s:%s" % (f["where"], f["func"])
    chk.count("function", point)
    chk.coverage.setdefault("_points", set()).add((f["where"], f["func"], f["line"]))
    live = set(f["live"]) - set(f.get("vanished", []))
    problems = []
    if a["raised"] != "ConductorAbort":
        problems.append("the run ended with %s (%s) instead of reporting that it was aborted" % (a["raised"], a.get("message", "")))
    missed = live - set(a["kills"])
    if missed:
        problems.append("task process(es) %s were running and did not receive SIGTERM (killed: %s)" % (sorted("t%d" % x for x in missed), a["kills"]))
    rows = obs.index_rows or []
    for r in rows:
        t = int(r[0].rsplit(":t", 1)[1])
        pre_existing = r[1] < 100000   # versions planted by the case (1000 + task) are not from this run
        if not pre_existing and t not in a["finished_ok"]:
            problems.append("a version of t%d was recorded although its process had not exited 0" % t)
    for msg in problems:
        where = f["where"] if f["where"] == "inside-Popen-after-fork" else point
        chk.violation("impl-violation", "%s [signal %s raised at %s line %s, event %s of graph %s jobs=%d]" % (msg, signal.Signals(sig).name, point, f["line"], k, case.graph_text(), case.jobs),
                      {"input": {"case": case.to_json(), "k": k, "sig": int(sig), "popen_end": f["where"] == "inside-Popen-after-fork"},
                       "impl_observation": a, "oracle_verdict": msg},
                      match_key={"point": where}, size=len(case.tasks))
    return True


def sweep(chk, case, ks, sigs):
    n = 0
    for k in ks:
        sig = sigs[k % len(sigs)]
        obs = run_impl(case, inject={"k": k, "sig": sig, "vanish_first": k % 3 == 0, "vanish_last": k % 2 == 1})
        chk.coverage["evaluations"] += 1
        if obs.crash is not None and obs.crash.startswith(HARNESS_FAULT):
            chk.violation("tie-broken", "the interrupt harness no longer fits the implementation's internals: %s" % obs.crash[:300],
                          {"theorem_or_tie": "interrupt harness (harness/sched_util.py run_impl/run_with_injection) vs executor.py / sigchld.py internals", "detail": obs.crash},
                          found_input=False)
            return n
        if obs.crash is not None:
            f = (obs.abort or {}).get("fired") or {}
            chk.violation("impl-violation", "after %s at %s:%s line %s the run did not end cleanly: %s" % (signal.Signals(sig).name, f.get("where"), f.get("func"), f.get("line"), obs.crash[:300]),
                          {"input": {"case": case.to_json(), "k": k, "sig": int(sig)}, "impl_observation": {"crash": obs.crash, "abort": obs.abort}},
                          match_key={"point": "%s:%s" % (f.get("where"), f.get("func"))}, size=1)
            if obs.crash.startswith("Timeout"):
                chk.coverage["timeouts"] = chk.coverage.get("timeouts", 0) + 1
                if chk.coverage["timeouts"] >= 3:
                    return n
            continue
        if judge(chk, case, obs, k, sig):
            n += 1
    return n


# ----------------------------------------------------------------------------- real processes, real signals
def interrupt_while_loading(chk):
    """"at any moment" includes the moment the COND files are being evaluated: the interrupt arrives while a COND file, or
    a file it includes, is executing (the file sends the signal to its own process -- deterministic).  Conductor must
    exit non-zero REPORTING THE ABORT, and must not start any task.  (D32: inside an included file the abort was caught
    by `except Exception` and reported as a parse error of that file.)"""
    for where in ("cond-file", "included-file", "cond-file/inherited-ignore"):
        for signame in ("SIGINT", "SIGTERM"):
            inherited = (getattr(signal, signame),) if where.endswith("inherited-ignore") else ()
            poke = "import os, signal\nos.kill(os.getpid(), signal.%s)\nX = 1\n" % signame
            files = {"COND": ("include('inc.cond')\n" if where == "included-file" else poke) + 'run_command(name="t", run="touch $COND_OUT/ran")\n'}
            if where == "included-file":
                files["inc.cond"] = poke
            root = implrun.make_project(files)
            res = implrun.run_cond(["run", "//:t"], root, timeout=30, inherit_ignored=inherited)
            chk.coverage["evaluations"] += 1
            chk.count("interrupt while loading", "%s/%s" % (where, signame))
            text = implrun.strip_ansi(res.out + res.err)
            ran = os.path.exists(os.path.join(root, "cond-out", "t.task", "ran"))
            problems = []
            if res.code == 0:
                problems.append("cond run exited 0")
            if not implrun.abort_reported(text):
                problems.append("the abort is not reported: %r" % text[-250:])
            if ran:
                problems.append("the task was executed")
            for msg in problems:
                chk.violation("impl-violation", "%s delivered while %s is being evaluated: %s" % (signame, {"cond-file": "the COND file", "included-file": "an included file"}.get(where, "the COND file (Conductor was started with the signal ignored)"), msg),
                              {"input": {"part": "interrupt-while-loading", "files": files, "argv": ["run", "//:t"]}, "impl_observation": {"exit": res.code, "output": text[-600:]},
                               "oracle_verdict": msg}, match_key={"point": "loading:" + where}, size=1)
            if not problems:
                chk.coverage["traces_validated_against_impl"] = chk.coverage.get("traces_validated_against_impl", 0) + 1


def interrupt_during_git_probe(chk):
    """the interrupt arrives while Conductor waits for one of its `git` probes (rev-parse --git-dir, rev-parse HEAD,
    diff-index: all during planning; seconds on a large work tree).  A stand-in `git` first on PATH signals its parent
    and then answers like the real one.  Conductor must report the abort, exit non-zero and run no task."""
    import shutil as _sh
    import select_util

    real_git = _sh.which("git")
    if real_git is None:
        chk.coverage["interrupt_during_git_probe"] = "skipped: no git"
        return
    env0 = dict(os.environ, **select_util.GIT_ENV)
    for probe, signame in (("--git-dir", "TERM"), ("diff-index", "INT"), ("HEAD", "INT")):
        root = implrun.make_project({"COND": 'run_experiment(name="t", run="touch $COND_OUT/ran")\n', ".gitignore": "cond-out\n", "cond_config.toml": ""}, git=True)
        for argv in (["init", "-q", "-b", "main"], ["add", "-A"], ["commit", "-q", "-m", "c0"]):
            subprocess.run([real_git] + argv, cwd=root, env=env0, check=True, capture_output=True)
        bindir = os.path.join(os.path.dirname(root), "bin")
        os.makedirs(bindir)
        marker = os.path.join(bindir, "fired")
        with open(os.path.join(bindir, "git"), "w") as fh:
            fh.write("#!/bin/bash\ncase \" $* \" in\n  *\" %s\"*|*\" %s \"*) if [ ! -e %s ]; then touch %s; kill -%s $PPID; sleep 0.7; fi ;;\nesac\nexec %s \"$@\"\n"
                     % (probe, probe, marker, marker, signame, real_git))
        os.chmod(os.path.join(bindir, "git"), 0o755)
        res = implrun.run_cond(["run", "//:t"], root, env=dict(select_util.GIT_ENV, PATH=bindir + os.pathsep + os.environ.get("PATH", "")), timeout=40)
        chk.coverage["evaluations"] += 1
        chk.count("interrupt during git probe", "%s/SIG%s" % (probe, signame))
        text = implrun.strip_ansi(res.out + res.err)
        ran = bool([d for d in (os.listdir(os.path.join(root, "cond-out")) if os.path.isdir(os.path.join(root, "cond-out")) else []) if d.startswith("t.task.")
                    and os.path.exists(os.path.join(root, "cond-out", d, "ran"))])
        problems = []
        if not os.path.exists(marker):
            continue     # this probe is not issued by the code under test: nothing was injected
        if res.code == 0:
            problems.append("cond run exited 0")
        if not implrun.abort_reported(text):
            problems.append("the abort is not reported: %r" % text[-250:])
        if ran:
            problems.append("the task was executed")
        for msg in problems:
            chk.violation("impl-violation", "SIG%s delivered while Conductor waits for `git ... %s ...`: %s" % (signame, probe, msg),
                          {"input": {"part": "interrupt-during-git-probe", "probe": probe, "signal": signame}, "impl_observation": {"exit": res.code, "output": text[-600:]}, "oracle_verdict": msg},
                          match_key={"point": "git-probe"}, size=1)
        if not problems:
            chk.coverage["traces_validated_against_impl"] = chk.coverage.get("traces_validated_against_impl", 0) + 1
        _sh.rmtree(os.path.dirname(root), ignore_errors=True)


def _alive(pid):
    try:
        return open("/proc/%d/stat" % pid).read().split()[2] != "Z"
    except (OSError, IndexError):
        return False


def no_process_survives_an_abort(chk):
    """"an interrupt stops all running tasks": after `cond run` has reported the abort and exited, no process of any task
    is left -- (A) a task with helpers started in the background (`server & client; wait`: a non-interactive bash starts
    every `cmd &` with SIGINT ignored, so they only die of the SIGTERM Conductor promises), interrupted by SIGINT and by
    SIGTERM; (B) a task whose process is forked while the abort is deferred -- the signal arrives after the launch block
    was entered and just before the fork (a wrapper around the standard library's subprocess.Popen signals the process
    itself; nothing of Conductor is patched): it must start with default signal dispositions and die of the sweep.
    (Seed C16/l: tasks were sent the signal Conductor had received; seed C16/k: the handler set SIGINT / SIGTERM to
    "ignore", which the task forked in the deferred window inherited.)"""
    driver = ("import os, signal, subprocess, sys\n"
              "nth, sig = int(sys.argv[1]), int(sys.argv[2])\n"
              "here = os.path.dirname(os.path.abspath(__file__))\n"
              "real = subprocess.Popen\n"
              "count = [0]\n"
              "class P(real):\n"
              "    def __init__(self, *a, **k):\n"
              "        cmd = a[0] if a else k.get('args')\n"
              "        first = cmd if isinstance(cmd, str) else (cmd[0] if cmd else '')\n"
              "        if os.path.basename(str(first).split()[0] if str(first).split() else '') != 'git':     # every spawn but the git probes is a task\n"
              "            count[0] += 1\n"
              "            if count[0] == nth:\n"
              "                open(os.path.join(here, 'fired'), 'w').close()\n"
              "                os.kill(os.getpid(), sig)\n"
              "        super().__init__(*a, **k)\n"
              "subprocess.Popen = P\n"
              "sys.argv = ['cond'] + sys.argv[3:]\n"
              "import conductor.__main__ as m\n"
              "m.main()\n")
    bg = "sleep 300 & echo $! > $COND_OUT/h1; sleep 300 & echo $! > $COND_OUT/h2; echo $$ > $COND_OUT/pid; wait"
    fg = "echo $$ > $COND_OUT/pid; exec sleep 300"
    cases = []
    for sig in (signal.SIGINT, signal.SIGTERM):
        cases.append(("A", sig, 'run_command(name="srv", run="%s")\n' % bg, ["run", "//:srv"], None, ("pid", "h1", "h2")))
        cases.append(("A2", sig, 'run_experiment(name="x", run="%s", parallelizable=True)\nrun_experiment(name="y", run="%s", parallelizable=True)\ngroup(name="srv", deps=[":x", ":y"])\n' % (bg, fg),
                      ["run", "//:srv", "-j", "2"], None, ("pid", "h1", "h2")))
        cases.append(("B", sig, 'run_command(name="one", run="%s", parallelizable=True)\nrun_command(name="two", run="%s", parallelizable=True)\ngroup(name="srv", deps=[":one", ":two"])\n' % (fg, fg),
                      ["run", "//:srv", "-j", "2"], 2, ("pid",)))
        cases.append(("B1", sig, 'run_experiment(name="srv", run="%s")\n' % fg, ["run", "//:srv"], 1, ("pid",)))
    for kind, sig, cond, argv, nth, names in cases:
        root = implrun.make_project({"COND": cond})
        env = dict(os.environ, PYTHONPATH=SRC)

        def dispositions():
            for s_ in (signal.SIGINT, signal.SIGTERM):
                signal.signal(s_, signal.SIG_DFL)

        # Conductor's output goes to FILES: a surviving task process would keep a pipe open and the harness would wait for it
        fo, fe = open(os.path.join(os.path.dirname(root), "cond.out"), "wb"), open(os.path.join(os.path.dirname(root), "cond.err"), "wb")
        if nth is None:
            p = subprocess.Popen([PY, "-m", "conductor"] + argv, cwd=root, env=env, stdout=fo, stderr=fe, preexec_fn=dispositions)
        else:
            drv = os.path.join(os.path.dirname(root), "driver.py")
            open(drv, "w").write(driver)
            p = subprocess.Popen([PY, drv, str(nth), str(int(sig))] + argv, cwd=root, env=env, stdout=fo, stderr=fe, preexec_fn=dispositions)
        fo.close()
        fe.close()

        def pids():
            out = {}
            for dp, _dn, fn in os.walk(os.path.join(root, "cond-out")):
                for n in names:
                    if n in fn:
                        try:
                            out[os.path.join(os.path.relpath(dp, root), n)] = int(open(os.path.join(dp, n)).read().strip())
                        except ValueError:
                            pass
            return out

        if nth is None:
            want = len(names) if kind == "A" else len(names) + 1
            deadline = time.time() + 20
            while time.time() < deadline and len(pids()) < want:
                time.sleep(0.05)
            time.sleep(0.2)
            p.send_signal(sig)
        late = b""
        fired = os.path.join(os.path.dirname(root), "fired")
        if nth is not None:
            # the hook must fire (the N-th task spawn seen by the wrapper); if it never does the rewritten code spawns differently: a broken
            # tie of this scenario, not a failing input -- and nobody would ever interrupt the run
            t0 = time.time()
            while time.time() - t0 < 15 and not os.path.exists(fired) and p.poll() is None:
                time.sleep(0.05)
            if not os.path.exists(fired):
                p.kill()
                p.wait()
                for v in pids().values():
                    for f_ in (os.killpg, os.kill):
                        try:
                            f_(v, signal.SIGKILL)
                        except OSError:
                            pass
                chk.violation("tie-broken", "no_process_survives_an_abort: the wrapper around subprocess.Popen never saw the %d. task spawn (%s); the scenario cannot deliver its signal" % (nth, kind),
                              {"theorem_or_tie": "scenario hook: spawn counting through subprocess.Popen"}, found_input=False)
                continue
        try:
            p.wait(timeout=30)
        except subprocess.TimeoutExpired:
            p.kill()
            p.wait()
            late = b"(cond did not end within 30 s)"
        out, err = open(os.path.join(os.path.dirname(root), "cond.out"), "rb").read(), open(os.path.join(os.path.dirname(root), "cond.err"), "rb").read() + late
        time.sleep(0.4)
        found = pids()
        alive = {k: v for k, v in found.items() if _alive(v)}
        for v in found.values():
            for f_ in (os.killpg, os.kill):
                try:
                    f_(v, signal.SIGKILL)
                except OSError:
                    pass
        text = (out + err).decode("utf-8", "replace")
        chk.coverage["evaluations"] += 1
        chk.count("real", "survivors %s %s" % (kind, signal.Signals(sig).name))
        problems = []
        if nth is None and not found:
            problems.append("harness: the task did not start (%s)" % text[-200:])
        if alive:
            problems.append("processes of the interrupted task are still running after cond exited: %r" % alive)
        if p.returncode in (0, None) or not implrun.abort_reported(text):
            problems.append("cond exited %s with output %r instead of reporting an abort" % (p.returncode, text[-300:]))
        what = {"A": "a task with background helpers", "A2": "two parallel experiments, one with background helpers", "B": "the signal arrives while the second task is being started (deferred abort)",
                "B1": "the signal arrives while the only task is being started (deferred abort)"}[kind]
        for msg in problems[:2]:
            chk.violation("impl-violation", "real %s, %s: %s" % (signal.Signals(sig).name, what, msg),
                          {"input": {"part": "survivors", "kind": kind, "signal": int(sig), "cond": cond, "argv": argv}, "impl_observation": {"exit": p.returncode, "output": text[-600:], "alive": alive}},
                          match_key={"point": "survivors"}, size=3)
        if not problems:
            chk.coverage["traces_validated_against_impl"] += 1


def real_interrupts(chk, n):
    """real `cond run` processes with sleeping children, interrupted by a real signal.  Shapes: (0) three parallel
    experiments in flight; (1) a chain -- the signal arrives while the SECOND task runs, i.e. after an earlier task
    was reaped as Conductor's only child; (2) as (0) with Conductor's stdout being a pipe whose reader has gone away
    (`cond run ... | head`), unbuffered: writing the abort report fails."""
    rng = chk.rng
    for it in range(n):
        shape = it % 3
        if shape == 1:
            cond = ('run_command(name="first", run="true")\n'
                    'run_experiment(name="e0", run="echo $$ > $COND_OUT/pid; sleep 30", deps=[":first"])\n'
                    'run_command(name="all", run="true", deps=[":e0"])\n')
            nchildren, argv = 1, ["run", "//:all"]
        else:
            cond = "\n".join('run_experiment(name="e%d", run="echo $$ > $COND_OUT/pid; sleep 30", parallelizable=True)' % i for i in range(3))
            cond += '\nrun_command(name="all", run="true", deps=[":e0", ":e1", ":e2"])\n'
            nchildren, argv = 3, ["run", "//:all", "-j", "3"]
        root = implrun.make_project({"COND": cond})
        env = dict(os.environ, PYTHONPATH=SRC)
        if shape == 2:
            env["PYTHONUNBUFFERED"] = "1"
        sig = rng.choice([signal.SIGINT, signal.SIGTERM])
        # the disposition Conductor starts with: default, or ignored (a background job of a non-interactive shell, nohup,
        # `trap '' TERM`) -- the signal "reaches cond run" either way, and the harness's own inheritance does not matter
        ignored = it % 2 == 1

        def dispositions(sig=sig, ignored=ignored):
            for s_ in (signal.SIGINT, signal.SIGTERM):
                signal.signal(s_, signal.SIG_IGN if (ignored and s_ == sig) else signal.SIG_DFL)

        p = subprocess.Popen([PY, "-m", "conductor"] + argv, cwd=root, env=env, stdout=subprocess.PIPE, stderr=subprocess.PIPE, preexec_fn=dispositions)
        # wait until the children exist
        deadline = time.time() + 20
        pids = []
        while time.time() < deadline:
            pids = []
            for dp, _dn, fn in os.walk(os.path.join(root, "cond-out")):
                if "pid" in fn:
                    try:
                        pids.append(int(open(os.path.join(dp, "pid")).read().strip()))
                    except ValueError:
                        pass
            if len(pids) == nchildren:
                break
            time.sleep(0.05)
        time.sleep(rng.random() * 0.3)
        if shape == 2:
            p.stdout.close()      # the reader of Conductor's stdout is gone
        p.send_signal(sig)
        try:
            if shape == 2:
                p.wait(timeout=20)
                out, err = b"", p.stderr.read()
            else:
                out, err = p.communicate(timeout=20)
        except subprocess.TimeoutExpired:
            p.kill()
            if shape == 2:
                p.wait()
                out, err = b"", b"(timeout)"
            else:
                out, err = p.communicate()
        time.sleep(0.3)
        alive = []
        for pid in pids:
            try:
                stat = open("/proc/%d/stat" % pid).read().split()
                if stat[2] != "Z":
                    alive.append(pid)
            except OSError:
                pass
        for pid in alive:
            try:
                os.killpg(pid, signal.SIGKILL)
            except OSError:
                pass
        rows = implrun.index_rows(root)
        chk.coverage["evaluations"] += 1
        chk.count("real", "%s shape %d%s" % (signal.Signals(sig).name, shape, " (inherited as ignored)" if ignored else ""))
        text = (out + err).decode("utf-8", "replace")
        problems = []
        if len(pids) != nchildren:
            problems.append("harness: children did not start (%s)" % text[-200:])
        if alive:
            problems.append("task processes %s survived the interrupt" % alive)
        if [r for r in rows if "e" in r[0].split(":")[1]]:
            problems.append("versions %s were recorded for interrupted tasks" % rows)
        if shape == 2:
            if p.returncode in (0, None):
                problems.append("cond exited %s after the interrupt" % p.returncode)
        elif p.returncode in (0, None) or not implrun.abort_reported(text):
            problems.append("cond exited %s with output %r instead of reporting an abort" % (p.returncode, text[-300:]))
        what = ["three tasks in flight (-j3)", "the second task of a chain running", "three tasks in flight, stdout closed by its reader"][shape]
        for msg in problems:
            chk.violation("impl-violation", "real %s during cond run, %s: %s" % (signal.Signals(sig).name, what, msg),
                          {"input": {"cond": cond, "signal": int(sig), "shape": shape}, "impl_observation": {"exit": p.returncode, "output": text[-1000:], "alive": alive, "rows": rows}},
                          match_key={"point": "real-signal"}, size=3)
        if not problems:
            chk.coverage["traces_validated_against_impl"] += 1


def run(tier, seed, replay=None):
    chk = Check("C16", tier, seed)
    chk.build_proofs(MODEL_TARGETS + ["Model/Abort.vo"])
    sigs = [signal.SIGINT, signal.SIGTERM]
    if replay is not None:
        inp = replay["input"]
        case = Case.from_json(inp["case"])
        inj = {"k": None if inp.get("popen_end") else inp["k"], "sig": inp.get("sig", int(signal.SIGINT)), "popen_end": bool(inp.get("popen_end")), "spawn_index": inp.get("spawn_index", 2),
               "vanish_first": (inp.get("k") or 1) % 3 == 0, "vanish_last": (inp.get("k") or 0) % 2 == 1}
        obs = run_impl(case, inject=inj)
        print("replay: abort observation = %r" % (obs.abort,))
        judge(chk, case, obs, inp.get("k"), inj["sig"])
        return chk.finish()
    cases = fixed_cases()
    per_case = 90 if tier == "quick" else None
    fired = 0
    total_events = 0
    for case in cases:
        base = run_impl(case, inject={"k": None})
        n = base.abort["events"]
        total_events += n
        ks = list(range(1, n + 1))
        if per_case is not None:
            # every line of the launch / wait / finish / abort-handling code (where the handlers' pre-state
            # changes), plus a stride and a random sample of the rest (planning, bookkeeping)
            crit = {"start_execution", "_launch_ops_if_able", "_wait_for_next_inflight_op", "wait_for_next_op", "finish_execution",
                    "run_plan", "terminate_processes", "add_op", "track", "wait", "maybe_tee", "popen_arg", "tee_pipe"}
            funcs = base.abort.get("funcs") or []
            lines = base.abort.get("lines") or [0] * len(funcs)
            critical = [i + 1 for i, fn in enumerate(funcs) if fn in crit]
            # every LINE of the critical functions, at its first visits (a line is visited once per operation, so the
            # first visits see it with 0 / 1 / 2 processes in flight and with recorded / unrecorded output) and with both
            # parities of k (the parity decides whether the just-spawned process has already vanished).  A cap per
            # function instead of per line once left the later lines of start_execution -- the window between Popen()
            # returning and the handle being registered, for the second operation of a chain -- without any injection.
            seen_sites, picked = {}, []
            for kk in critical:
                site = (funcs[kk - 1], lines[kk - 1], kk % 2)
                c = seen_sites.get(site, 0)
                if c < 2:
                    seen_sites[site] = c + 1
                    picked.append(kk)
            stride = max(1, n // (per_case // 3))
            ks = sorted(set(picked) | set(ks[::stride]) | set(chk.rng.sample(ks, min(len(ks), per_case // 3))))
        fired += sweep(chk, case, ks, sigs)
        chk.sample({"graph": case.graph_text(), "jobs": case.jobs, "line_events": n, "injections": len(ks)})
    # D35 (former known finding D7'): inside Popen() after the fork, at the 1st and 2nd spawn
    for case in cases[:2]:
        for idx in (1, 2):
            obs = run_impl(case, inject={"k": None, "popen_end": True, "spawn_index": idx, "sig": signal.SIGINT})
            chk.coverage["evaluations"] += 1
            if obs.abort and obs.abort["fired"]:
                judge(chk, case, obs, None, signal.SIGINT)
                fired += 1
    # a signal that arrives while a launch FAILS, with another task in flight and no later launch: the abort noted during the
    # launch must still be raised when the launch block is left by the error (seed C16/i)
    fl_case = Case([T(2, [1, 2], "command"), T(2, [], "experiment", True), T(2, [], "experiment", True)], jobs=2, launch_fail=[2], picks=[0])
    for sig in (signal.SIGINT, signal.SIGTERM):
        obs = run_impl(fl_case, inject={"k": None, "at_failed_launch": True, "sig": sig})
        chk.coverage["evaluations"] += 1
        if obs.abort and obs.abort["fired"]:
            judge(chk, fl_case, obs, None, sig)
            fired += 1
    pts = chk.coverage.pop("_points", set())
    chk.coverage["distinct_nontrivial"] = len(pts)
    chk.coverage["traces_validated_against_impl"] = fired
    chk.coverage["exhaustive"] = tier == "thorough"
    chk.coverage["line_events_per_run_total"] = total_events
    chk.coverage["rule"] = ("SIGINT/SIGTERM raised at line event k of planning+execution (files under conductor/execution, utils/sigchld.py, task_types/run.py) of %d "
                            "fixed graphs (parallel fan-in, chain, combine/group mix with --again, --stop-early with a failing task, cached experiment) under the fake process "
                            "layer; quick: a stride plus random sample of k, thorough: every k; plus the end of Popen() (D35, the former known finding D7') and real interrupted `cond run -j3` "
                            "processes with sleeping children; distinct_nontrivial = distinct (file, function, line) program points at which a signal was injected" % len(cases))
    real_interrupts(chk, 3 if tier == "quick" else 18)
    no_process_survives_an_abort(chk)
    interrupt_while_loading(chk)
    interrupt_during_git_probe(chk)
    if tier == "thorough":
        chk.run_coqchk()
    return chk.finish()
