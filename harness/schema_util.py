"""Shared by c19.py and c15.py: Python values <-> the `value` type of coq/Model/Schema.v,
rendering of COND sources, observation of the real loader (in-process), the packed result
channel for tasks / errors, and the documented reading of definitions (independent oracle)."""
import math
import os
import pathlib
import string

from common import cstr, clist, cbool, ser_str, ser_list, ser_opt, ser_bool, pack, new_dir, setup_impl_path

IDC = set(string.ascii_letters + string.digits + "-_")

# ----------------------------------------------------------------------------- values
# "other" objects (neither str/bool/int/float/None/list/dict): source text -> (hashable, tag)
OTHERS = {
    "()": (True, 0),
    "('t',)": (True, 1),
    "set()": (False, 2),
    "frozenset()": (True, 3),
    "(['x'],)": (False, 4),
    "frozenset({1})": (True, 5),
    "b'x'": (True, 6),
    "range(2)": (True, 7),
    "('e1',)": (True, 8),
    # numbers that are not primitive argument / option values (only str, bool, int, float are)
    "1j": (True, 9),
    "__import__('fractions').Fraction(1, 2)": (True, 10),
    "__import__('decimal').Decimal('1.5')": (True, 11),
}


class Other:
    """a value of the COND source that is outside the seven modelled classes"""

    def __init__(self, src):
        assert src in OTHERS, src
        self.src = src
        self.hashable, self.tag = OTHERS[src]

    def __repr__(self):
        return self.src

    def __eq__(self, o):
        return isinstance(o, Other) and o.src == self.src

    def __hash__(self):
        return hash(self.src)


FLOATX = {"float('inf')": 0, "float('-inf')": 1, "float('nan')": 2}


class FloatX(float):
    """float('inf') / float('-inf') / float('nan') as written in the source: a float (so a primitive argument /
    option value) that denotes no rational; Model/Schema.v VFloatX"""

    def __new__(cls, src):
        assert src in FLOATX, src
        o = float.__new__(cls, eval(src))  # pylint: disable=eval-used
        o.src = src
        o.which = FLOATX[src]
        return o

    def __repr__(self):
        return self.src

    def __deepcopy__(self, memo):
        return FloatX(self.src)

    def __copy__(self):
        return FloatX(self.src)

    def __reduce__(self):
        return (FloatX, (self.src,))

    def __eq__(self, o):
        return isinstance(o, FloatX) and o.src == self.src

    def __hash__(self):
        return hash(self.src)


class Inst:
    """ExperimentInstance(...) as written in the source: only the given fields"""

    def __init__(self, **fields):
        self.fields = fields  # subset of name,args,options,parallelizable (insertion order kept)

    def __repr__(self):
        return "ExperimentInstance(%s)" % ", ".join("%s=%r" % kv for kv in self.fields.items())

    def full(self):
        d = {"args": [], "options": {}, "parallelizable": False}
        d.update(self.fields)
        return d


_DYN = {}


def dyn_other(v):
    """(hashable, tag) for a tuple / set / bytes value written directly in a case"""
    key = repr(v)
    if key not in _DYN:
        try:
            hash(v)
            h = True
        except TypeError:
            h = False
        _DYN[key] = (h, 1000 + len(_DYN))
    return _DYN[key]


def cz(z):
    return "(%d)%%Z" % z


def cval(v):
    """Python value -> Coq term of type value"""
    if isinstance(v, Other):
        return "(VOther %s %d)" % (cbool(v.hashable), v.tag)
    if isinstance(v, bool):
        return "(VBool %s)" % cbool(v)
    if isinstance(v, str):
        return "(VStr %s)" % cstr(v)
    if isinstance(v, int):
        return "(VInt %s)" % cz(v)
    if isinstance(v, float) and not math.isfinite(v):
        return "(VFloatX %d)" % (0 if v > 0 else 1 if v < 0 else 2)
    if isinstance(v, float):
        n, d = v.as_integer_ratio()
        return "(VFloat %s %d%%positive)" % (cz(n), d)
    if v is None:
        return "VNone"
    if isinstance(v, list):
        return "(VList %s)" % clist([cval(x) for x in v])
    if isinstance(v, dict):
        return "(VDict %s)" % clist(["(%s, %s)" % (cval(k), cval(x)) for k, x in v.items()])
    if isinstance(v, (tuple, set, frozenset, bytes)):
        h, t = dyn_other(v)
        return "(VOther %s %d)" % (cbool(h), t)
    raise TypeError("no model value for %r" % (v,))


def ser_z(z):
    return [0, z] if z >= 0 else [1, -z]


def ser_value(v):
    if isinstance(v, Other):
        return [7, v.tag]
    if isinstance(v, bool):
        return [1] + ser_bool(v)
    if isinstance(v, str):
        return [0] + ser_str(v)
    if isinstance(v, int):
        return [2] + ser_z(v)
    if isinstance(v, float) and not math.isfinite(v):
        return [9, 0 if v > 0 else 1 if v < 0 else 2]
    if isinstance(v, float):
        n, d = v.as_integer_ratio()
        return [3] + ser_z(n) + [d]
    if v is None:
        return [4]
    if isinstance(v, list):
        return [5] + ser_list(ser_value, v)
    if isinstance(v, dict):
        return [6] + ser_list(lambda kv: ser_value(kv[0]) + ser_value(kv[1]), list(v.items()))
    if isinstance(v, (tuple, set, frozenset, bytes)):
        return [7, dyn_other(v)[1]]
    return [8]


def cassoc(d):
    return clist(["(%s, %s)" % (cstr(k), cval(v)) for k, v in d.items()])


# ----------------------------------------------------------------------------- errors
ERR_CODES = {
    "MissingTaskParameter": 1,
    "InvalidTaskParameterType": 2,
    "UnrecognizedTaskParameters": 3,
    "InvalidTaskName": 4,
    "DuplicateTaskName": 5,
    "ExperimentGroupInvalidExperimentInstance": 6,
    "ExperimentGroupDuplicateName": 7,
    "InvalidTaskIdentifier": 8,
    "DuplicateDependency": 9,
    "CombineDuplicateDepName": 10,
    "RunArgumentsNonPrimitiveValue": 11,
    "RunOptionsNonStringKey": 12,
    "RunOptionsNonPrimitiveValue": 13,
    "ParsingUnknownNameError": 14,
    "TaskNotFound": 15,
    "TaskParseError": 16,  # a Python exception in the COND file, mapped by parse_cond_file
    "<python>": 16,  # a Python exception that escaped unmapped (would be a traceback)
}


def ser_err(e):
    """e = (class name, parameter_name or None)"""
    code = ERR_CODES.get(e[0], 99)
    if code in (1, 2):
        return [code] + ser_str(e[1] or "")
    return [code]


COQ_SER = r"""
Definition ser_Z (z : Z) : list N := match z with Z0 => [0; 0] | Zpos p => [0; Npos p] | Zneg p => [1; Npos p] end.
Fixpoint ser_value (v : value) : list N :=
  match v with
  | VStr s => 0 :: ser_str s
  | VBool b => 1 :: ser_bool b
  | VInt z => 2 :: ser_Z z
  | VFloat n d => 3 :: ser_Z n ++ [Npos d]
  | VNone => [4]
  | VList l => 5 :: N.of_nat (length l) :: flat_map ser_value l
  | VDict kv => 6 :: N.of_nat (length kv) :: flat_map (fun p => match p with (a, b) => ser_value a ++ ser_value b end) kv
  | VOther _ t => [7; t]
  | VFloatX k => [9; k]
  end.
Definition ser_err (e : err) : list N :=
  match e with
  | EMissingParam p => 1 :: ser_str p
  | EInvalidParamType p => 2 :: ser_str p
  | EUnrecognizedParams => [3] | EInvalidTaskName => [4] | EDuplicateTaskName => [5]
  | EGroupInvalidInstance => [6] | EGroupDuplicateName => [7] | EInvalidIdentifier => [8]
  | EDuplicateDependency => [9] | ECombineDuplicateDepName => [10] | EArgsNonPrimitive => [11]
  | EOptionsNonStringKey => [12] | EOptionsNonPrimitive => [13] | EUnknownName => [14]
  | ETaskNotFound => [15] | EPython => [16]
  end.
Definition ser_result {A} (f : A -> list N) (r : result A) : list N :=
  match r with Ok a => 1 :: f a | Err e => 0 :: ser_err e end.
Definition ser_ident (i : ident) : list N := ser_list ser_str (ipath i) ++ ser_str (iname i).
Definition ser_task (t : task) : list N :=
  ser_ident (tk_ident t) ++ ser_str (tk_type t) ++ ser_list ser_ident (tk_deps t)
  ++ ser_opt ser_value (lookup K_run (tk_fields t)) ++ ser_opt ser_value (lookup K_args (tk_fields t))
  ++ ser_opt ser_value (lookup K_options (tk_fields t)) ++ ser_opt ser_value (lookup K_parallelizable (tk_fields t)).
"""

COQ_IMPORTS = "From Coq Require Import ZArith.\nFrom Conductor Require Import Lib.Str Lib.Cmp Lib.SchemaTypes Gen.Generated Model.Ident Model.Schema Model.Group."


def ser_ident(i):
    """i = (path parts tuple, name)"""
    return ser_list(ser_str, list(i[0])) + ser_str(i[1])


def ser_task(t):
    """t = dict(ident, type, deps, run, args, options, parallelizable) with None for absent fields"""
    return (
        ser_ident(t["ident"])
        + ser_str(t["type"])
        + ser_list(ser_ident, t["deps"])
        + ser_opt(ser_value, t["run"])
        + ser_opt(ser_value, t["args"])
        + ser_opt(ser_value, t["options"])
        + ser_opt(ser_value, t["parallelizable"])
    )


def ser_outcome(o):
    """o = ("ok", [task...]) | ("err", (class, param))"""
    if o[0] == "ok":
        return [1] + ser_list(ser_task, o[1])
    return [0] + ser_err(o[1])


# ----------------------------------------------------------------------------- COND sources
def render_call(ctor, kwargs):
    return "%s(%s)\n" % (ctor, ", ".join("%s=%r" % kv for kv in kwargs.items()))


GROUP_SIGNATURE = ("name", "run", "experiments", "chain_experiments", "deps")   # the documented order of the parameters


def renders_positionally(g):
    """run_experiment_group is a plain Python function with a documented signature, so calling it with positional
    arguments is legal.  A group whose written parameters are a prefix of the documented order, with at least the fourth
    one present, is written positionally in (a deterministic) half of the cases."""
    import zlib

    keys = tuple(g.keys())
    return len(keys) >= 4 and keys == GROUP_SIGNATURE[:len(keys)] and zlib.crc32(repr(sorted(map(str, g.items()))).encode()) % 2 == 0


def render_group(g):
    """g: dict with keys name, run, and optionally experiments, chain_experiments, deps (present = written)"""
    if renders_positionally(g):
        return "run_experiment_group(%s)\n" % ", ".join("%r" % (v,) for v in g.values())
    return render_call("run_experiment_group", g)


# ----------------------------------------------------------------------------- the real loader
class Loader:
    """the real conductor.parsing.task_index.TaskIndex on a scratch project, in-process"""

    def __init__(self):
        setup_impl_path()
        from conductor.errors import ConductorError
        from conductor.parsing.task_index import TaskIndex
        from conductor.task_identifier import TaskIdentifier

        self.ConductorError = ConductorError
        self.TaskIndex = TaskIndex
        self.TaskIdentifier = TaskIdentifier
        self.root = pathlib.Path(os.path.join(new_dir("loader"), "p"))
        self.root.mkdir()
        (self.root / "cond_config.toml").write_text("disable_git = true\n")
        self.n = 0

    def write(self, files):
        """fresh sub-project directory with the given {relative path: text}; returns its root"""
        self.n += 1
        root = self.root / ("c%d" % self.n)
        for rel, text in files.items():
            p = root / rel
            p.parent.mkdir(parents=True, exist_ok=True)
            p.write_text(text, encoding="utf-8")
        return root

    def describe(self, task):
        ident = task.identifier
        d = {
            "ident": (tuple(ident.path.parts), ident.name),
            "type": type(task).__name__,
            "deps": [(tuple(x.path.parts), x.name) for x in task.deps],
            "run": None,
            "args": None,
            "options": None,
            "parallelizable": None,
        }
        if hasattr(task, "raw_run"):
            d["run"] = task.raw_run
            d["args"] = task.args._args  # pylint: disable=protected-access
            d["options"] = task.options._options  # pylint: disable=protected-access
            d["parallelizable"] = task._parallelizable  # pylint: disable=protected-access
        return d

    def classify(self, ex):
        if isinstance(ex, self.ConductorError):
            return ("err", (type(ex).__name__, getattr(ex, "parameter_name", None)))
        return ("err", ("<python>", "%s: %s" % (type(ex).__name__, ex)))

    def load_file(self, root, rel_dir):
        """parse rel_dir/COND and materialise every task of it (definition order)"""
        idx = self.TaskIndex(root)
        rel = pathlib.Path(rel_dir, "COND")
        try:
            idx.load_all_tasks_in_cond_file(rel)
        except Exception as ex:  # pylint: disable=broad-except
            return self.classify(ex), idx
        tasks = idx.get_all_loaded_tasks()
        return ("ok", [self.describe(t) for t in tasks.values()]), idx

    def load_one(self, root, rel_dir, name):
        """TaskIndex.load_single_task(//rel_dir:name)"""
        idx = self.TaskIndex(root)
        ident = self.TaskIdentifier(pathlib.Path(rel_dir), name)
        try:
            idx.load_single_task(ident)
        except Exception as ex:  # pylint: disable=broad-except
            return self.classify(ex)
        return ("ok", [self.describe(idx.get_all_loaded_tasks()[ident])])


# ----------------------------------------------------------------------------- documented grammar
def doc_name(s):
    return isinstance(s, str) and len(s) > 0 and all(c in IDC for c in s)


def doc_dep(s, here):
    """documented reading of a dependency string listed in directory `here` (tuple of parts):
    ':name' or '//path/to:name'.  Returns (path parts, name) or None."""
    if not isinstance(s, str):
        return None
    if s.startswith(":"):
        return (tuple(here), s[1:]) if doc_name(s[1:]) else None
    if not s.startswith("//"):
        return None
    body = s[2:]
    if body.count(":") != 1:
        return None
    p, n = body.split(":")
    if not doc_name(n):
        return None
    segs = p.split("/")
    if not all(doc_name(x) for x in segs[:-1]):
        return None
    if not (segs[-1] == "" or doc_name(segs[-1])):
        return None
    return (tuple(x for x in segs if x), n)


def is_primitive(v):
    return isinstance(v, (str, bool, int, float)) and not isinstance(v, Other)
