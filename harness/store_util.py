"""Shared by c08.py and c06.py: generated projects whose experiments run one instrumented task
script, invocations of the real `cond` with a patched clock / a line-level crash injector,
observation of the index and of cond-out, an emulation of the planner's allocation order, and the
Coq literals that replay a history on Model/Store.v."""
import collections
import json
import multiprocessing
import os
import re
import shutil
import sqlite3
import subprocess
import sys
import time

import implrun
from common import NCPU, new_dir, pack, setup_impl_path

CRASH_EXIT = 77
RUNAWAY_EXIT = 78     # the allocation loop consumed an absurd number of clock readings
MAX_READINGS = 2000

TSH = r"""#!/bin/bash
# body of every generated experiment; what it does is decided by the environment of the invocation
n="${VINV}.${COND_NAME}.$$"
v="VBEH_${COND_NAME}"; beh="${!v:-ok}"
{ echo "$COND_OUT"; ls -A "$COND_OUT" | tr '\n' ' '; echo; echo "$beh"; } > "$VOBS/$n.start"
echo x > "$COND_OUT/started.$n"
case "$beh" in
  ok) echo x > "$COND_OUT/finished.$n"; exit 0 ;;
  faillate) echo x > "$COND_OUT/finished.$n"; exit 3 ;;
  fail) exit 3 ;;
  kill) kill -9 $$ ;;
  abort) kill -INT "$VCONDPID"; sleep 20; exit 0 ;;
esac
exit 0
"""

# behaviour -> (child script of the model, exit status, killing signal)
BEHAVIOURS = {
    "ok": ("[CStart; CDone]", 0, None),
    "faillate": ("[CStart; CDone]", 3, None),
    "fail": ("[CStart]", 3, None),
    "kill": ("[CStart]", 0, 9),
    "abort": ("[CStart]", 0, 15),
}

ARGS_VALUE = ["a1", 2]
OPTS_VALUE = {"k": 1}


def preimport():
    """import everything `cond` imports so that forked children do no import work (and the
    line tracer sees no module-level code)"""
    setup_impl_path()
    import conductor.__main__  # noqa: F401  pylint: disable=import-outside-toplevel,unused-import

    try:
        import conductor.envs.manager_impl  # noqa: F401  pylint: disable=import-outside-toplevel,unused-import
    except ImportError:
        pass


# ----------------------------------------------------------------------------- shapes
class Task:
    def __init__(self, name, num, deps=(), args=False, opts=False, kind="exp", path="", par=False):
        self.name = name
        self.num = num
        self.deps = list(deps)
        self.args = args
        self.opts = opts
        self.kind = kind
        self.path = path
        self.par = par

    def ident(self):
        return "//%s:%s" % (self.path, self.name)


class Shape:
    """a project: experiments (numbered from 1) and groups; all in the root COND unless path is set"""

    def __init__(self, tasks, label=""):
        self.tasks = list(tasks)
        self.by_name = {t.name: t for t in self.tasks}
        self.label = label

    def describe(self):
        return {
            "label": self.label,
            "tasks": [
                {"name": t.name, "num": t.num, "kind": t.kind, "deps": t.deps, "args": t.args, "opts": t.opts, "path": t.path, "par": t.par}
                for t in self.tasks
            ],
        }

    @staticmethod
    def from_description(d):
        return Shape([Task(t["name"], t["num"], t["deps"], t["args"], t["opts"], t["kind"], t.get("path", ""), t.get("par", False)) for t in d["tasks"]], d.get("label", ""))

    def files(self, tsh):
        per_dir = collections.OrderedDict()
        for t in self.tasks:
            deps = "[%s]" % ", ".join('"%s"' % self.by_name[d].ident() for d in t.deps)
            if t.kind == "group":
                text = 'group(name="%s", deps=%s)\n' % (t.name, deps)
            else:
                extra = ""
                if t.args:
                    extra += ", args=%s" % json.dumps(ARGS_VALUE)
                if t.opts:
                    extra += ", options=%s" % json.dumps(OPTS_VALUE)
                if t.par:
                    extra += ", parallelizable=True"
                text = 'run_experiment(name="%s", run="%s", deps=%s%s)\n' % (t.name, tsh, deps, extra)
            per_dir.setdefault(t.path, []).append(text)
        out = {}
        for path, texts in per_dir.items():
            out[os.path.join(path, "COND") if path else "COND"] = "".join(texts)
        return out

    def num_of_ident(self, ident):
        for t in self.tasks:
            if t.ident() == ident:
                return t.num
        return 999


class Project:
    def __init__(self, shape, git=False, name="proj"):
        self.shape = shape
        base = new_dir(name)
        self.base = base
        self.obs = os.path.join(base, "obs")
        os.makedirs(self.obs)
        self.tsh = os.path.join(base, "t.sh")
        with open(self.tsh, "w") as f:
            f.write(TSH)
        os.chmod(self.tsh, 0o755)
        self.root = os.path.join(base, "p")
        os.makedirs(self.root)
        files = shape.files(self.tsh)
        files["cond_config.toml"] = "" if git else "disable_git = true\n"
        for rel, text in files.items():
            p = os.path.join(self.root, rel)
            os.makedirs(os.path.dirname(p), exist_ok=True)
            with open(p, "w") as f:
                f.write(text)
        self.git = git
        if git:
            self.git_cmd("init", "-q")
            self.git_cmd("add", "-A")
            self.git_cmd("commit", "-q", "-m", "c1")

    def git_cmd(self, *args):
        env = dict(os.environ, GIT_AUTHOR_NAME="v", GIT_AUTHOR_EMAIL="v@example.invalid", GIT_COMMITTER_NAME="v",
                   GIT_COMMITTER_EMAIL="v@example.invalid", GIT_CONFIG_GLOBAL="/dev/null", GIT_CONFIG_SYSTEM="/dev/null")
        return subprocess.run(["git"] + list(args), cwd=self.root, env=env, stdout=subprocess.PIPE, stderr=subprocess.STDOUT, check=True).stdout.decode()

    def clone_to(self, dest_base):
        """copy of the project (root + obs) for one crash run; the task script stays shared"""
        p = Project.__new__(Project)
        p.shape = self.shape
        p.base = dest_base
        p.obs = os.path.join(dest_base, "obs")
        p.tsh = self.tsh
        p.root = os.path.join(dest_base, "p")
        p.git = self.git
        shutil.copytree(self.root, p.root, symlinks=True)
        shutil.copytree(self.obs, p.obs)
        return p

    def cleanup(self):
        shutil.rmtree(self.base, ignore_errors=True)


# ----------------------------------------------------------------------------- invocations
def _make_pre(obs, inv, clock, crash_at, trace_file):
    def pre():
        import subprocess as sp  # pylint: disable=import-outside-toplevel,reimported
        import time as _time  # pylint: disable=import-outside-toplevel,reimported

        os.environ["VCONDPID"] = str(os.getpid())
        pidfile = os.path.join(obs, "pids.%s" % inv)
        orig_init = sp.Popen.__init__

        def init2(self, *a, **kw):
            orig_init(self, *a, **kw)
            try:
                with open(pidfile, "a") as f:
                    f.write("%d %s\n" % (self.pid, _starttime(self.pid)))
            except OSError:
                pass

        sp.Popen.__init__ = init2

        if clock is not None:
            real = _time.time
            seq = list(clock)
            pos = [0]
            clockfile = os.path.join(obs, "clock.%s" % inv)

            def fake():
                fr = sys._getframe(1)  # pylint: disable=protected-access
                if fr.f_code.co_filename.endswith("version_index.py"):
                    i = pos[0]
                    v = seq[i] if i < len(seq) else seq[-1]
                    pos[0] = i + 1
                    if i < MAX_READINGS:
                        with open(clockfile, "a") as fh:
                            fh.write("%d\n" % v)
                    elif i > 50 * MAX_READINGS:
                        os._exit(RUNAWAY_EXIT)  # pylint: disable=protected-access
                    return float(v) + 0.25
                return real()

            _time.time = fake

        import conductor.__main__ as m  # pylint: disable=import-outside-toplevel

        if crash_at is None and trace_file is None:
            return
        count = [0]
        log = [] if trace_file is not None else None

        def in_handler(frame):
            f = frame
            for _ in range(4):
                if f is None:
                    return False
                if f.f_code.co_name == "_handler" and f.f_code.co_filename.endswith("sigchld.py"):
                    return True
                f = f.f_back
            return False

        def local(frame, event, arg):  # pylint: disable=unused-argument
            if event == "line":
                count[0] += 1
                if count[0] == crash_at:
                    os._exit(CRASH_EXIT)  # pylint: disable=protected-access
                if log is not None:
                    log.append((os.path.basename(frame.f_code.co_filename), frame.f_lineno))
            return local

        def tr(frame, event, arg):  # pylint: disable=unused-argument
            fn = frame.f_code.co_filename
            if "/conductor/" not in fn:
                # `cond clean` is one call of shutil.rmtree: its removals are the instants of interest
                if not (os.environ.get("VTRACE_SHUTIL") and fn.endswith("/shutil.py")):
                    return None
                return local
            # the SIGCHLD helper runs asynchronously / loops on timing: not counted (it holds no persistent state)
            if fn.endswith("sigchld.py"):
                return None
            # its loops run once per entry of sys.modules, which differs from process to process
            if fn.endswith("user_code.py") and frame.f_code.co_name in ("prevent_module_caching", "<setcomp>", "<genexpr>", "<dictcomp>"):
                return None
            return local

        orig = m.main

        def main2():
            sys.settrace(tr)
            try:
                orig()
            finally:
                sys.settrace(None)
                if trace_file is not None:
                    with open(trace_file, "w") as fh:
                        json.dump(log, fh)

        m.main = main2

    return pre


def _stat(pid):
    """(state, start time) of a process, or None when it is gone"""
    try:
        with open("/proc/%d/stat" % pid) as f:
            fields = f.read().rsplit(")", 1)[1].split()
        return fields[0], fields[19]
    except (OSError, IndexError):
        return None


def _starttime(pid):
    st = _stat(pid)
    return st[1] if st else "-"


def wait_pids(pids, timeout=30.0):
    """pids: [(pid, start time)].  Wait until none of these processes is running any more (gone, a
    zombie, or the pid now belongs to a different process)."""
    t0 = time.time()
    pending = set(pids)
    while pending:
        for ent in list(pending):
            st = _stat(ent[0])
            if st is None or st[0] in ("Z", "X") or st[1] != ent[1]:
                pending.discard(ent)
        if not pending:
            return True
        if time.time() - t0 > timeout:
            for ent in pending:
                st = _stat(ent[0])
                if st is not None and st[1] == ent[1]:
                    try:
                        os.kill(ent[0], 9)
                    except OSError:
                        pass
            return False
        time.sleep(0.001)
    return True


def invoke(project, argv, inv, beh=None, clock=None, crash_at=None, trace_file=None, cwd=None, timeout=60, extra_env=None):
    """one `cond <argv>`; returns (Result, clock readings consumed, pids spawned).  Waits for the
    task processes the invocation left behind."""
    env = {"VINV": str(inv), "VOBS": project.obs}
    for name, b in (beh or {}).items():
        env["VBEH_" + name] = b
    env.update(extra_env or {})
    pre = _make_pre(project.obs, inv, clock, crash_at, trace_file)
    t0 = time.time()
    res = implrun.run_cond(argv, cwd or project.root, env=env, pre=pre, timeout=timeout)
    # killed by run_cond's own timeout: the command hung (termination is C09's subject, not ours)
    res.hung = res.code == -9 and time.time() - t0 >= timeout - 1
    pids = []
    pf = os.path.join(project.obs, "pids.%s" % inv)
    if os.path.exists(pf):
        pids = [(int(ln.split()[0]), ln.split()[1]) for ln in open(pf).read().splitlines() if len(ln.split()) == 2]
    wait_pids(pids)
    readings = []
    cf = os.path.join(project.obs, "clock.%s" % inv)
    if os.path.exists(cf):
        readings = [int(x) for x in open(cf).read().split()]
    return res, readings, pids


# ----------------------------------------------------------------------------- observation
def index_rows(root):
    """committed rows; an index file whose table does not exist yet (cond killed while creating it) has none"""
    try:
        return implrun.index_rows(root)
    except sqlite3.OperationalError as ex:
        if "no such table" in str(ex):
            return []
        raise


VERSION_DIR = re.compile(r"^(?P<name>.+)\.task\.(?P<ts>[0-9]+)$")


def _staging_name():
    setup_impl_path()
    from conductor.config import ARCHIVE_STAGING  # pylint: disable=import-outside-toplevel

    return ARCHIVE_STAGING


def version_dirs(project):
    """{(ident, ts): absolute path} of every <name>.task.<ts> directory under cond-out (restore's staging directory
    is not searched, unless its name could be a package of the project)"""
    out = {}
    co = os.path.join(project.root, "cond-out")
    if not os.path.isdir(co):
        return out
    for dp, dns, _fns in os.walk(co):
        for dn in list(dns):
            m = VERSION_DIR.match(dn)
            if m:
                rel = os.path.relpath(dp, co)
                rel = "" if rel == "." else rel
                out[("//%s:%s" % (rel, m.group("name")), int(m.group("ts")))] = os.path.join(dp, dn)
                dns.remove(dn)
            elif dn == _staging_name() and re.match(r"^[a-zA-Z0-9_-]+\Z", dn) is None and dp == co:
                dns.remove(dn)
    return out


def dir_content(path):
    """(nonces that wrote, nonces that finished, has args.json, has options.json)"""
    try:
        names = os.listdir(path)
    except OSError:
        names = []
    started = {n[len("started."):] for n in names if n.startswith("started.")}
    finished = {n[len("finished."):] for n in names if n.startswith("finished.")}
    return (started | finished, finished, "args.json" in names, "options.json" in names)


def observe(project):
    """abstract state: (rows, dirs) with rows = [(task num, ts, commit|None, dirty)] sorted and
    dirs = [(task num, ts, #writers, #finished, args, opts)] sorted"""
    shape = project.shape
    rows = []
    for ident, ts, commit, dirty in index_rows(project.root):
        rows.append((shape.num_of_ident(ident), ts, commit, bool(dirty)))
    rows.sort(key=lambda r: (r[0], r[1]))
    dirs = []
    for (ident, ts), path in version_dirs(project).items():
        w, f, a, o = dir_content(path)
        dirs.append((shape.num_of_ident(ident), ts, len(w), len(f), a, o))
    dirs.sort()
    return rows, dirs


def ser_head(commit, dirty):
    out = [0] if commit is None else [1, len(commit)] + [ord(c) for c in commit]
    return out + [1 if dirty else 0]


def ser_obs(obs, keys_only=False):
    rows, dirs = obs
    out = [len(rows)]
    for t, ts, commit, dirty in rows:
        out += [t, ts] + ser_head(commit, dirty)
    out.append(len(dirs))
    for t, ts, nw, nf, a, o in dirs:
        out += [t, ts] if keys_only else [t, ts, nw, nf, 1 if a else 0, 1 if o else 0]
    return out


def pack_obs(obs, keys_only=False):
    return pack(ser_obs(obs, keys_only))


# ----------------------------------------------------------------------------- planner emulation
def plan(shape, root, again, recorded):
    """emulates ExecutionPlanner.create_plan_for (as repaired by 8404535) for projects without
    git: returns (allocation order = experiments in second-visit order, ops dict, op order).
    recorded: set of task names that have a recorded version (cached unless --again)."""

    class LT:  # pylint: disable=too-few-public-methods
        def __init__(self, name):
            self.name = name
            self.state = 0
            self.deps = []
            self.out = []

    ops = []  # (name, [exe dep op indices])
    visited = {}
    stack = [LT(root)]
    while stack:
        lt = stack.pop()
        t = shape.by_name[lt.name]
        if lt.state == 0:
            if lt.name in visited:
                lt.out = visited[lt.name].out
                continue
            visited[lt.name] = lt
            if not again and t.kind == "exp" and lt.name in recorded:
                continue
            lt.state = 1
            stack.append(lt)
            for dep in reversed(t.deps):
                if dep in visited:
                    lt.deps.append(visited[dep])
                    continue
                d = LT(dep)
                lt.deps.append(d)
                stack.append(d)
        else:
            exe = []
            for d in lt.deps:
                exe.extend(d.out)
            idx = len(ops)
            ops.append((lt.name, exe))
            lt.out.append(idx)
    return ops


def execute(shape, ops, beh):
    """sequential executor: returns {op index: 'ok'|'fail'|'skip'|'notrun'} following the ready queue"""
    n = len(ops)
    waiting = [len(e) for (_nm, e) in ops]
    deps_of = [[] for _ in range(n)]
    for i, (_nm, e) in enumerate(ops):
        for d in e:
            deps_of[d].append(i)
    queue = collections.deque(i for i in range(n) if waiting[i] == 0)
    status = {i: "notrun" for i in range(n)}
    order = []
    aborted = False
    while queue and not aborted:
        i = queue.popleft()
        name, e = ops[i]
        t = shape.by_name[name]
        if not all(status[d] == "ok" for d in e):
            status[i] = "skip"
        elif t.kind == "group":
            status[i] = "ok"
        else:
            b = beh.get(name, "ok")
            order.append(i)
            if b == "ok":
                status[i] = "ok"
            elif b == "abort":
                status[i] = "abort"
                aborted = True
                break
            else:
                status[i] = b
        for d in deps_of[i]:
            waiting[d] -= 1
        for d in deps_of[i]:
            if waiting[d] == 0 and status[d] == "notrun" and d not in queue:
                queue.append(d)
    return status, order


def run_specs(shape, root, again, recorded, beh):
    """the model's spec list of one `cond run` (allocation order), as Coq text and as data"""
    ops = plan(shape, root, again, recorded)
    status, _order = execute(shape, ops, beh)
    specs = []
    for i, (name, _e) in enumerate(ops):
        t = shape.by_name[name]
        if t.kind != "exp":
            continue
        st = status[i]
        runs = st not in ("skip", "notrun")
        b = beh.get(name, "ok") if runs else "ok"
        script, rc, sig = BEHAVIOURS[b]
        specs.append({"task": t.num, "name": name, "args": t.args, "opts": t.opts, "runs": runs, "beh": b,
                      "coq": "mk_spec %d (%s, %s) %s %s %d %s" % (t.num, cb(t.args), cb(t.opts), cb(runs), script, rc,
                                                                 "None" if sig is None else "(Some %d)" % sig)})
    return specs


def cb(b):
    return "true" if b else "false"


def chead(commit, dirty):
    if commit is None:
        return "(None, %s)" % cb(dirty)
    return "(Some [%s], %s)" % ("; ".join(str(ord(c)) for c in commit), cb(dirty))


def coq_command(cmd):
    """cmd: dict with kind run/restore/gc/archive; returns Coq text of a Store.command"""
    k = cmd["kind"]
    if k == "run":
        return "KRun %s [%s]" % (chead(cmd.get("commit"), cmd.get("dirty", False)), "; ".join(s["coq"] for s in cmd["specs"]))
    if k == "restore":
        ents = []
        for e in cmd["archive"]:
            hd = chead(e.get("commit"), e.get("dirty", False))
            d = "mk_dir 900 %s (%s, %s) [900] [900] (Some 0) %s %s false" % (hd, cb(e["args"]), cb(e["opts"]), cb(e["args"]), cb(e["opts"]))
            ents.append("(mk_row %d %d %s, Some (%s))" % (e["task"], e["ts"], hd, d))
        return "KRestore [%s]" % "; ".join(ents)
    if k == "gc":
        return "KGc"
    if k == "archive":
        return "KArchive"
    if k == "clean":
        return "KClean"
    raise ValueError(k)


def coq_clock(readings):
    last = readings[-1] if readings else 0
    return "(fun n => nth n [%s] %d)" % ("; ".join(str(r) for r in readings), last)


# ----------------------------------------------------------------------------- parallel map
def pmap(fn, items, procs=None):
    """fork-based parallel map (each worker runs forked `cond` children of its own)"""
    items = list(items)
    if not items:
        return []
    procs = min(procs or NCPU, len(items))
    if procs <= 1:
        return [fn(x) for x in items]
    ctx = multiprocessing.get_context("fork")
    with ctx.Pool(procs) as pool:
        return pool.map(fn, items, chunksize=max(1, len(items) // (procs * 8)))
