#!/bin/bash
# ts.sh <prop> <module> <func> [seed-dir]: run a scenario on the clean tree, or on a seed, under the ./check environment
cd /verif; export PYTHONHASHSEED=0 PYTHONDONTWRITEBYTECODE=1 LC_ALL=C.UTF-8
if [ -n "$4" ]; then harness/with_seed.sh $4 env PYTHONPATH_SET=1 /bin/bash -c 'export PYTHONPATH="$VERIF_REPO/src:/verif/harness"; /venv/bin/python harness/try_scenario.py '"$1 $2 $3"; else export VERIF_REPO=/repo PYTHONPATH="/repo/src:/verif/harness"; /venv/bin/python harness/try_scenario.py $1 $2 $3; fi 2>&1 | tail -4 | cut -c1-500
