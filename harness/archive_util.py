"""Helpers shared by c11.py and c12.py (archive / restore): project generator with real run
histories, observers, archive mutators, the line-level crash injector, Coq literals and the
Python mirror of the packed result channel for Model/Archive.v."""
import concurrent.futures
import hashlib
import multiprocessing
import os
import random
import re
import shutil
import sqlite3
import subprocess

import implrun
from common import NCPU, cbool, clist, copt, cstr, new_dir, pack, ser_bool, ser_n, ser_opt, ser_str, setup_impl_path

MASK64 = 0xFFFFFFFFFFFFFFFF
OUT = "cond-out"
INDEX = "version_index.sqlite"
AINDEX = "version_index_archive.sqlite"
setup_impl_path()
from conductor.config import ARCHIVE_STAGING as STAGING  # noqa: E402  pylint: disable=wrong-import-position

# the staging directory is skipped by the observers only when its name cannot be a package of the project (D23: it
# used to be `archive-tmp`, a legal package name, and restore wiped the outputs of that package)
STAGING_IS_A_LEGAL_NAME = re.match(r"^[a-zA-Z0-9_-]+\Z", STAGING) is not None
VDIR = re.compile(r"^(.+)\.task\.(\d+)$")

# ------------------------------------------------------------------ Coq side of the channel
IMPORTS = "From Conductor Require Import Lib.Str Lib.Cmp Model.Archive."
DEFS = """
Definition mkrow (T : str) (ts : N) (c : option str) (d : N) : row :=
  {| r_task := T; r_ts := ts; r_commit := c; r_dirty := d |}.
Definition mktask (deps : list str) (a : bool) : task := {| t_deps := deps; t_archivable := a |}.
Definition mkproj (rows : table) (dirs : fs) (stage : bool) (aidx : option table) : proj :=
  {| p_rows := rows; p_dirs := dirs; p_stage := stage; p_aidx := aidx |}.
Definition mkx (f ok : bool) (idx : option table) (dirs : fs) : extraction :=
  {| x_file := f; x_ok := ok; x_index := idx; x_dirs := dirs |}.
Definition ser_row (r : row) : list N :=
  ser_str (r_task r) ++ ser_N (r_ts r) ++ ser_opt ser_str (r_commit r) ++ ser_N (r_dirty r).
Definition msum {A} (f : A -> list N) (l : list A) : N :=
  fold_left (fun a x => N.land (a + pack (f x)) mask64) l 0.
Definition ser_rows (t : table) : list N := [N.of_nat (length t); msum ser_row t].
Definition ser_dir (e : key * content) : list N :=
  ser_str (fst (fst e)) ++ ser_N (snd (fst e)) ++ ser_N (snd e).
Definition ser_dirs (f : fs) : list N := [N.of_nat (length f); msum ser_dir f].
Definition ser_tres (r : tres) : list N :=
  match r with TOk l => 0 :: ser_list ser_str l | TMissing _ => [1] | TFuel => [2] end.
Definition ares_tag (a : ares) : N :=
  match a with AOk _ => 0 | ANoOutputs => 1 | AIntegrity => 2 | ATaskMissing => 3 | AFuel => 4 | ATarFailed => 5 end.

(* copy_entries_to: rows visible in dest afterwards (inside its transaction) and the count *)
Definition case_copy (src dest0 : table) (tasks : option (list str)) (latest : bool) : N :=
  let '(d, n) := copy_entries_to src tasks latest (db_open dest0) in
  (* after an IntegrityError which of the selected rows were already inserted depends on the
     order sqlite produced them in (unspecified by SQL; never committed): compare the committed
     rows only *)
  pack (match n with Some _ => ser_rows (db_view d) | None => ser_rows (d_committed d) end ++ ser_opt ser_nat n).
Definition case_trav (g : graph) (root : str) : N :=
  pack (ser_tres (traverse g root)
        ++ match compute_tasks_to_archive g (Some root) with
           | inr (Some l) => ser_list ser_str l
           | _ => [99]
           end).
Definition ser_after (Q : proj) (ok : bool) : list N :=
  ser_bool ok ++ ser_rows (p_rows Q) ++ ser_dirs (p_dirs Q) ++ ser_bool (p_stage Q).
Definition case_e2e (g : graph) (target : option str) (latest : bool) (P Q : proj) : N :=
  let '(P', a) := archive g target latest P in
  pack (ares_tag a :: ser_rows (p_rows P') ++ ser_dirs (p_dirs P') ++ ser_bool (is_some (p_aidx P'))
        ++ match a with
           | AOk A => ser_rows (a_rows A) ++ ser_dirs (a_dirs A)
                      ++ (let '(Q', ok) := restore no_faults (extraction_of A) Q in ser_after Q' ok)
           | _ => []
           end).
(* one environment fault: step number fa raises; a failing copytree leaves content pc behind *)
Definition env_at (fa : option nat) (pc : option content) : env :=
  {| e_fail := fun i => match fa with Some j => Nat.eqb i j | None => false end; e_partial := fun _ => pc |}.
Definition case_restore (fa : option nat) (pc : option content) (x : extraction) (P : proj) : N :=
  let '(Q, ok) := restore (env_at fa pc) x P in pack (ser_after Q ok).
Definition crash_code (P : proj) (st : rstate) : N :=
  pack (ser_rows (p_rows (to_proj P st)) ++ ser_dirs (p_dirs (to_proj P st)) ++ ser_bool (s_stage st)).
Definition crash_codes (fa : option nat) (pc : option content) (x : extraction) (P : proj) : list N :=
  map (crash_code P) (fst (restore_states (env_at fa pc) x (init_state P))).
(* every observed crash state is a crash state of the model: 1 per observation *)
Definition case_crash (fa : option nat) (pc : option content) (x : extraction) (P : proj) (observed : list N) : list N :=
  map (fun o => if existsb (N.eqb o) (crash_codes fa pc x P) then 1 else 0) observed.
(* every crash state of the model was observed (full sweeps only) *)
Definition case_crash_cover (x : extraction) (P : proj) (observed : list N) : list N :=
  map (fun c => if existsb (N.eqb c) observed then 1 else 0) (crash_codes None None x P).
"""


# ------------------------------------------------------------------ Python side of the channel
def ser_row(r):
    return ser_str(r[0]) + ser_n(r[1]) + ser_opt(ser_str, r[2]) + ser_n(r[3])


def msum(f, items):
    acc = 0
    for x in items:
        acc = (acc + pack(f(x))) & MASK64
    return acc


def ser_rows(rows):
    return [len(rows), msum(ser_row, rows)]


def ser_dir(e):
    (t, ts), c = e
    return ser_str(t) + ser_n(ts) + ser_n(c)


def ser_dirs(dirs):
    """dirs: {(task, ts): content id}"""
    return [len(dirs), msum(ser_dir, list(dirs.items()))]


def ser_after(ok, rows, dirs, stage):
    return ser_bool(ok) + ser_rows(rows) + ser_dirs(dirs) + ser_bool(stage)


def crow(r):
    return "(mkrow %s %d %s %d)" % (cstr(r[0]), r[1], copt(r[2], cstr), r[3])


def ctable(rows):
    return clist([crow(r) for r in rows])


def cfs(dirs):
    """dirs: list of ((task, ts), content id) -- order matters only for readability"""
    return clist(["((%s, %d), %d)" % (cstr(t), ts, c) for (t, ts), c in dirs])


def cgraph(g):
    """g: list of (task str, [dep strs], archivable)"""
    return clist(["(%s, mktask %s %s)" % (cstr(t), clist([cstr(d) for d in deps]), cbool(a)) for t, deps, a in g])


def cproj(rows, dirs, stage=False, aidx=None):
    return "(mkproj %s %s %s %s)" % (ctable(rows), cfs(sorted(dirs.items())), cbool(stage), copt(aidx, ctable))


def cx(is_file, ok, idx_rows, dirs):
    return "(mkx %s %s %s %s)" % (cbool(is_file), cbool(ok), copt(idx_rows, ctable), cfs(sorted(dirs.items())))


class ContentIds:
    """distinct tree snapshots -> small numbers (stable within one scenario)"""

    def __init__(self):
        self.ids = {}

    def of(self, snap):
        key = hashlib.sha1(repr(sorted(snap.items())).encode()).hexdigest()
        if key not in self.ids:
            self.ids[key] = len(self.ids) + 1
        return self.ids[key]


# ------------------------------------------------------------------ generated projects
PKGS = ["", "sub", "sub/deep", "other", "archive-tmp"]   # the last one: the former name of restore's staging directory (D23)


def task_str(pkg, name):
    return "//%s:%s" % (pkg, name)


def octal(data):
    return "".join("\\%03o" % b for b in data)


def tree_command(tree):
    """bash command that creates `tree` under $COND_OUT; tree: list of
    ('f', rel, bytes-as-list, mode) | ('d', rel, mode) | ('l', rel, target)"""
    parts = ['cd "$COND_OUT"', "echo out-$COND_NAME", 'basename "$COND_OUT" > id.txt']
    for it in tree:
        if it[0] == "d":
            parts.append("mkdir -p '%s'" % it[1])
            parts.append("chmod %o '%s'" % (it[2], it[1]))
        elif it[0] == "f":
            d = os.path.dirname(it[1])
            if d:
                parts.append("mkdir -p '%s'" % d)
            parts.append("printf '%s' > '%s'" % (octal(bytes(it[2])), it[1]))
            parts.append("chmod %o '%s'" % (it[3], it[1]))
        elif it[0] == "l":
            d = os.path.dirname(it[1])
            if d:
                parts.append("mkdir -p '%s'" % d)
            parts.append("ln -s '%s' '%s'" % (it[2], it[1]))
    return " && ".join(parts)


def gen_tree(rng, rich):
    names = ["a.txt", "b bin", "d1/c.dat", "d1/d2/e", "ü.txt", "z"]
    tree = []
    for nm in rng.sample(names, rng.randint(1, 4 if rich else 2)):
        n = rng.choice([0, 1, 7, 300])
        data = [rng.randrange(256) for _ in range(n)]
        tree.append(("f", nm, data, rng.choice([0o644, 0o600, 0o755, 0o444])))
    if rich or rng.random() < 0.3:
        if rng.random() < 0.8:
            tree.append(("d", rng.choice(["empty", "d1/emptier", "e1/e2/e3"]), rng.choice([0o755, 0o700])))
        if rng.random() < 0.8:
            tree.append(("l", "dangling", "/nonexistent/" + str(rng.randrange(100))))
        if rng.random() < 0.6:
            tree.append(("l", "d1/uplink", "../id.txt"))
        if rng.random() < 0.5:
            tree.append(("d", "realdir", 0o755))
            tree.append(("l", "dirlink", "realdir"))
        if rng.random() < 0.3:
            tree.append(("l", "selfloop", "selfloop"))
    return tree


def gen_spec(rng, shape=None, rich=None, git=None):
    """A project: tasks in creation order (deps point to earlier tasks only), a run history."""
    if rich is None:
        rich = rng.random() < 0.6
    if git is None:
        git = rng.random() < 0.25
    tasks = []
    if shape == "d5":
        # g -> [e1, mid], mid -> [e1]  (both listing orders are generated by the caller)
        tasks = [
            {"pkg": "sub", "name": "e1", "kind": "exp", "deps": []},
            {"pkg": "", "name": "mid", "kind": "cmd", "deps": ["//sub:e1"]},
            {"pkg": "", "name": "g", "kind": "exp", "deps": ["//sub:e1", "//:mid"]},
        ]
    elif shape == "d5rev":
        tasks = [
            {"pkg": "sub", "name": "e1", "kind": "exp", "deps": []},
            {"pkg": "", "name": "mid", "kind": "cmd", "deps": ["//sub:e1"]},
            {"pkg": "", "name": "g", "kind": "exp", "deps": ["//:mid", "//sub:e1"]},
        ]
    else:
        n = rng.randint(3, 6)
        for i in range(n):
            pkg = rng.choice(PKGS)
            kind = rng.choices(["exp", "cmd", "combine"], [5, 3, 1])[0]
            prev = [task_str(t["pkg"], t["name"]) for t in tasks]
            k = min(len(prev), rng.choice([0, 1, 1, 2, 3]))
            deps = rng.sample(prev, k)
            if kind == "combine" and not deps:
                kind = "cmd"
            tasks.append({"pkg": pkg, "name": "%s%d" % ({"exp": "e", "cmd": "c", "combine": "k"}[kind], i), "kind": kind, "deps": deps})
    for t in tasks:
        t["tree"] = gen_tree(rng, rich) if t["kind"] != "combine" else []
    ids = [task_str(t["pkg"], t["name"]) for t in tasks]
    hist = [["run", ids[-1]]]
    for _ in range(rng.randint(1, 3)):
        r = rng.random()
        if r < 0.6:
            hist.append(["run", rng.choice(ids), "--again"])
        elif r < 0.8:
            hist.append(["run", rng.choice(ids)])
        elif git:
            hist.append(["dirty"])
        else:
            hist.append(["run", ids[0], "--again"])
    exps = [task_str(t["pkg"], t["name"]) for t in tasks if t["kind"] == "exp"]
    if exps:
        hist.append(["run", rng.choice(exps), "--again"])
        if rng.random() < 0.5:
            hist.append(["run", rng.choice(exps), "--again"])
    if git and rng.random() < 0.7:
        hist.insert(rng.randrange(1, len(hist) + 1), ["dirty"])
        hist.append(["run", rng.choice(ids), "--again"])
    return {"tasks": tasks, "git": git, "history": hist}


def spec_graph(spec):
    """the dependency graph as the generator knows it: [(task, deps, archivable)]"""
    return [(task_str(t["pkg"], t["name"]), list(t["deps"]), t["kind"] == "exp") for t in spec["tasks"]]


def reachable(g, root):
    deps = {t: d for t, d, _ in g}
    seen, todo = set(), [root]
    while todo:
        v = todo.pop()
        if v in seen:
            continue
        seen.add(v)
        todo.extend(deps.get(v, []))
    return seen


def cond_files(spec):
    by_pkg = {}
    for t in spec["tasks"]:
        deps = "[%s]" % ", ".join(repr(d) for d in t["deps"])
        if t["kind"] == "exp":
            line = "run_experiment(name=%r, run=%r, deps=%s)" % (t["name"], tree_command(t["tree"]), deps)
        elif t["kind"] == "cmd":
            line = "run_command(name=%r, run=%r, deps=%s)" % (t["name"], tree_command(t["tree"]), deps)
        else:
            line = "combine(name=%r, deps=%s)" % (t["name"], deps)
        by_pkg.setdefault(t["pkg"], []).append(line)
    files = {}
    for pkg, lines in by_pkg.items():
        files[os.path.join(pkg, "COND")] = "\n".join(lines) + "\n"
    return files


def _git(root, *args):
    env = dict(os.environ, GIT_AUTHOR_NAME="v", GIT_AUTHOR_EMAIL="v@x", GIT_COMMITTER_NAME="v", GIT_COMMITTER_EMAIL="v@x", GIT_CONFIG_NOSYSTEM="1", HOME=root)
    subprocess.run(["git"] + list(args), cwd=root, env=env, check=True, stdout=subprocess.DEVNULL, stderr=subprocess.DEVNULL)


def build_project(spec):
    """create the project and replay its run history with the real `cond run`; returns root"""
    files = cond_files(spec)
    root = implrun.make_project(files, git=spec["git"])
    os.makedirs(os.path.join(root, "arch"))
    if spec["git"]:
        with open(os.path.join(root, ".gitignore"), "w") as f:
            f.write("cond-out\narch\n")
        _git(root, "init", "-q")
        _git(root, "add", "-A")
        _git(root, "commit", "-q", "-m", "c0")
    log = []
    for h in spec["history"]:
        if h[0] == "run":
            r = implrun.run_cond(h, root)
            log.append((h, r.code))
        elif h[0] == "dirty":
            with open(os.path.join(root, "cond_config.toml"), "a") as f:
                f.write("# touched\n")
    return root, log


# ------------------------------------------------------------------ observers
def version_dirs(root, ids):
    """{(task, ts): content id} for every version directory under cond-out (any nesting of
    packages; a version directory is not searched for further ones)"""
    out = {}
    base = os.path.join(root, OUT)

    def walk(d, rel):
        try:
            names = sorted(os.listdir(d))
        except OSError:
            return
        for nm in names:
            p = os.path.join(d, nm)
            if rel == "" and nm == STAGING and not STAGING_IS_A_LEGAL_NAME:
                continue
            m = VDIR.match(nm)
            if m and not os.path.islink(p):
                key = ("//%s:%s" % (rel, m.group(1)), int(m.group(2)))
                if os.path.isdir(p):
                    out[key] = ids.of(implrun.tree_snapshot(p))
                else:
                    out[key] = ids.of({"": ("not-a-dir",)})
            elif os.path.isdir(p) and not os.path.islink(p) and not nm.endswith(".task"):
                walk(p, nm if rel == "" else rel + "/" + nm)

    walk(base, "")
    return out


def version_snaps(root):
    """{relative path of a version directory: tree snapshot}"""
    out = {}
    base = os.path.join(root, OUT)
    for d, dirs, _files in os.walk(base):
        for nm in list(dirs):
            if VDIR.match(nm):
                p = os.path.join(d, nm)
                out[os.path.relpath(p, base)] = implrun.tree_snapshot(p) if not os.path.islink(p) else {"": "link"}
                dirs.remove(nm)
        if d == base and STAGING in dirs and not STAGING_IS_A_LEGAL_NAME:
            dirs.remove(STAGING)
    return out


def vdir_rel(task, ts):
    m = re.match(r"^//([^:]*):([^:/]+)$", task)
    if not m:
        return "unparsable-task-name/%d" % ts
    return os.path.normpath(os.path.join(m.group(1), "%s.task.%d" % (m.group(2), ts)))


def raw_rows(path):
    """rows of a version index file in rowid order (what get_all_versions iterates)"""
    conn = sqlite3.connect("file:%s?mode=ro" % path, uri=True)
    try:
        return [tuple(r) for r in conn.execute("SELECT task_identifier, timestamp, git_commit_hash, has_uncommitted_changes FROM version_index ORDER BY rowid")]
    finally:
        conn.close()


def project_rows(root):
    p = os.path.join(root, OUT, INDEX)
    return raw_rows(p) if os.path.exists(p) else []


def observe(root, ids):
    return {
        "rows": project_rows(root),
        "dirs": version_dirs(root, ids),
        "stage": os.path.isdir(os.path.join(root, OUT, STAGING)),
        "aidx": os.path.exists(os.path.join(root, OUT, AINDEX)),
    }


def tar_members(path):
    p = subprocess.run(["tar", "tzf", path], stdout=subprocess.PIPE, stderr=subprocess.DEVNULL, check=False)
    return [ln for ln in p.stdout.decode("utf-8", "surrogateescape").splitlines() if ln]


def top_members(members):
    """the version directories (and the index) an archive lists"""
    tops = set()
    for m in members:
        parts = m.rstrip("/").split("/")
        for i, seg in enumerate(parts):
            if VDIR.match(seg) or seg == AINDEX:
                tops.add("/".join(parts[: i + 1]))
                break
        else:
            tops.add(m)
    return tops


def extraction_view(archive_path, ids, stale=None):
    """what `tar xzf` leaves in a staging directory (a fresh one, or a copy of `stale`)"""
    if not os.path.isfile(archive_path):
        return {"file": False, "ok": False, "index": None, "dirs": {}, "load_fails": False}
    d = new_dir("xview")
    st = os.path.join(d, "s")
    if stale is not None:
        shutil.copytree(stale, st, symlinks=True)
    else:
        os.makedirs(st)
    p = subprocess.run(["tar", "xzf", archive_path, "-C", st], stdout=subprocess.DEVNULL, stderr=subprocess.DEVNULL, check=False)
    view = {"file": True, "ok": p.returncode == 0, "index": None, "dirs": {}, "load_fails": False}
    ip = os.path.join(st, AINDEX)
    if os.path.isfile(ip):
        try:
            conn = sqlite3.connect(ip)
            fmt = conn.execute("PRAGMA user_version").fetchone()[0]
            conn.close()
            if fmt != 2:
                raise sqlite3.DatabaseError("format %r" % fmt)
            view["index"] = raw_rows(ip)
        except sqlite3.Error:
            view["index"] = []
            view["load_fails"] = True
    if view["index"]:
        for r in view["index"]:
            p = os.path.join(st, vdir_rel(r[0], r[1]))
            if os.path.isdir(p):
                view["dirs"][(r[0], r[1])] = ids.of(implrun.tree_snapshot(p))
    shutil.rmtree(d, ignore_errors=True)
    return view


# ------------------------------------------------------------------ target projects
def clone_project(root, name="q"):
    d = os.path.join(new_dir(name), "p")
    shutil.copytree(root, d, symlinks=True)
    return d


def delete_versions(root, keys):
    """make a project lack the given versions: remove their rows and their directories"""
    p = os.path.join(root, OUT, INDEX)
    conn = sqlite3.connect(p)
    for t, ts in keys:
        conn.execute("DELETE FROM version_index WHERE task_identifier = ? AND timestamp = ?", (t, ts))
    conn.commit()
    conn.close()
    for t, ts in keys:
        shutil.rmtree(os.path.join(root, OUT, vdir_rel(t, ts)), ignore_errors=True)


# ------------------------------------------------------------------ archive mutation
def unpack(archive_path):
    d = os.path.join(new_dir("mut"), "x")
    os.makedirs(d)
    subprocess.run(["tar", "xzf", archive_path, "-C", d], check=True)
    return d


def repack(d, dest, rows=None):
    """tar czf like archive.create_archive: the index first, then one member per row"""
    members = []
    if os.path.exists(os.path.join(d, AINDEX)):
        members.append(AINDEX)
        if rows is None:
            rows = raw_rows(os.path.join(d, AINDEX))
    for r in rows or []:
        rel = vdir_rel(r[0], r[1])
        if os.path.lexists(os.path.join(d, rel)):
            members.append(rel)
    subprocess.run(["tar", "czf", dest, "-C", d] + members, check=True)


# ------------------------------------------------------------------ crash injector
TRACED = ("conductor/cli/restore.py", "conductor/execution/version_index.py")


def crash_pre(k, log_path=None, sig=None):
    """pre-hook for implrun.run_cond: count 'line' events in restore.py and version_index.py;
    os._exit(137) when the k-th one is about to execute (k=None: only log them); with sig: the process sends ITSELF that signal
    there instead (a graceful kill: SIGTERM / Ctrl-C) and goes on -- Conductor's own handler decides what happens"""

    def pre():
        import sys

        state = {"n": 0}
        fd = os.open(log_path, os.O_WRONLY | os.O_CREAT | os.O_APPEND) if log_path else None

        def local(frame, event, _arg):
            if event == "line":
                state["n"] += 1
                if fd is not None:
                    os.write(fd, ("%s:%d\n" % (os.path.basename(frame.f_code.co_filename), frame.f_lineno)).encode())
                if k is not None and state["n"] == k:
                    if sig is None:
                        os._exit(137)
                    os.kill(os.getpid(), sig)
            return local

        def glob(frame, _event, _arg):
            if frame.f_code.co_filename.endswith(TRACED):
                return local
            return None

        sys.settrace(glob)

    return pre


def copy_fault_pre(j, crash):
    """pre-hook: the j-th shutil.copytree call creates a partial destination and then raises
    (crash=False) or the process dies (crash=True)"""

    def pre():
        real = shutil.copytree
        state = {"n": 0, "inside": False}

        def fake(src, dst, *a, **kw):
            if state["inside"]:        # copytree recurses through the module attribute
                return real(src, dst, *a, **kw)
            if state["n"] == j:
                os.makedirs(dst)
                with open(os.path.join(dst, "partial"), "w") as f:
                    f.write("x")
                if crash:
                    os._exit(137)
                raise OSError("injected copytree failure")
            state["n"] += 1
            state["inside"] = True
            try:
                return real(src, dst, *a, **kw)
            finally:
                state["inside"] = False

        shutil.copytree = fake

    return pre


# ------------------------------------------------------------------ parallel jobs
def run_jobs(fn, jobs, workers=None):
    """run fn(job) for every job in forked worker processes; results in job order"""
    setup_impl_path()
    if not jobs:
        return []
    workers = min(workers or NCPU, len(jobs))
    if workers <= 1:
        return [fn(j) for j in jobs]
    ctx = multiprocessing.get_context("fork")
    with concurrent.futures.ProcessPoolExecutor(max_workers=workers, mp_context=ctx) as ex:
        return list(ex.map(fn, jobs))


def sub_rng(rng):
    return random.Random(rng.getrandbits(64))


# ------------------------------------------------------------------ D23: restore's staging directory vs. a package of that name
def staging_collision(chk, prop):
    """A project has a package whose directory name is a name restore may use for its staging directory
    (`archive-tmp`, the former value, and the current value when it is a legal package name).  That package has a
    recorded experiment version.  (a) restoring an archive of another task and (b) a restore that fails (the file is
    not an archive) must leave that version's row and directory exactly as they were."""
    names = ["archive-tmp"] + ([STAGING] if STAGING_IS_A_LEGAL_NAME and STAGING != "archive-tmp" else [])
    for pk in names:
        files = {"COND": 'run_experiment(name="f", run="echo f > $COND_OUT/r.txt")\n',
                 os.path.join(pk, "COND"): 'run_experiment(name="e", run="echo kept > $COND_OUT/r.txt; mkdir $COND_OUT/d; echo x > $COND_OUT/d/y")\n'}
        a = implrun.make_project(files, name="stg-a")
        b = implrun.make_project(files, name="stg-b")
        apath = os.path.join(os.path.dirname(a), "f.tar.gz")
        r1 = implrun.run_cond(["run", "//:f"], a)
        r2 = implrun.run_cond(["archive", "//:f", "-o", apath], a)
        r3 = implrun.run_cond(["run", "//%s:e" % pk], b)
        if r1.code != 0 or r2.code != 0 or r3.code != 0 or not os.path.isfile(apath):
            chk.violation("impl-violation", "staging-collision scenario: the set-up commands failed: %r %r %r" % (r1, r2, r3),
                          {"input": {"part": "staging-collision", "package": pk}, "impl_observation": repr((r1, r2, r3))}, match_key={"part": "staging-collision-setup"}, size=1)
            continue
        garbage = os.path.join(os.path.dirname(a), "garbage.tar.gz")
        with open(garbage, "wb") as fh:
            fh.write(b"this is not an archive")
        for label, arch, must_succeed in (("a restore that fails (the file is not an archive)", garbage, False), ("a successful restore of an archive of //:f", apath, True)):
            rows_b = project_rows(b)
            snaps_b = version_snaps(b)
            rr = implrun.run_cond(["restore", arch], b)
            rows_a = project_rows(b)
            snaps_a = version_snaps(b)
            chk.coverage["evaluations"] += 1
            chk.count("staging-collision", "%s/%s" % (pk, "ok" if rr.code == 0 else "failed"))
            problems = []
            if must_succeed and rr.code != 0:
                problems.append("the restore failed: %s" % (rr.err or rr.out)[-200:])
            for rel, snap in snaps_b.items():
                if snaps_a.get(rel) != snap:
                    problems.append("the directory %s of the recorded version %r %s" % (rel, [r[:2] for r in rows_b if vdir_rel(r[0], r[1]) == rel],
                                                                                        "is gone" if rel not in snaps_a else "was modified"))
            if not set(rows_b) <= set(rows_a):
                problems.append("recorded versions disappeared: %r" % sorted(set(rows_b) - set(rows_a)))
            if rr.code != 0 and rows_a != rows_b:
                problems.append("a failed restore changed the recorded versions: %r -> %r" % (rows_b, rows_a))
            for what in problems:
                chk.violation("impl-violation", "package //%s (its outputs live in cond-out/%s), %s: %s" % (pk, pk, label, what),
                              {"input": {"part": "staging-collision", "package": pk, "files": files, "commands": [["run", "//%s:e" % pk], ["restore", os.path.basename(arch)]]},
                               "impl_observation": {"exit": rr.code, "rows_before": rows_b, "rows_after": rows_a, "dirs_before": sorted(snaps_b), "dirs_after": sorted(snaps_a)},
                               "oracle_verdict": what}, match_key={"part": "staging-collision", "package": pk}, size=0)


def equal_timestamps_across_tasks(chk, prop):
    """A version is identified by (task, timestamp): two DIFFERENT tasks may carry the same timestamp (concurrent
    `cond run` invocations; a version restored from another checkout whose number coincides with a local one) and are
    two versions.  State: three tasks of two packages with recorded versions, two of the timestamps shared between tasks
    (rows and directories as Conductor writes them), plus one unrecorded output.  Then:
      cond gc            removes the unrecorded output and NO recorded version's directory;
      cond archive       lists every recorded version's directory (one tar member per row) and its index has every row;
      cond restore       into an empty checkout records every version, each with its directory.
    (Seeds C08/k and C11/l: get_all_versions() collected the rows in a dict keyed by the timestamp alone.)"""
    files = {"COND": 'run_experiment(name="a", run="echo a > $COND_OUT/r")\nrun_experiment(name="b", run="echo b > $COND_OUT/r")\n',
             "p/COND": 'run_experiment(name="a", run="echo pa > $COND_OUT/r")\n'}
    rows = [("//:a", 1700000000), ("//:b", 1700000000), ("//p:a", 1700000000), ("//:a", 1700000001), ("//p:a", 1700000002), ("//:b", 1700000002)]

    def build(name, with_rows):
        root = implrun.make_project(files, name=name)
        os.makedirs(os.path.join(root, OUT, "p"), exist_ok=True)
        conn = sqlite3.connect(os.path.join(root, OUT, INDEX))
        conn.execute("CREATE TABLE version_index (task_identifier TEXT NOT NULL, timestamp INTEGER NOT NULL, git_commit_hash TEXT, has_uncommitted_changes INTEGER NOT NULL, PRIMARY KEY (task_identifier, timestamp))")
        conn.execute("PRAGMA user_version = 2")
        if with_rows:
            conn.executemany("INSERT INTO version_index VALUES (?, ?, NULL, 0)", rows)
        conn.commit()
        conn.close()
        if with_rows:
            for t, ts in rows:
                d = os.path.join(root, OUT, vdir_rel(t, ts))
                os.makedirs(d)
                with open(os.path.join(d, "r"), "w") as fh:
                    fh.write("%s %d\n" % (t, ts))
        return root

    src = build("eqts-src", True)
    failed = os.path.join(src, OUT, "b.task.1700000001")       # an output no row records
    os.makedirs(failed)
    problems = []
    before = version_snaps(src)
    g = implrun.run_cond(["gc"], src)
    after = version_snaps(src)
    chk.coverage["evaluations"] += 1
    chk.count("equal-timestamps", "gc")
    for t, ts in rows:
        rel = vdir_rel(t, ts)
        if after.get(rel) != before.get(rel):
            problems.append("`cond gc` %s the directory of the recorded version %s@%d" % ("removed" if rel not in after else "changed", t, ts))
    if g.code != 0 or os.path.isdir(failed):
        problems.append("`cond gc` exited %s and %s the unrecorded output b.task.1700000001" % (g.code, "kept" if os.path.isdir(failed) else "removed"))
    apath = os.path.join(os.path.dirname(src), "all.tar.gz")
    a = implrun.run_cond(["archive", "-o", apath], src)
    chk.coverage["evaluations"] += 1
    chk.count("equal-timestamps", "archive")
    if a.code != 0 or not os.path.isfile(apath):
        problems.append("`cond archive` failed: exit %s %s" % (a.code, implrun.strip_ansi(a.err)[-200:]))
    else:
        want_members = {vdir_rel(t, ts) for t, ts in rows}
        d = unpack(apath)
        present = {rel for rel in want_members if os.path.isdir(os.path.join(d, rel))}
        arows = sorted((r[0], r[1]) for r in raw_rows(os.path.join(d, AINDEX)))
        if arows != sorted(rows):
            problems.append("the archive's index holds %r, the recorded versions are %r" % (arows, sorted(rows)))
        if present != want_members:
            problems.append("the archive lacks the directories of recorded versions: %r" % sorted(want_members - present))
        dst = build("eqts-dst", False)
        r = implrun.run_cond(["restore", apath], dst)
        chk.coverage["evaluations"] += 1
        chk.count("equal-timestamps", "restore")
        got = sorted((x[0], x[1]) for x in project_rows(dst))
        nodir = [k for k in got if not os.path.isdir(os.path.join(dst, OUT, vdir_rel(*k)))]
        if r.code == 0 and (got != sorted(rows) or nodir):
            problems.append("`cond restore` reported success: recorded %r; recorded versions without a directory: %r" % (got, nodir))
        elif r.code != 0 and got:
            problems.append("`cond restore` failed (exit %s) and left recorded versions %r" % (r.code, got))
        elif r.code != 0 and present == want_members and arows == sorted(rows):
            problems.append("`cond restore` of a complete archive failed: %s" % implrun.strip_ansi(r.err)[-200:])
    for msg in problems[:3]:
        chk.violation("impl-violation", "versions of different tasks with the same timestamp: %s" % msg,
                      {"input": {"part": "equal-timestamps", "rows": rows, "files": files}, "oracle_verdict": msg}, match_key={"part": "equal-timestamps"}, size=4)
    if not problems:
        chk.coverage["traces_validated_against_impl"] = chk.coverage.get("traces_validated_against_impl", 0) + 3
