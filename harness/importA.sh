#!/bin/bash
# importA.sh Cxx: copy the round-10 seed o of a property from /tmp/wtA-Cxx into seeded/ and print the eval list line
p=$1
for v in o; do s=/tmp/wtA-$p/seeded/$v; [ -f $s/patch.diff ] || continue; mkdir -p /verif/seeded/$p/$v; cp $s/patch.diff $s/demo.py $s/README.md /verif/seeded/$p/$v/; (cd /repo && git apply --check /verif/seeded/$p/$v/patch.diff) || echo "PATCH DOES NOT APPLY $p/$v" >&2; echo "rA-$p-$v seed seeded/$p/$v $p"; done
