#!/bin/bash
# with_seed.sh <seed-dir> <command...>: run <command> with VERIF_REPO pointing at a scratch copy of /repo with the seed's patch applied
d=$1; shift
c=/dev/shm/ws-$$; rm -rf $c; mkdir -p $c
rsync -a --exclude .git --exclude __pycache__ --exclude node_modules /repo/ $c/
( cd $c && patch -s -p1 -i /verif/$d/patch.diff ) || { echo "patch failed"; rm -rf $c; exit 2; }
VERIF_REPO=$c "$@"; rc=$?
rm -rf $c; exit $rc
