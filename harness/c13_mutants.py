#!/venv/bin/python
"""Self-validation of ./check C13: every mutant of cli/gc.py below must turn the check red
(except those marked harmless, which must stay green).  Usage: harness/c13_mutants.py [names...]
Works on scratch copies of /repo/src under /dev/shm; nothing under /repo is touched."""
import os
import shutil
import subprocess
import sys
import tempfile

VERIF = os.path.dirname(os.path.dirname(os.path.abspath(__file__)))

# name -> (expected colour, [(old, new), ...]) applied to src/conductor/cli/gc.py
MUTANTS = {
    "revert-8034f91-dollar-anchors": ("red", [(r"[1-9][0-9]*)\Z", r"[1-9][0-9]*)$"), (r"\.task\Z", r"\.task$")]),
    "descend-into-regular-task-dirs": ("red", [("if _REGULAR_TASK_REGEX.match(inner.name) is None:", "if True:")]),
    "identifier-ignores-path": ("red", [("task_path = inner.parent.relative_to(output_path)", "task_path = pathlib.Path()")]),
    "dry-run-deletes": ("red", [('print("Would delete", os.path.relpath(exp_path, cwd))', 'print("Would delete", os.path.relpath(exp_path, cwd)); shutil.rmtree(exp_path, ignore_errors=True)')]),
    "files-not-skipped": ("red", [("if not inner.is_dir():", "if False:")]),
    "leading-zero-timestamps": ("red", [("(?P<timestamp>[1-9][0-9]*)", "(?P<timestamp>[0-9]+)")]),
    "membership-by-timestamp-only": ("red", [("if (task_identifier, timestamp) not in all_versions:", "if timestamp not in {t for _i, t in all_versions}:")]),
    "descend-into-recorded-versions": ("red", [("                to_delete.append(inner)\n", "                to_delete.append(inner)\n            else:\n                stack.append(inner)\n")]),
    "verbose-prints-nothing": ("red", [('print("Deleting", os.path.relpath(exp_path, cwd))', "pass")]),
    "harmless-breadth-first": ("green", [("curr_path = stack.pop()", "curr_path = stack.pop(0)")]),
}


def main():
    names = sys.argv[1:] or list(MUTANTS)
    results = []
    for name in names:
        colour, edits = MUTANTS[name]
        d = tempfile.mkdtemp(prefix="mut-c13-", dir="/dev/shm")
        try:
            shutil.copytree("/repo/src", os.path.join(d, "src"), symlinks=True)
            p = os.path.join(d, "src", "conductor", "cli", "gc.py")
            text = open(p, encoding="utf-8").read()
            for old, new in edits:
                if old not in text:
                    raise SystemExit("mutant %s: pattern %r not found in gc.py" % (name, old))
                text = text.replace(old, new)
            with open(p, "w", encoding="utf-8") as f:
                f.write(text)
            env = dict(os.environ, VERIF_REPO=d)
            r = subprocess.run([os.path.join(VERIF, "check"), "C13", "--tier", "quick"], env=env, stdout=subprocess.PIPE, stderr=subprocess.STDOUT, check=False)
            out = r.stdout.decode("utf-8", "replace")
            got = "green" if r.returncode == 0 else "red"
            first = next((ln for ln in out.splitlines() if ln.startswith("  ! ")), "")
            results.append((name, colour, got, first[:200]))
            print("%-36s expected %-5s got %-5s %s" % (name, colour, got, first[:160]), flush=True)
        finally:
            shutil.rmtree(d, ignore_errors=True)
    bad = [r for r in results if r[1] != r[2]]
    print("%d mutants, %d as expected" % (len(results), len(results) - len(bad)))
    return 1 if bad else 0


if __name__ == "__main__":
    sys.exit(main())
