"""C13 -- `cond gc` removes exactly the unrecorded experiment outputs.

proofs : coq/Props/C13.v (C13_regex, C13_ts_inj, C13_exact, C13_dry_run, C13_keeps_recorded,
         C13_keeps_others, C13_bad_index) over the two patterns regenerated from cli/gc.py.
tie    : (a) Gen/Generated.v (the patterns, exact, regenerated on every run);
         (b) the real `cond gc -n` and `cond gc [-v]` (implrun.run_cond) on generated cond-out trees
             with generated index rows; stdout and the surviving tree are compared with
             Model/Gc.v:gc_main evaluated inside Coq on the tree in the directory order the
             kernel reports (packed channel);
         (c) histories made by real `cond run` invocations (failed / successful / repeated).
oracle : the property stated independently (c13_util.expected_targets: a declarative predicate
         over all directory paths, own parser for directory names), applied to what the
         implementation printed and to the before/after snapshots of the whole project.
"""
import os
import shutil

from common import Check, new_dir, ser_str, ser_list, pack, run_packed_cases
import implrun
import c13_util as U

IMPORTS = "From Conductor Require Import Lib.Str Lib.Cmp Model.Ident Model.Gc."
DEFS = """Fixpoint ser_node (x : node) : list N :=
  match x with
  | File n => 0 :: ser_str n
  | Dir n cs => 1 :: ser_str n ++ (N.of_nat (length cs) :: flat_map ser_node cs)
  end.
(* the printed lines are compared as a multiset: the order of the walk is not part of the property *)
Fixpoint str_leb (a b : list N) : bool :=
  match a, b with
  | [], _ => true
  | _ :: _, [] => false
  | x :: a', y :: b' => if x <? y then true else if y <? x then false else str_leb a' b'
  end.
Fixpoint insert_sorted (x : list N) (l : list (list N)) : list (list N) :=
  match l with
  | [] => [x]
  | y :: r => if str_leb x y then x :: l else y :: insert_sorted x r
  end.
Definition sort_lines (l : list (list N)) : list (list N) := fold_right insert_sorted [] l.
Definition ser_result (r : result) : N :=
  pack (match r with
        | Done s => 0 :: ser_list ser_str (sort_lines (out s))
                      ++ (N.of_nat (length (tree s)) :: flat_map ser_node (tree s))
        | NotADirectory _ => [1]
        | BadIndex => [2]
        | OutOfFuel => [3]
        end).
"""


def ser_node(n):
    if n[0] == "f":
        return [0] + ser_str(n[1])
    return [1] + ser_str(n[1]) + ser_list(ser_node, n[2])


def pack_obs(kind, stdout, prefix, tree, model_prefix=None):
    """what the implementation did, in the form the model's result is serialised (the model prints with the wording of
    the pinned tree, `model_prefix`; the paths are what is compared)"""
    if kind != 0:
        return pack([kind])
    chunks = U.split_lines(stdout, prefix)
    if chunks is None:
        return pack([9])
    return pack([0] + ser_list(ser_str, sorted((model_prefix or prefix) + c for c in chunks)) + ser_list(ser_node, tree))


_WORDING = {}


def wording(flag):
    """The text `cond gc` puts before a path ("Would delete " with -n, "Deleting " with -v), learnt from the code under
    test on a reference project with a single unrecorded output; the pinned tree's wording when that output has another shape."""
    default = {"-n": "Would delete ", "-v": "Deleting "}[flag]
    if flag not in _WORDING:
        val = default
        try:
            root = implrun.make_project({"COND": ""})
            implrun.run_cond(["gc"], root)
            os.makedirs(os.path.join(root, "cond-out", "zq.task.7"))
            r = implrun.run_cond(["gc", flag], root)
            tail = "cond-out/zq.task.7\n"
            if r.code == 0 and r.out.endswith(tail) and r.out.count("\n") == 1 and len(r.out) > len(tail):
                val = r.out[: -len(tail)]
            shutil.rmtree(os.path.dirname(root), ignore_errors=True)
        except Exception:  # pylint: disable=broad-except
            val = default
        _WORDING[flag] = val
    return _WORDING[flag]


class Runner:
    """builds projects, runs the three invocations, applies the oracle, queues the model comparison"""

    def __init__(self, chk):
        self.chk = chk
        self.template_index = None
        self.queue = []  # (coq expr, expected packed, case description)
        self.seen = set()
        self.nontrivial = set()
        self.n_cases = 0

    # ------------------------------------------------------------------ project construction
    def template(self):
        if self.template_index is None:
            root = implrun.make_project({"COND": ""})
            r = implrun.run_cond(["gc"], root)
            p = os.path.join(root, "cond-out", "version_index.sqlite")
            if r.code != 0 or not os.path.exists(p):
                # gc itself fails on an empty cond-out: report it, and make the index with the library instead
                self.chk.violation(
                    "impl-violation",
                    "`cond gc` on a fresh project (cond-out holding only the index) exits %s: %s" % (r.code, r.err[-300:]),
                    {"input": {"tree": [], "rows": [], "verbose": False, "origin": "template"}, "impl_observation": [r.code, r.out, r.err[-2000:]]},
                    match_key={"dirname": None},
                )
                import pathlib  # pylint: disable=import-outside-toplevel
                from conductor.execution.version_index import VersionIndex  # pylint: disable=import-outside-toplevel

                if os.path.exists(p):
                    os.remove(p)
                VersionIndex.create_or_load(pathlib.Path(p))
            with open(p, "rb") as f:
                self.template_index = f.read()
            shutil.rmtree(os.path.dirname(root), ignore_errors=True)
        return self.template_index

    def build(self, tree, rows):
        """a project whose cond-out holds `tree` and whose index (created by a real `cond`) holds `rows`"""
        top = new_dir("c13")
        root = os.path.join(top, "p")
        os.makedirs(os.path.join(root, "cond-out"))
        with open(os.path.join(root, "cond_config.toml"), "w") as f:
            f.write("disable_git = true\n")
        with open(os.path.join(root, "COND"), "w") as f:
            f.write("")
        # things outside cond-out that look like collectable outputs
        os.makedirs(os.path.join(root, "src", "x.task.5"))
        with open(os.path.join(root, "src", "x.task.5", "data"), "w") as f:
            f.write("keep")
        os.makedirs(os.path.join(top, "sibling", "cond-out", "x.task.5"))
        with open(os.path.join(root, "cond-out", "version_index.sqlite"), "wb") as f:
            f.write(self.template())
        U.insert_rows(os.path.join(root, "cond-out", "version_index.sqlite"), rows)
        # (a replayed tree lists the index file itself: it is already there)
        U.materialise(os.path.join(root, "cond-out"), [n for n in tree if not (n[0] == "f" and n[1] == "version_index.sqlite")])
        return top, root

    # ------------------------------------------------------------------ one case
    def check_project(self, top, root, label, verbose, origin):
        """top: scratch directory holding the project `root` and a sibling; the case is whatever is
        on disk now.  Runs gc -n then gc [-v]; oracle; queues the model comparison."""
        chk = self.chk
        co = os.path.join(root, "cond-out")
        tree = U.read_tree(co)
        rows = [(r[0], r[1]) for r in implrun.index_rows(root)]
        case = {"tree": U.tree_to_json(tree), "rows": [[a, b] for a, b in rows], "verbose": verbose, "origin": origin}
        key = repr((case["tree"], case["rows"], verbose))
        self.n_cases += 1
        chk.coverage["evaluations"] += 2
        expect = U.expected_targets(tree, rows)
        bad_rows = [r for r in rows if U.canon_ident(r[0]) is None]

        snap0 = implrun.tree_snapshot(top)
        r_dry = implrun.run_cond(["gc", "-n"] + (["-v"] if verbose else []), root)
        snap1 = implrun.tree_snapshot(top)
        r_real = implrun.run_cond(["gc"] + (["-v"] if verbose else []), root)
        snap2 = implrun.tree_snapshot(top)
        after = U.filter_existing(co, tree)

        def bad(what, dirname=None, **extra):
            chk.violation(
                "impl-violation",
                "%s [%s]" % (what, label),
                dict({"input": case, "oracle_verdict": what,
                      "impl_observation": {"dry": [r_dry.code, r_dry.out, r_dry.err[-400:]], "real": [r_real.code, r_real.out, r_real.err[-400:]]}}, **extra),
                match_key={"dirname": dirname},
                size=U.tree_size(tree),
            )

        ok = True
        if bad_rows:
            # an index row that is not an identifier: gc must stop before touching anything
            if r_dry.code == 0 or r_real.code == 0 or snap1 != snap0 or snap2 != snap0:
                ok = False
                bad("index row %r is not a task identifier but gc went ahead (exit %s/%s) or changed the tree" % (bad_rows[0][0], r_dry.code, r_real.code))
            kind_dry = kind_real = 2 if (r_dry.code != 0 and "ERROR" in r_dry.err and "Traceback" not in r_dry.err) else 9
            if r_real.code == 0 or "Traceback" in r_real.err:
                kind_real = 9
        else:
            kind_dry = 0 if r_dry.code == 0 else 9
            kind_real = 0 if r_real.code == 0 else 9
            exp_paths = sorted("cond-out/" + "/".join(q) for q in expect)
            # --- dry run: nothing changes, prints exactly the targets
            if r_dry.code != 0:
                ok = False
                bad("gc -n exited with %s: %s" % (r_dry.code, r_dry.err[-300:]))
            if snap1 != snap0:
                ok = False
                diff = U.snap_diff(snap0, snap1)
                bad("gc -n changed the file system: %s" % (diff[:5],), dirname=U.last_name(diff))
            got = U.split_lines(r_dry.out, wording("-n"))
            if got is None or sorted(got) != exp_paths:
                ok = False
                d = U.first_diff(exp_paths, got or [])
                bad("gc -n printed %r but the unrecorded experiment outputs are %r" % (sorted(got or [r_dry.out])[:6], exp_paths[:6]), dirname=os.path.basename(d) if d else None)
            # --- real run: exactly the targets (with everything below them) disappear
            if r_real.code != 0:
                ok = False
                bad("gc exited with %s: %s" % (r_real.code, r_real.err[-300:]))
            want_snap = U.snap_without(snap0, [os.path.join("p", "cond-out", *q) for q in expect])
            if snap2 != want_snap:
                ok = False
                diff = U.snap_diff(want_snap, snap2)
                bad("after gc the tree differs from (before minus unrecorded experiment outputs) at %s" % (diff[:5],), dirname=U.last_name(diff))
            if verbose:
                got_v = U.split_lines(r_real.out, wording("-v"))
                if got_v is None or sorted(got_v) != exp_paths:
                    ok = False
                    bad("gc -v printed %r but deleted %r" % (sorted(got_v or [r_real.out])[:6], exp_paths[:6]))
            elif r_real.out != "":
                ok = False
                bad("gc without -v printed %r" % (r_real.out[:200],))
        # --- model comparison (queued; evaluated in one Coq run per shard)
        tree_c = U.ctree(tree)
        rows_c = U.crows(rows)
        self.queue.append(("ser_result (gc_main true %s %s %s)" % (U.cb(verbose), rows_c, tree_c), pack_obs(kind_dry, r_dry.out, wording("-n"), tree, "Would delete "), case, "dry", ok))
        self.queue.append(("ser_result (gc_main false %s %s %s)" % (U.cb(verbose), rows_c, tree_c), pack_obs(kind_real, r_real.out, wording("-v"), after, "Deleting "), case, "real", ok))
        # --- coverage bookkeeping
        if key not in self.seen:
            self.seen.add(key)
            kept = U.kept_version_dirs(tree, rows)
            if expect and kept:
                self.nontrivial.add(key)
            chk.count("targets", str(min(len(expect), 6)) + ("+" if len(expect) >= 6 else ""))
            chk.count("depth", str(U.tree_depth(tree)))
            chk.count("origin", origin)
            if expect and kept and U.tree_size(tree) <= 14:
                chk.sample({"tree": case["tree"], "rows": case["rows"], "targets": ["/".join(q) for q in expect]})
        return ok

    def run_case(self, tree, rows, label, verbose, origin):
        top, root = self.build(tree, rows)
        try:
            return self.check_project(top, root, label, verbose, origin)
        finally:
            shutil.rmtree(top, ignore_errors=True)

    # ------------------------------------------------------------------ model
    def compare_with_model(self):
        chk = self.chk
        if not chk.coq.model_ok:
            chk.violation("correspondence", "model does not build: " + chk.coq.log[-400:], {"theorem_or_tie": "build of Model/Gc.vo", "log": chk.coq.log[-3000:]}, found_input=False)
            return
        shard = 250
        exprs, wants, metas = [], [], []
        for i in range(0, len(self.queue), shard):
            part = self.queue[i:i + shard]
            exprs.append("[" + ";\n ".join(e for e, _w, _c, _m, _ok in part) + "]")
            wants.append([w for _e, w, _c, _m, _ok in part])
            metas.append(part)
        results = run_packed_cases(IMPORTS, DEFS, exprs, wants)
        agree = 0
        for part, (ok, badidx, raw) in zip(metas, results):
            if not ok:
                chk.violation("correspondence", "model evaluation failed: %s" % raw[-300:], {"theorem_or_tie": "correspondence Model/Gc.v", "coq_output": raw}, found_input=False)
                continue
            for i in badidx[:3]:
                _e, _w, case, mode, oracle_ok = part[i]
                chk.violation(
                    "correspondence",
                    "Model/Gc.v and cli/gc.py disagree on the %s run of a case (%s)" % (mode, "the oracle failed on it too" if not oracle_ok else "the oracle accepted the implementation's behaviour"),
                    {"theorem_or_tie": "correspondence Model/Gc.v vs conductor/cli/gc.py", "input": case, "mode": mode},
                    found_input=False,
                    size=U.tree_size(U.tree_from_json(case["tree"])),
                )
            agree += len(part) - len(badidx)
        chk.coverage["traces_validated_against_impl"] = agree
        chk.coverage["disagreements_checked"] = len(self.queue)


def symlink_probe():
    """does gc walk through a symbolic link placed in cond-out and delete below its target?  The trees of
    the Coq model contain no symbolic links, so this is checked on the implementation only; deleting
    something that lies outside cond-out is a violation of C13 (defect D19, fixed by commit 059a88b)."""
    root = implrun.make_project({"COND": ""})
    top = os.path.dirname(root)
    implrun.run_cond(["gc"], root)
    target = os.path.join(top, "elsewhere", "results", "x.task.5")
    os.makedirs(target)
    os.symlink(os.path.join(top, "elsewhere"), os.path.join(root, "cond-out", "shared"))
    r = implrun.run_cond(["gc", "-v"], root)
    gone = not os.path.exists(target)
    shutil.rmtree(top, ignore_errors=True)
    return {
        "scope": "symbolic links to directories outside task directories are outside the modelled trees",
        "observed": "followed: a directory outside cond-out was deleted through cond-out/shared" if gone else "not followed",
        "stdout": r.out[:200],
        "see": "proposed_fixes/gc-symlink.note",
    }


def unusual_invocations(chk):
    """(a) the project's cond-out is a symbolic link to a directory elsewhere (outputs kept on another disk): gc must still
    delete the unrecorded output and dry-run must list it; (b) `cond gc -v` is invoked from INSIDE an unrecorded output
    directory (the user went there to read stderr.log): every unrecorded directory -- the current one included -- must be
    gone afterwards, and the command must not die half way."""
    import subprocess
    from common import PY, SRC

    cond = ('run_experiment(name="smoke", run="echo s; exit 1")\n'
            'run_experiment(name="keep", run="echo kept > $COND_OUT/r")\n')
    sub = 'run_experiment(name="bad", run="exit 1")\n'
    env = dict(os.environ, PYTHONPATH=SRC)
    for variant in ("cond-out is a symlink", "gc -v from inside an unrecorded output"):
        root = implrun.make_project({"COND": cond, "exp/COND": sub, "exp/deep/COND": sub})
        if variant.startswith("cond-out is"):
            real = os.path.join(os.path.dirname(root), "elsewhere-disk")
            os.makedirs(real)
            os.symlink(real, os.path.join(root, "cond-out"))
        rcs = [implrun.run_cond(["run", t], root).code for t in ("//:smoke", "//:keep", "//exp:bad", "//exp/deep:bad")]
        co = os.path.realpath(os.path.join(root, "cond-out"))

        def unrecorded():
            out = []
            for dp, dns, _f in os.walk(co):
                for d in list(dns):
                    if ".task." in d:
                        dns.remove(d)
                        if not d.startswith("keep.task."):
                            out.append(os.path.relpath(os.path.join(dp, d), co))
            return sorted(out)

        before = unrecorded()
        cwd = root
        if variant.startswith("gc -v from"):
            cwd = os.path.join(co, [d for d in before if d.startswith("smoke.task.")][0])
        dry = subprocess.run([PY, "-m", "conductor", "gc", "-n"], cwd=root, env=env, capture_output=True, text=True)
        real_gc = subprocess.run([PY, "-m", "conductor", "gc", "-v"], cwd=cwd, env=env, capture_output=True, text=True)
        chk.coverage["evaluations"] += 2
        chk.count("unusual gc invocation", variant)
        left = unrecorded()
        kept = [d for d in os.listdir(co) if d.startswith("keep.task.")]
        problems = []
        if [c != 0 for c in rcs] != [True, False, True, True] or any(c < 0 for c in rcs) or len(before) != 3 or len(kept) != 1:
            problems.append("harness: set-up failed (%r, %r, %r)" % (rcs, before, kept))
        else:
            missing = [d for d in before if os.path.basename(d) not in dry.stdout]
            if missing:
                problems.append("gc --dry-run does not list %r: %r" % (missing, dry.stdout[-200:]))
            if left:
                problems.append("after `cond gc -v` (exit %d) unrecorded output directories are still there: %r; output %r" % (real_gc.returncode, left, (real_gc.stdout + real_gc.stderr)[-200:]))
            if real_gc.returncode != 0:
                problems.append("`cond gc -v` exited %d: %r" % (real_gc.returncode, real_gc.stderr[-200:]))
            if not os.path.isfile(os.path.join(co, kept[0], "r")):
                problems.append("the recorded version %s was damaged" % kept[0])
        for msg in problems:
            chk.violation("impl-violation", "%s: %s" % (variant, msg),
                          {"input": {"part": "unusual-invocations", "variant": variant}, "impl_observation": {"gc_exit": real_gc.returncode, "gc_stdout": real_gc.stdout[-300:], "gc_stderr": real_gc.stderr[-300:], "left": left},
                           "oracle_verdict": msg}, match_key={"tree": "unusual-invocation"}, size=1)
        if not problems:
            chk.coverage["traces_validated_against_impl"] += 2


def recorded_versions_are_not_explored(chk):
    """gc's walk stops at a recorded version: whatever a successful experiment wrote INSIDE its output directory is its
    recorded output -- also a sub-directory that happens to be named like an experiment output (`cp -r "$COND_DEPS"
    "$COND_OUT"/` copies `base.task.<ts>`; a nested Conductor project; an unpacked archive).  After `cond gc` every
    recorded version's tree is byte-for-byte what it was, and the failed experiment's output is gone.  (Seed C06/l: the
    walk descended into recorded versions and removed the look-alike directories inside them.)"""
    files = {"COND": 'run_experiment(name="base", run="echo b > $COND_OUT/data; mkdir $COND_OUT/sub; echo s > $COND_OUT/sub/x")\n'
                     'run_experiment(name="report", run="cp -r $COND_DEPS $COND_OUT/; mkdir -p $COND_OUT/nested/fake.task.123; echo n > $COND_OUT/nested/fake.task.123/f", deps=[":base"])\n'
                     'run_experiment(name="flaky", run="echo partial > $COND_OUT/p; exit 3")\n'
                     'group(name="all", deps=[":report", ":flaky"])\n'}
    root = implrun.make_project(files)
    r = implrun.run_cond(["run", "//:all"], root)
    out = os.path.join(root, "cond-out")
    rows = implrun.index_rows(root)
    recorded = {"%s.task.%d" % (t[3:], ts) for t, ts, _c, _d in rows}
    present = {d for d in os.listdir(out) if ".task." in d}
    if r.code == 0 or len(rows) != 2 or len(present) != 3:
        chk.violation("correspondence", "harness: recorded_versions_are_not_explored: unexpected set-up: exit %s rows %r dirs %r" % (r.code, rows, sorted(present)), {"theorem_or_tie": "scenario set-up"}, found_input=False)
        return
    before = {d: implrun.tree_snapshot(os.path.join(out, d)) for d in recorded}
    inner = [k for d in recorded for k in before[d] if ".task." in os.path.basename(k)]
    g = implrun.run_cond(["gc", "-v"], root)
    after = {d: (implrun.tree_snapshot(os.path.join(out, d)) if os.path.isdir(os.path.join(out, d)) else None) for d in recorded}
    chk.coverage["evaluations"] += 1
    chk.count("gc-scope", "recorded version holding %d look-alike directories" % len(inner))
    problems = []
    for d in sorted(recorded):
        if after[d] != before[d]:
            gone = sorted(set(before[d]) - set(after[d] or {}))
            problems.append("the recorded version %s was changed by `cond gc`: %d entries are gone (first: %r)" % (d, len(gone), gone[:2]))
    left = sorted(d for d in os.listdir(out) if ".task." in d and d not in recorded)
    if g.code != 0 or left:
        problems.append("`cond gc -v` exited %s and left the unrecorded outputs %r" % (g.code, left))
    if not inner:
        problems.append("harness: the recorded version holds no look-alike directory")
    for msg in problems[:2]:
        chk.violation("impl-violation", "gc and directories named like experiment outputs INSIDE a recorded version: %s" % msg,
                      {"input": {"part": "gc-scope", "files": files, "commands": [["run", "//:all"], ["gc", "-v"]]}, "impl_observation": {"gc_output": implrun.strip_ansi(g.out)[-400:]}, "oracle_verdict": msg},
                      match_key={"part": "gc-scope"}, size=3)
    if not problems:
        chk.coverage["traces_validated_against_impl"] = chk.coverage.get("traces_validated_against_impl", 0) + 1


def read_only_outputs(chk):
    """A failed experiment left output that is not writable any more (a package cache it made read-only, a directory
    it chmod'ed to 000).  `cond gc` runs WITHOUT the capabilities that let root ignore permissions (the harness runs
    as root; an ordinary user never has them): the unrecorded output directory must be gone afterwards -- all of it --
    and `--dry-run` must have listed it (D30: rmtree(..., ignore_errors=True) left it half deleted, reported
    "Deleting ..." and exited 0)."""
    import subprocess
    from common import PY, SRC

    setpriv = shutil.which("setpriv")
    if setpriv is None or os.geteuid() != 0:
        pre = []
        if os.geteuid() == 0:
            chk.coverage["read_only_outputs"] = "skipped: setpriv not found (as root, permissions are not enforced)"
            return
    else:
        drop = "-dac_override,-dac_read_search,-fowner"
        pre = [setpriv, "--bounding-set=" + drop, "--inh-caps=" + drop]
    for variant, script in (("read-only cache", "mkdir -p $COND_OUT/cache/pkg; echo x > $COND_OUT/cache/pkg/f; chmod -R a-w $COND_OUT/cache; exit 1"),
                            ("unreadable directory", "mkdir -p $COND_OUT/locked/in; echo y > $COND_OUT/locked/in/g; chmod 000 $COND_OUT/locked/in; chmod 000 $COND_OUT/locked; exit 1")):
        root = implrun.make_project({"COND": 'run_experiment(name="ro", run="%s")\nrun_experiment(name="keep", run="echo kept > $COND_OUT/r")\n' % script})
        r1 = implrun.run_cond(["run", "//:ro"], root)
        r2 = implrun.run_cond(["run", "//:keep"], root)
        env = dict(os.environ, PYTHONPATH=SRC)
        co = os.path.join(root, "cond-out")
        before = sorted(d for d in os.listdir(co) if d.startswith("ro.task."))
        dry = subprocess.run(pre + [PY, "-m", "conductor", "gc", "-n"], cwd=root, env=env, capture_output=True, text=True)
        real = subprocess.run(pre + [PY, "-m", "conductor", "gc", "-v"], cwd=root, env=env, capture_output=True, text=True)
        chk.coverage["evaluations"] += 2
        chk.count("read-only outputs", variant)
        left = []
        for d in before:
            for dp, dns, fns in os.walk(os.path.join(co, d)):
                left.append(os.path.relpath(dp, co))
                left += [os.path.relpath(os.path.join(dp, f), co) for f in fns]
        kept = sorted(d for d in os.listdir(co) if d.startswith("keep.task."))
        problems = []
        if r1.code != 1 or r2.code != 0 or len(before) != 1 or len(kept) != 1:
            problems.append("harness: set-up failed (%r, %r, %r, %r)" % (r1.code, r2.code, before, kept))
        else:
            if before[0] not in dry.stdout:
                problems.append("gc --dry-run does not list %s: %r" % (before[0], dry.stdout[-200:]))
            if left:
                problems.append("after `cond gc` (exit %d, said %r) the unrecorded output directory is still there: %r" % (real.returncode, real.stdout.strip()[-80:], left[:6]))
            if not os.path.isfile(os.path.join(co, kept[0], "r")):
                problems.append("the recorded version %s was damaged" % kept[0])
        try:  # whatever is left: make it removable for the scratch clean-up
            subprocess.run(["chmod", "-R", "u+rwx", co], check=False)
        except OSError:
            pass
        for msg in problems:
            chk.violation("impl-violation", "a failed experiment left %s: %s" % (variant, msg),
                          {"input": {"part": "read-only-outputs", "variant": variant, "task": script, "commands": [["run", "//:ro"], ["run", "//:keep"], ["gc", "-n"], ["gc", "-v"]],
                                     "without_capabilities": bool(pre)},
                           "impl_observation": {"gc_exit": real.returncode, "gc_stdout": real.stdout[-300:], "gc_stderr": real.stderr[-300:], "left": left[:10]}, "oracle_verdict": msg},
                          match_key={"tree": "read-only-outputs"}, size=1)
        if not problems:
            chk.coverage["traces_validated_against_impl"] += 2


def unremovable_parts_and_modes(chk):
    """(D37) Two regressions of the repair D30, found by the review of the fix commits.  (a) A failed output holds files that
    belong to another user (what a root container leaves behind): `cond gc` cannot remove them -- it must say so, go on
    with the other unrecorded outputs and exit non-zero, not die with a traceback at the first one.  (b) "... and nothing
    else": making an inaccessible output removable must not change the permissions of a directory OUTSIDE that output (the
    package directory, cond-out itself: a shared, setgid directory lost its mode)."""
    import subprocess
    from common import PY, SRC

    setpriv = shutil.which("setpriv")
    if setpriv is None or os.geteuid() != 0:
        chk.coverage["unremovable_parts_and_modes"] = "skipped: needs root and setpriv"
        return
    drop = "-dac_override,-dac_read_search,-fowner"
    pre = [setpriv, "--bounding-set=" + drop, "--inh-caps=" + drop]
    env = dict(os.environ, PYTHONPATH=SRC)
    # (a)
    # the output that cannot be removed belongs to a top-level task (cond-out itself is scanned first); the others lie in the
    # same directory, in a package and in a nested package (seed C13/j: gc stopped after the first directory with a failure)
    files = {"COND": 'run_experiment(name="a", run="mkdir $COND_OUT/docker && echo x > $COND_OUT/docker/f; exit 1")\n'
                     'run_experiment(name="b", run="echo y > $COND_OUT/g; exit 1")\n'
                     'run_experiment(name="keep", run="echo kept > $COND_OUT/r")\n'
                     'group(name="all", deps=[":b", "//pkg:c", "//pkg/sub:d", ":a", ":keep"])\n',
             "pkg/COND": 'run_experiment(name="c", run="echo y > $COND_OUT/g; exit 1")\n',
             "pkg/sub/COND": 'run_experiment(name="d", run="echo y > $COND_OUT/g; exit 1")\n'}
    cond = files
    root = implrun.make_project(files)
    implrun.run_cond(["run", "//:all"], root)
    co = os.path.join(root, "cond-out")

    def versions(rel, name):
        d = os.path.join(co, rel)
        return sorted(os.path.join(rel, x) if rel else x for x in (os.listdir(d) if os.path.isdir(d) else []) if x.startswith(name + ".task."))

    a_dirs = versions("", "a")
    others = versions("", "b") + versions("pkg", "c") + versions(os.path.join("pkg", "sub"), "d")
    kept = versions("", "keep")
    problems = []
    if len(a_dirs) != 1 or len(others) != 3 or len(kept) != 1:
        problems.append("harness: set-up failed (%r %r %r)" % (a_dirs, others, kept))
    else:
        subprocess.run(["chown", "-R", "12345:12345", os.path.join(co, a_dirs[0], "docker")], check=True)
        real = subprocess.run(pre + [PY, "-m", "conductor", "gc", "-v"], cwd=root, env=env, capture_output=True, text=True)
        chk.coverage["evaluations"] += 1
        chk.count("read-only outputs", "foreign-owned part")
        still = sorted(d for d in others if os.path.exists(os.path.join(co, d)))
        if "Traceback" in real.stderr:
            problems.append("cond gc died with a traceback: %r" % real.stderr.strip().splitlines()[-1][:200])
        if still:
            problems.append("unrecorded outputs %s were not removed (gc stopped at the one it could not remove)" % still)
        if real.returncode == 0 and os.path.exists(os.path.join(co, a_dirs[0])):
            problems.append("cond gc exited 0 although %s could not be removed" % a_dirs[0])
        if not os.path.isfile(os.path.join(co, kept[0], "r")):
            problems.append("the recorded version %s was damaged" % kept[0])
        obs = {"gc_exit": real.returncode, "gc_stdout": real.stdout[-300:], "gc_stderr": real.stderr[-400:]}
        subprocess.run(["chown", "-R", "0:0", co], check=False)
    for msg in problems:
        chk.violation("impl-violation", "a failed output holds files of another user: %s" % msg,
                      {"input": {"part": "unremovable-part", "cond": cond, "commands": [["run", "//:all"], "chown -R 12345 cond-out/a.task.*/docker", ["gc", "-v"]], "without_capabilities": True},
                       "impl_observation": obs if len(a_dirs) == 1 else None, "oracle_verdict": msg}, match_key={"tree": "unremovable-part"}, size=1)
    if not problems:
        chk.coverage["traces_validated_against_impl"] += 1
    # (b)
    for where in ("package directory", "cond-out itself"):
        files = {"pkg/COND": 'run_experiment(name="a", run="mkdir $COND_OUT/x; chmod 000 $COND_OUT; exit 1")\n'} if where == "package directory" else \
                {"COND": 'run_experiment(name="a", run="mkdir $COND_OUT/x; chmod 000 $COND_OUT; exit 1")\n'}
        root = implrun.make_project(files)
        co = os.path.join(root, "cond-out")
        outer = os.path.join(co, "pkg") if where == "package directory" else co
        os.makedirs(outer, exist_ok=True)
        os.chmod(co, 0o2775)
        os.chmod(outer, 0o2775)
        implrun.run_cond(["run", "//pkg:a" if where == "package directory" else "//:a"], root)
        mode_before = os.stat(outer).st_mode & 0o7777
        real = subprocess.run(pre + [PY, "-m", "conductor", "gc", "-v"], cwd=root, env=env, capture_output=True, text=True)
        chk.coverage["evaluations"] += 1
        chk.count("read-only outputs", "inaccessible output in a setgid " + where)
        mode_after = os.stat(outer).st_mode & 0o7777
        left = [d for d in os.listdir(outer) if d.startswith("a.task.")]
        problems = []
        if mode_before != 0o2775:
            problems.append("harness: mode before gc is %o" % mode_before)
        if left:
            problems.append("the unrecorded output %s is still there (gc exit %d: %r)" % (left, real.returncode, real.stderr.strip()[-160:]))
        if mode_after != mode_before:
            problems.append("`cond gc` changed the mode of %s from %o to %o" % (os.path.relpath(outer, root), mode_before, mode_after))
        subprocess.run(["chmod", "-R", "u+rwx", co], check=False)
        for msg in problems:
            chk.violation("impl-violation", "an inaccessible failed output inside a setgid, group-writable %s: %s" % (where, msg),
                          {"input": {"part": "modes", "where": where, "files": files, "commands": ["chmod 2775 <dir>", ["run", "a"], ["gc", "-v"]], "without_capabilities": True},
                           "impl_observation": {"gc_exit": real.returncode, "gc_stdout": real.stdout[-200:], "gc_stderr": real.stderr[-300:], "mode_before": "%o" % mode_before, "mode_after": "%o" % mode_after},
                           "oracle_verdict": msg}, match_key={"tree": "modes"}, size=1)
        if not problems:
            chk.coverage["traces_validated_against_impl"] += 1


def run(tier, seed, replay=None):
    chk = Check("C13", tier, seed)
    chk.build_proofs(["Model/Gc.vo", "Lib/Cmp.vo"])
    implrun.setup_impl_path()
    import conductor.__main__  # noqa: F401  pylint: disable=unused-import,import-outside-toplevel  (so that forked children need not import)

    try:  # Context() imports this lazily in every invocation (0.2 s); do it once in the parent
        import conductor.envs.manager_impl  # noqa: F401  pylint: disable=unused-import,import-outside-toplevel
    except ImportError:
        pass

    rn = Runner(chk)

    if replay is not None and replay.get("input", {}).get("part") in ("read-only-outputs", "unusual-invocations", "unremovable-part", "modes"):
        read_only_outputs(chk)
        unremovable_parts_and_modes(chk)
        unusual_invocations(chk)
        return chk.finish()
    if replay is not None:
        inp = replay["input"]
        tree = U.tree_from_json(inp["tree"])
        rows = [(a, b) for a, b in inp["rows"]]
        ok = rn.run_case(tree, rows, "replay", bool(inp.get("verbose", True)), "replay")
        print("replay: tree=%r rows=%r expected targets=%r -> %s" % (inp["tree"], rows, ["/".join(q) for q in U.expected_targets(tree, rows)], "property holds" if ok else "PROPERTY VIOLATED"))
        rn.compare_with_model()
        return chk.finish()

    import archive_util as au  # pylint: disable=import-outside-toplevel

    recorded_versions_are_not_explored(chk)
    au.equal_timestamps_across_tasks(chk, "C13")   # versions of different tasks that share a timestamp are all recorded versions
    # 1. corpus
    for i, (tree, rows) in enumerate(U.corpus()):
        rn.run_case(tree, rows, "corpus#%d" % i, True, "corpus")
        rn.run_case(tree, rows, "corpus#%d" % i, False, "corpus")
    # 2. exhaustive small family (thorough) / a slice of it (quick)
    fam = U.small_family()
    if tier == "quick":
        fam = chk.rng.sample(fam, 60)
    for i, (tree, rows) in enumerate(fam):
        rn.run_case(tree, rows, "family#%d" % i, i % 2 == 0, "family")
    # 3. seeded random trees
    n_random = 240 if tier == "quick" else 6000
    for i in range(n_random):
        tree, rows = U.random_case(chk.rng)
        rn.run_case(tree, rows, "random#%d" % i, chk.rng.random() < 0.6, "random")
    # 4. histories of real runs
    n_hist = 2 if tier == "quick" else 40
    for i in range(n_hist):
        top, root, log = U.real_history(chk.rng)
        try:
            rn.check_project(top, root, "history#%d %s" % (i, log), True, "history")
        finally:
            shutil.rmtree(top, ignore_errors=True)

    chk.coverage["distinct_nontrivial"] = len(rn.nontrivial)
    chk.coverage["exhaustive"] = False
    chk.coverage["rule"] = (
        "one case = a cond-out tree + index rows, run through `cond gc -n` and `cond gc [-v]` (two evaluations); "
        "corpus, the small exhaustive family (4 root directories x sub-directory subsets x row subsets; sampled in the quick tier), "
        "seeded random trees (nested packages, look-alike names, stray files, content inside task directories, archive-tmp, rows for other paths/timestamps, "
        "non-canonical and malformed rows) and trees left by real `cond run` histories; non-trivial = at least one directory must be deleted AND at least one "
        "version-like directory must be kept; distinct = by (ordered tree, rows, verbose)"
    )
    chk.assumptions += [
        "one cond process at a time per project: a `cond gc` that runs while a `cond run` is executing an experiment sees that execution's directory as unrecorded and deletes it (the row is inserted afterwards and then names a directory that is gone); the property quantifies over SEQUENCES of invocations",
        "the files under cond-out belong to the invoking user (gc makes a directory accessible to its owner before retrying a failed removal; somebody else's files cannot be removed and the error is reported)",
    ]
    read_only_outputs(chk)
    unremovable_parts_and_modes(chk)
    unusual_invocations(chk)
    probe = symlink_probe()
    chk.coverage["symlink_probe"] = probe
    if probe["observed"] != "not followed":
        chk.violation("impl-violation", "cond gc followed the symbolic link cond-out/shared and deleted a directory outside cond-out",
                      {"input": {"tree": "cond-out/shared -> ../elsewhere ; elsewhere/results/x.task.5/", "command": "gc -v"},
                       "impl_observation": probe, "oracle_verdict": "something outside cond-out was deleted"},
                      match_key={"tree": "symlink-out-of-cond-out"}, size=1)
    rn.compare_with_model()
    if tier == "thorough":
        chk.run_coqchk()
    return chk.finish()
