#!/venv/bin/python
"""Self-validation of the checks: hand-written mutants of the anchored code, each applied to a
scratch copy of /repo/src (never to /repo), the listed checks run with VERIF_REPO pointing at it.
Usage: self_mutants.py [name-substring ...]   -> writes evidence/mutants.json (kill matrix)."""
import json
import os
import shutil
import subprocess
import sys
import time

VERIF = os.path.dirname(os.path.dirname(os.path.abspath(__file__)))

# (name, relative file under src/conductor, old text, new text, checks expected to go red)
MUTANTS = [
    ("planner-revert-D1", "execution/planning/planner.py",
     "                if lt.task.identifier in visited:\n", "                if False and lt.task.identifier in visited:\n", ["C01", "C02"]),
    ("planner-drop-edge", "execution/planning/planner.py",
     "                        new_op.add_exe_dep(dep_op)\n", "                        if len(new_op.exe_deps) == 0: new_op.add_exe_dep(dep_op)\n", ["C01"]),
    ("planner-no-prune", "execution/planning/planner.py",
     "                if not run_again and not lt.task.should_run(self._ctx, at_least_commit):", "                if False:", ["C02"]),
    ("exec-gate-le", "execution/executor.py",
     "and len(self._inflight_ops) < self._slots", "and len(self._inflight_ops) <= self._slots", ["C04"]),
    ("exec-slot-not-returned", "execution/executor.py",
     "        if handle.slot is not None:\n            self._available_slots.append(handle.slot)\n", "        if handle.slot is not None and handle.slot != 1:\n            self._available_slots.append(handle.slot)\n", ["C04", "C09"]),
    ("exec-seq-with-par", "execution/executor.py",
     "                self._ready_to_run.has_ops() and len(self._inflight_ops) == 0\n", "                self._ready_to_run.has_ops() and len(self._inflight_ops) <= 1\n", ["C04"]),
    ("exec-skip-check-any", "execution/ops/operation.py",
     "return all(map(lambda task: task.succeeded(), self.exe_deps))", "return any(map(lambda task: task.succeeded(), self.exe_deps)) or len(self.exe_deps) == 0", ["C03", "C01"]),
    ("exec-enqueue-early", "execution/executor.py",
     "            if dep_of.waiting_on > 0:\n", "            if dep_of.waiting_on > 1:\n", ["C01", "C09"]),
    ("exec-failed-counts-as-done", "execution/ops/operation.py",
     "            or self.state == OperationState.SUCCEEDED_CACHED\n", "            or self.state == OperationState.SUCCEEDED_CACHED\n            or self.state == OperationState.SKIPPED\n", ["C03"]),
    ("exec-stop-early-ignored-on-launch", "execution/executor.py",
     "                    if stop_on_first_error:\n                        return True\n", "                    if stop_on_first_error and False:\n                        return True\n", ["C03"]),
    ("lib-revert-D3", "lib/path.py",
     "    if len(os.environ[DEPS_ENV_VARIABLE_NAME]) == 0:\n", "    if False:\n", ["C07"]),
    ("env-deps-reversed", "task_types/base.py",
     "        for dep_identifier in self.deps:\n", "        for dep_identifier in reversed(self.deps):\n", ["C07"]),
    ("env-options-before-args", "execution/ops/run_task_executable.py",
     "            [run, self._args.serialize_cmdline(), self._options.serialize_cmdline()]", "            [run, self._options.serialize_cmdline(), self._args.serialize_cmdline()]", ["C07"]),
    ("env-bool-capitalised", "utils/run_arguments.py",
     '                args.append("true" if arg else "false")', '                args.append(str(arg))', ["C07"]),
    ("env-cwd-root", "task_types/base.py",
     "        return pathlib.Path(ctx.project_root, self._identifier.path)", "        return pathlib.Path(ctx.project_root)", ["C07"]),
    ("abort-start-unbound", "execution/executor.py",
     "        start = time.time()\n        try:\n            self._reset()\n", "        try:\n            self._reset()\n            start = time.time()\n", ["C16"]),
    ("abort-process-unbound", "execution/ops/run_task_executable.py",
     "        process = None\n        try:\n", "        try:\n", ["C16"]),
    ("abort-unregistered-child", "execution/executor.py",
     "                    if handle is not None:\n", "                    if handle is not None and False:\n", ["C16"]),
    ("abort-no-terminate", "execution/executor.py",
     "        except ConductorAbort:\n            self._inflight_ops.terminate_processes()\n", "        except ConductorAbort:\n", ["C16"]),
    ("abort-kills-one", "execution/executor.py",
     "        for handle, _ in self._processes.values():\n            try:\n", "        for handle, _ in list(self._processes.values())[:1]:\n            try:\n", ["C16"]),
    ("loader-no-cycle-check", "parsing/task_index.py",
     "                if identifier in curr_path:\n                    # The user's dependency graph contains a cycle\n                    raise CyclicDependency(\n                        task_identifier=task_identifier\n                    )",
     "                if identifier in curr_path and len(curr_path) > 2:\n                    # The user's dependency graph contains a cycle\n                    raise CyclicDependency(\n                        task_identifier=task_identifier\n                    )", ["C14"]),
    ("loader-visited-early", "parsing/task_index.py",
     "                identifiers_to_load.append((identifier, 1))\n                curr_path.add(identifier)\n", "                identifiers_to_load.append((identifier, 1))\n                curr_path.add(identifier)\n                visited_identifiers.add(identifier)\n", ["C14"]),
    ("sigchld-no-wakeup-fd", "utils/sigchld.py",
     "        existing_wakeup_fd = signal.set_wakeup_fd(\n            self._write_pipe, warn_on_full_buffer=False\n        )\n", "        existing_wakeup_fd = signal.set_wakeup_fd(-1)\n", ["C09"]),
    ("sigchld-signal-death-is-zero", "utils/sigchld.py",
     "                    returncode = os.WTERMSIG(status)\n", "                    returncode = 0\n", ["C09", "C03", "C01"]),
    ("version-rule-no-catch-up", "execution/version_index.py",
     "        elif timestamp < self._last_timestamp:\n            timestamp = self._last_timestamp + 1\n", "        elif False:\n            timestamp = self._last_timestamp + 1\n", ["C08"]),
    ("validate-no-dependee-count", "parsing/task_index.py",
     "                        root_candidates[dep_id] += 1\n", "                        root_candidates[dep_id] += 0\n", ["C14"]),
    # (removed: "validate-visited-late" -- dropping `if curr_id in visited: continue` from validate_all_loaded_tasks is an
    #  EQUIVALENT mutant: visited tasks are expanded again, which only repeats increments of counters that are compared with 0
    #  and costs time; verdicts, roots and errors are unchanged, and the check rightly stays quiet)
    ("revert-D20-slot-pop", "execution/ops/run_task_executable.py",
     "                env_vars.pop(SLOT_ENV_VARIABLE_NAME, None)\n", "                pass\n", ["C04"]),
    ("gate-parallel-mode-ignored", "execution/executor.py",
     "                self._running_parallel\n                and len(self._inflight_ops) < self._slots", "                True\n                and len(self._inflight_ops) < self._slots", ["C04"]),
    ("revert-D21-getpgid-unguarded", "execution/ops/run_task_executable.py",
     "                except OSError as ex:\n                    # The process may have already exited (and been reaped by\n                    # the SIGCHLD handler); there is nothing left to signal.\n                    if ex.errno != errno.ESRCH and ex.errno != errno.ECHILD:\n                        raise\n",
     "                except ZeroDivisionError:\n                    raise\n", ["C16"]),
    ("revert-D22-clean-index-first", "cli/clean.py",
     "    (ctx.output_path / VERSION_INDEX_NAME).unlink(missing_ok=True)\n", "    pass\n", ["C06"]),
    ("revert-D23-staging-name", "config.py",
     'ARCHIVE_STAGING = ".archive-tmp"\n', 'ARCHIVE_STAGING = "archive-tmp"\n', ["C08", "C12", "C11"]),
    ("revert-D24-tar-absolute", "cli/restore.py",
     'str(archive_file.absolute())', 'str(archive_file)', ["C17"]),
    ("revert-D25-tee-stream-failure", "utils/tee.py",
     "                except (OSError, ValueError):\n                    stream_ok = False\n", "                except ZeroDivisionError:\n                    stream_ok = False\n", ["C10"]),
    ("revert-D26-json-after-check", "execution/ops/run_task_executable.py",
     "        if self._serialize_args_options:\n", "        if self._serialize_args_options and handle.returncode == 0:\n", ["C10", "C06", "C08"]),
    ("revert-D27-dangling-own-link", "execution/ops/combine_outputs.py",
     "            if copy_into.is_symlink():\n", "            if copy_into.is_symlink() and copy_into.exists():\n", ["C18"]),
    ("revert-D28-foreign-link", "execution/ops/combine_outputs.py",
     "                if not _is_conductor_link(copy_into, dep_id, ctx):\n", "                if False:\n", ["C18"]),
    ("revert-D29-include-scope", "parsing/task_loader.py",
     "            exec(include_code, scope)\n", "            exec(include_code, {}, scope)\n", ["C15"]),
    ("revert-D30-gc-ignore-errors", "cli/gc.py",
     "    shutil.rmtree(path, onerror=retry)\n", "    shutil.rmtree(path, ignore_errors=True)\n", ["C13"]),
    ("revert-D31-serialize-oserror", "execution/ops/run_task_executable.py",
     "            except OSError as ex:\n                # E.g., the task removed its own output directory.", "            except ZeroDivisionError as ex:\n                # E.g., the task removed its own output directory.", ["C03"]),
    ("revert-D32-abort-in-include", "parsing/task_loader.py",
     "        except ConductorAbort:\n            # The user interrupted Conductor while the included file was", "        except ZeroDivisionError:\n            # The user interrupted Conductor while the included file was", ["C16"]),
    ("teed-log-goes-nowhere", "utils/output_handler.py",
     "            if self._file is None:\n                self._file = open(self._output_path, \"wb\")\n            return subprocess.PIPE\n",
     "            if self._file is None:\n                self._file = open(\"/dev/null\", \"wb\")\n            return subprocess.PIPE\n", ["C10"]),
    ("revert-D34-valueerror-at-launch", "execution/ops/run_task_executable.py",
     "        except (OSError, ValueError) as ex:\n", "        except OSError as ex:\n", ["C03", "C09"]),
    ("revert-D35-abort-raised-anywhere", "errors/signal.py",
     "    if _defer_depth > 0:\n        _abort_pending = True\n        return\n    raise ConductorAbort()\n", "    raise ConductorAbort()\n", ["C16"]),
    ("abort-noted-but-never-raised", "errors/signal.py",
     "        if _defer_depth == 0 and _abort_pending:\n", "        if _defer_depth == 0 and _abort_pending and False:\n", ["C16"]),
    ("register-outside-the-deferred-block", "execution/executor.py",
     "                        handle.slot = slot\n                        self._inflight_ops.add_op(handle, next_op)\n                        if slot is not None:\n                            self._available_slots.pop()\n",
     "                        handle.slot = slot\n                    self._inflight_ops.add_op(handle, next_op)\n                    if slot is not None:\n                        self._available_slots.pop()\n", ["C16"]),
    ("revert-D36-logs-left-open-after-failed-launch", "execution/ops/run_task_executable.py",
     "                if output is not None:\n                    output.finish()\n", "                if output is not None:\n                    pass\n", ["C03"]),
    ("revert-D36-pipes-left-open-after-nonzero-exit", "execution/ops/run_task_executable.py",
     "                if pipe is not None:\n                    pipe.close()\n            handle.process = None\n", "                if pipe is not None:\n                    pass\n", ["C03"]),
    ("revert-D37-gc-chmods-the-containing-directory", "cli/gc.py",
     "            if failed_path != root:\n                make_accessible(os.path.dirname(failed_path))\n", "            os.chmod(os.path.dirname(failed_path), stat.S_IRWXU)\n", ["C13"]),
    ("revert-D37-gc-dies-at-an-unremovable-output", "cli/gc.py",
     "        except OSError as ex:\n            failures.append(\"{}: {}\".format(failed_path, ex))\n", "        except NotADirectoryError as ex:\n            failures.append(\"{}: {}\".format(failed_path, ex))\n", ["C13"]),
    ("revert-D38-version-recorded-without-a-directory", "execution/ops/run_task_executable.py",
     "            if not self._output_path.is_dir():\n", "            if False:\n", ["C06"]),
    ("revert-D39-no-stream-kills-the-copier", "utils/tee.py",
     "        stream_ok = stream is not None and hasattr(stream, \"buffer\")\n", "        stream_ok = True\n", ["C10"]),
    ("revert-D40-only-mkdir-guarded-in-combine", "execution/ops/combine_outputs.py",
     "                copy_into.symlink_to(relative_to_target)\n\n        except OSError as ex:", "                copy_into.symlink_to(relative_to_target)\n\n        except NotADirectoryError as ex:", ["C03", "C09"]),
    ("revert-D41-sigchld-left-blocked", "utils/sigchld.py",
     "        existing_mask = signal.pthread_sigmask(signal.SIG_UNBLOCK, {signal.SIGCHLD})\n", "        existing_mask = signal.pthread_sigmask(signal.SIG_UNBLOCK, set())\n", ["C09"]),
    ("revert-D42-member-names-read-as-tar-options", "cli/archive.py",
     "                \"--\",\n", "", ["C11"]),
    ("revert-D43-generated-name-not-tested", "cli/archive.py",
     "        if output_path.exists():\n            # Generated names have a resolution of one second; never\n", "        if False:\n            # Generated names have a resolution of one second; never\n", ["C11"]),
    # fourth phase: one mutant per new translator fragment (each is red with a concrete input; the translator refuses or re-translates it as well)
    ("lowering-experiments-not-recorded", "execution/planning/planner.py", "                        record_output=True,", "                        record_output=False,", ["C10"]),
    ("lowering-args-not-serialised", "execution/planning/planner.py", "                        serialize_args_options=True,", "                        serialize_args_options=False,", ["C10"]),
    ("finished-op-enqueues-one-early", "execution/executor.py", "            if dep_of.waiting_on > 0:", "            if dep_of.waiting_on > 1:", ["C01"]),
    ("first-visit-visited-dependency-not-linked", "execution/planning/planner.py",
     "                        dep = visited[dep_ident]\n                        lt.deps.append(dep)\n                        continue", "                        dep = visited[dep_ident]\n                        continue", ["C01"]),
    ("clean-goes-on-after-the-index-could-not-be-removed", "cli/clean.py", "        sys.exit(1)\n    shutil.rmtree(ctx.output_path, ignore_errors=True)", "        pass\n    shutil.rmtree(ctx.output_path, ignore_errors=True)", ["C06"]),
    ("loader-no-dup-check", "parsing/task_index.py",
     "                    if dep_identifier in task_deps_set:\n", "                    if dep_identifier in task_deps_set and len(task_deps) > 2:\n", ["C14"]),
]


def run(names):
    results = []
    for name, rel, old, new, expect in MUTANTS:
        if names and not any(n in name for n in names):
            continue
        d = "/dev/shm/selfmut-%s" % name
        shutil.rmtree(d, ignore_errors=True)
        shutil.copytree("/repo/src", os.path.join(d, "src"), symlinks=True)
        path = os.path.join(d, "src", "conductor", rel)
        text = open(path, encoding="utf-8").read()
        if text.count(old) != 1:
            results.append({"mutant": name, "error": "pattern occurs %d times" % text.count(old)})
            shutil.rmtree(d, ignore_errors=True)
            continue
        with open(path, "w", encoding="utf-8") as f:
            f.write(text.replace(old, new))
        # the mutant must still pass the pinned unit tests it touches (import at least)
        imp = subprocess.run(["/venv/bin/python", "-c", "import conductor.__main__"], env=dict(os.environ, PYTHONPATH=os.path.join(d, "src")), capture_output=True)
        row = {"mutant": name, "file": rel, "imports": imp.returncode == 0, "verdicts": {}}
        for chk in expect:
            t0 = time.time()
            p = subprocess.run([os.path.join(VERIF, "check"), chk, "--tier", "quick"], env=dict(os.environ, VERIF_REPO=d), capture_output=True, text=True)
            viol = [l for l in p.stdout.splitlines() if l.startswith("VIOLATION")]
            first = next((l for l in p.stdout.splitlines() if l.strip().startswith("!")), "")
            row["verdicts"][chk] = {"exit": p.returncode, "red": p.returncode == 1 and bool(viol), "first": first[:300], "wall_s": round(time.time() - t0, 1)}
        results.append(row)
        shutil.rmtree(d, ignore_errors=True)
        print(json.dumps(row)[:600])
    return results


if __name__ == "__main__":
    res = run(sys.argv[1:])
    out = os.path.join(VERIF, "evidence", "mutants.json")
    prev = []
    if os.path.exists(out):
        try:
            prev = json.load(open(out, encoding="utf-8"))
        except Exception:  # pylint: disable=broad-except
            prev = []
    byname = {r["mutant"]: r for r in prev}
    for r in res:
        byname[r["mutant"]] = r
    with open(out, "w", encoding="utf-8") as f:
        json.dump(sorted(byname.values(), key=lambda r: r["mutant"]), f, indent=1)
