#!/bin/bash
# eval_list.sh <copy-name> <kind:seed|harmless> <dir> <checks...>
n=$1; shift; kind=$1; shift; d=$1; shift
V=/dev/shm/$n
rm -rf $V; mkdir -p $V
rsync -a --exclude .git --exclude replays /verif/ $V/
cd $V
if [ "$kind" = seed ]; then
  p=$(basename $(dirname $d)); /venv/bin/python harness/seed_eval.py $p $d "$@" 2>&1 | tail -1 > /dev/shm/$n.result
  [ -f $V/$d/meta.json ] && cp $V/$d/meta.json /verif/$d/meta.json
else
  p=$(basename $(dirname $d)); /venv/bin/python harness/harmless_eval.py $p $d "$@" 2>&1 | tail -1 > /dev/shm/$n.result
fi
rm -rf $V
