#!/bin/bash
# import round-2 seeded changes produced in a scratch worktree and evaluate them:
#   seed_import.sh C04 [/tmp/wt2-C04]   -> seeded/C04/{c,d}/ + meta.json, one summary line per seed
cd "$(dirname "$0")/.."
p=$1; wt=${2:-/tmp/wt2-$p}
for v in c d; do
  [ -d "$wt/seeded/$v" ] || continue
  mkdir -p seeded/$p/$v
  cp "$wt/seeded/$v/patch.diff" "$wt/seeded/$v/demo.py" "$wt/seeded/$v/README.md" seeded/$p/$v/ 2>/dev/null
  extra=""
  /venv/bin/python harness/seed_eval.py $p seeded/$p/$v $extra 2>&1 | tail -1
done
