#!/bin/bash
# import seeded changes produced in a scratch worktree and evaluate them:
#   seed_import.sh C04 /tmp/wt3-C04 "e f"   -> seeded/C04/{e,f}/ + meta.json, one summary line per seed
cd "$(dirname "$0")/.."
p=$1; wt=${2:-/tmp/wt2-$p}; vs=${3:-"c d"}
for v in $vs; do
  [ -d "$wt/seeded/$v" ] || continue
  mkdir -p seeded/$p/$v
  cp "$wt/seeded/$v/patch.diff" "$wt/seeded/$v/demo.py" "$wt/seeded/$v/README.md" seeded/$p/$v/ 2>/dev/null
  /venv/bin/python harness/seed_eval.py $p seeded/$p/$v 2>&1 | tail -1
done
