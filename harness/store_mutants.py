"""Self-validation of the C08 / C06 checks: hand-made mutants of the anchored code (and the
reverses of the relevant fix commits) in scratch copies of /repo/src; each must turn the check red.

usage: /venv/bin/python harness/store_mutants.py [C08|C06] [--tier quick]
Prints one line per mutant: name -> verdict (exit code, first VIOLATION / summary lines)."""
import os
import shutil
import subprocess
import sys
import tempfile

REPO = "/repo"
VERIF = os.path.dirname(os.path.dirname(os.path.abspath(__file__)))

RUN = "src/conductor/task_types/run.py"
VI = "src/conductor/execution/version_index.py"
RTE = "src/conductor/execution/ops/run_task_executable.py"
RESTORE = "src/conductor/cli/restore.py"
GC = "src/conductor/cli/gc.py"

MUTANTS = {
    "C08": [
        ("reverse-784d6de (D8: allocate once, ignore existing directories)", "revert", "784d6de"),
        ("reverse-8404535 (D1: shared dependency lowered twice)", "revert", "8404535"),
        ("generator: equal second is not bumped", "edit", VI,
         "        if timestamp == self._last_timestamp:\n            timestamp += 1\n",
         "        if timestamp == self._last_timestamp:\n            timestamp += 0\n"),
        ("generator: not seeded from MAX(timestamp)", "edit", VI,
         "                    result[0] if result is not None and result[0] is not None else 0\n",
         "                    0\n"),
        ("allocation loop: wrong existence test (checks the unversioned directory)", "edit", RUN,
         "            if output_path is None or not output_path.exists():\n                break\n",
         "            if output_path is None or not output_path.with_suffix('').exists():\n                break\n"),
        ("gc deletes recorded versions as well", "edit", GC,
         "            if (task_identifier, timestamp) not in all_versions:\n",
         "            if True:\n"),
        ("restore copies over existing directories", "edit", RESTORE,
         "shutil.copytree(src_task_path, dest_task_path, symlinks=True)",
         "shutil.copytree(src_task_path, dest_task_path, symlinks=True, dirs_exist_ok=True)"),
    ],
    "C06": [
        ("reverse-784d6de (D8: recorded version inherits a failed run's directory)", "revert", "784d6de"),
        ("row inserted and committed before the return code is checked", "edit", RTE,
         "        assert handle.returncode is not None\n        if handle.returncode != 0:\n",
         "        assert handle.returncode is not None\n        if self._version_to_record is not None:\n"
         "            ctx.version_index.insert_output_version(self._identifier, self._version_to_record)\n"
         "            ctx.version_index.commit_changes()\n            self._version_to_record = None\n"
         "        if handle.returncode != 0:\n"),
        ("commit before args.json / options.json are written", "edit", RTE,
         "        if self._serialize_args_options:\n            if not self._args.empty():\n",
         "        if self._version_to_record is not None:\n"
         "            ctx.version_index.insert_output_version(self._identifier, self._version_to_record)\n"
         "            ctx.version_index.commit_changes()\n            self._version_to_record = None\n"
         "        if self._serialize_args_options:\n            if not self._args.empty():\n"),
        ("restore commits the index before copying the directories", "edit", RESTORE,
         "            raise DuplicateTaskOutput(output_dir=str(ctx.output_path)) from ex\n",
         "            raise DuplicateTaskOutput(output_dir=str(ctx.output_path)) from ex\n        ctx.version_index.commit_changes()\n"),
        ("dirty flag dropped from the recorded row", "edit", VI,
         "        has_uncommitted_changes = 1 if version.has_uncommitted_changes else 0\n",
         "        has_uncommitted_changes = 0\n"),
        ("options.json never written", "edit", RTE,
         "            if not self._options.empty():\n",
         "            if False:\n"),
    ],
}


def make_copy(base):
    d = tempfile.mkdtemp(prefix="mut-", dir=base)
    shutil.copytree(os.path.join(REPO, "src"), os.path.join(d, "src"), symlinks=True, ignore=shutil.ignore_patterns("__pycache__", "*.egg-info"))
    return d


def apply(m, d):
    if m[1] == "revert":
        diff = subprocess.run(["git", "-C", REPO, "show", m[2], "--", "src"], stdout=subprocess.PIPE, check=True).stdout
        p = subprocess.run(["patch", "-R", "-p1", "-s", "-d", d], input=diff, stdout=subprocess.PIPE, stderr=subprocess.STDOUT, check=False)
        if p.returncode != 0:
            raise RuntimeError("reverse patch failed: " + p.stdout.decode())
        return
    _name, _kind, rel, old, new = m
    path = os.path.join(d, rel)
    text = open(path).read()
    if text.count(old) != 1:
        raise RuntimeError("mutation site not found exactly once in %s: %r" % (rel, old[:60]))
    with open(path, "w") as f:
        f.write(text.replace(old, new))


def main():
    props = [a for a in sys.argv[1:] if a in MUTANTS] or ["C08", "C06"]
    tier = "quick"
    if "--tier" in sys.argv:
        tier = sys.argv[sys.argv.index("--tier") + 1]
    base = "/dev/shm"
    rows = []
    for prop in props:
        for m in MUTANTS[prop]:
            d = make_copy(base)
            try:
                apply(m, d)
                env = dict(os.environ, VERIF_REPO=d)
                p = subprocess.run([os.path.join(VERIF, "check"), prop, "--tier", tier], env=env, stdout=subprocess.PIPE, stderr=subprocess.STDOUT, check=False)
                out = p.stdout.decode("utf-8", "replace")
                viol = [ln for ln in out.splitlines() if ln.startswith("VIOLATION")]
                first = next((ln.strip() for ln in out.splitlines() if ln.strip().startswith("!")), "")
                verdict = "RED" if p.returncode != 0 and viol else "GREEN(!)"
                no_input = all("no-failing-input-found" in v for v in viol) if viol else False
                rows.append((prop, m[0], verdict, "model/impl disagreement only" if no_input else "oracle on the implementation", first[:200]))
                print("%s | %-75s | %s | %s\n      %s" % rows[-1], flush=True)
            finally:
                shutil.rmtree(d, ignore_errors=True)
    bad = [r for r in rows if r[2] != "RED"]
    print("%d mutants, %d red" % (len(rows), len(rows) - len(bad)))
    return 1 if bad else 0


if __name__ == "__main__":
    sys.exit(main())
