"""C09 -- runs always terminate with every planned task accounted for.

proofs : coq/Props/C09.v -- scheduler bookkeeping (progress, no deadlock, accounting, no misattribution, whole pipeline
         terminates) and the child-reaping protocol (no lost wake-up, every exit handed out exactly once, wait()
         inevitably returns; the old protocol's lost wake-up as a refuted statement)
tie    : (a) scheduling engine (real TaskIndex / planner / executor under the fake process layer, several exits per
             SIGCHLD included) against Model/RunCase.v and the property oracle;
         (b) the real SigchldHelper under a simulated kernel / signal machinery: every step it takes must be a run of
             Model/Reaper.v ending in the same state (harness/reaper_model.py);
         (c) forced schedules on real processes and the real kernel (harness/reaper_util.py).
"""
from sched_checks import run_prop
from reaper_model import protocol_part


def run(tier, seed, replay=None):
    if replay is not None and (replay.get("input") or {}).get("part") == "reaper-protocol":
        from common import Check
        from sched_checks import MODEL_TARGETS
        import reaper_model as rm

        chk = Check("C09", tier, seed)
        chk.build_proofs(MODEL_TARGETS + ["Model/Reaper.vo"])
        sched = [tuple(e) for e in replay["input"]["schedule"]]
        w = rm.run_schedule(sched)
        print("replay: schedule %r\n  steps %r\n  returned %r, recorded %r, unreaped %r, pipe %d, blocked %s, crash %s" % (sched, w.log, w.returned, w.final_rcs, [z[:2] for z in w.zombies], w.pipe, w.blocked, w.crash))
        if w.blocked and (w.zombies or w.final_rcs) and not w.kpending:
            chk.violation("impl-violation", "lost wake-up under the schedule %r" % (sched,), {"input": replay["input"], "impl_observation": {"log": [list(e) for e in w.log]}}, match_key={"reaper": "wait()"}, size=len(sched))
        return chk.finish()
    return run_prop("C09", tier, seed, replay, extra_part=protocol_part, extra_targets=["Model/Reaper.vo"])
