#!/bin/bash
# seed_shard.sh <i> <n>: evaluate the seeds (and harmless changes) with index%n==i in a private copy of /verif
i=$1; n=$2
V=/dev/shm/vc$i
rm -rf $V; mkdir -p $V
rsync -a --exclude .git --exclude replays /verif/ $V/
cd $V
k=0
: > $V/seeded/summary.$i.txt
: > $V/harmless/summary.$i.txt
for d in seeded/C*/[a-z]; do
  if [ $((k % n)) -eq $i ]; then
    p=$(basename $(dirname $d))
    extra=""
    [ "$d" = "seeded/C02/b" ] && extra="C02 C05"
    [ -f $d/also_checks ] && extra="$p $(cat $d/also_checks)"
    /venv/bin/python harness/seed_eval.py $p $d $extra 2>&1 | tail -1 >> $V/seeded/summary.$i.txt
    [ -f $V/$d/meta.json ] && cp $V/$d/meta.json /verif/$d/meta.json
  fi
  k=$((k+1))
done
for d in harmless/C*/[0-9] harmless/self/*; do
  if [ $((k % n)) -eq $i ]; then
    p=$(basename $(dirname $d))
    checks=$p; [ "$p" = "self" ] && checks="$(cat harness/manifest/ENABLED | tr '\n' ' ')"
    /venv/bin/python harness/harmless_eval.py $p $d $checks 2>&1 | tail -1 >> $V/harmless/summary.$i.txt
  fi
  k=$((k+1))
done
echo done > $V/DONE
