"""The scheduling properties' check entry points (thin wrappers over sched_engine)."""
import itertools

from common import Check
from sched_engine import (rand_case, all_small_graphs, run_cases, replay_case, load_corpus, force_diamond, rand_dag)
from sched_util import Case, Task

MODEL_TARGETS = ["Model/RunCase.vo", "Lib/Cmp.vo"]

RULES = {
    "C01": "corpus, then all diamonds a->[b,d], b->d in both listing orders x kinds x jobs, then seeded random DAGs (<= 9 tasks, forced shared "
           "dependencies, four task kinds, cached experiments, --again, --stop-early, failures, jobs 1-4, random completion orders); each run on the real "
           "TaskIndex/ExecutionPlanner/Executor under the fake process layer and on the Coq model; non-trivial = at least 3 tasks",
}


def diamonds():
    out = []
    for order in ([1, 2], [2, 1]):
        for kd in ("command", "experiment"):
            for kb in ("command", "experiment", "combine", "group"):
                for jobs in (1, 2):
                    for par in (False, True):
                        for again in (False, True):
                            tasks = [Task(2, list(order), "command", par), Task(2, [2], kb, par), Task(2, [], kd, par)]
                            out.append(Case(tasks, jobs=jobs, again=again, picks=[1, 0, 0]))
                            if kd == "experiment":
                                tasks2 = [Task(2, list(order), "command", par), Task(2, [2], kb, par), Task(2, [], kd, par, sr=False)]
                                out.append(Case(tasks2, jobs=jobs, again=again, picks=[1, 0, 0]))
    return out


def f1_cases():
    # r->[x,y], x->c, c->d, y->d with c a cached experiment (known finding F1), both listing orders
    out = []
    for order in ([1, 2], [2, 1]):
        for jobs in (1, 2):
            tasks = [Task(2, list(order), "command", True), Task(2, [3], "command", True), Task(2, [4], "command", True),
                     Task(2, [4], "experiment", True, sr=False), Task(2, [], "command", True)]
            out.append(Case(tasks, jobs=jobs, picks=[0, 0, 0, 0]))
            out.append(Case(tasks, jobs=jobs, picks=[0, 0, 0, 0], rcs=[0, 0, 0, 0, 3]))
    return out


def launch_fail_family(rng, count):
    """independent parallelizable tasks under one root, some of which cannot be launched (OSError at spawn):
    slots peeked for a failed launch must not be lost or duplicated"""
    out = []
    for _ in range(count):
        n = rng.randint(4, 8)
        tasks = [Task(2, list(range(1, n + 1)), rng.choice(["group", "command", "combine"]), False)]
        for i in range(n):
            tasks.append(Task(2, [], rng.choice(["command", "experiment"]), rng.random() < 0.85, pkg=rng.choice(["", "p0"])))
        rng.shuffle(tasks[0].deps)
        lf = rng.sample(range(1, n + 1), rng.randint(1, 2))
        out.append(Case(tasks, jobs=rng.choice([2, 2, 3, 4]), stop=rng.random() < 0.15, launch_fail=lf,
                        rcs=[0] * (n + 1), picks=[rng.randrange(4) for _ in range(n + 2)]))
    return out


def gen_for(prop, chk, tier):
    rng = chk.rng
    n = {"quick": 500, "thorough": 6000}[tier]
    cases = load_corpus(prop) + diamonds() + f1_cases()
    if prop == "C14":
        small = 2 if tier == "quick" else 3
        for tasks in all_small_graphs(small):
            for root in range(small):
                cases.append(Case([Task(t.status, t.deps, t.kind) for t in tasks], root=root))
        cases += [rand_case(rng, nmax=8, defects=0.7, fail=0.0, stop=0.0) for _ in range(n)]
    elif prop == "C03":
        cases += launch_fail_family(rng, n // 10)
        cases += [rand_case(rng, fail=0.85, stop=0.4) for _ in range(n)]
    elif prop == "C04":
        cs = [rand_case(rng, fail=0.2) for _ in range(n)]
        for c in cs:
            c.jobs = rng.choice([1, 2, 2, 3, 3, 4])
            for t in c.tasks:
                if t.kind in ("command", "experiment"):
                    t.par = rng.random() < 0.7
        cases += cs
        cases += launch_fail_family(rng, n // 4)
    elif prop == "C09":
        cases += launch_fail_family(rng, n // 10)
        cases += [rand_case(rng) for _ in range(n)]
    else:
        cases += [rand_case(rng) for _ in range(n)]
    return cases


def real_failures(chk, rounds):
    """real children (the fake process layer cannot show how a signal death is reported): a task that
    exits non-zero, one that is killed by a signal, their dependents and an independent task"""
    import os
    import implrun
    from implrun import strip_ansi

    for r in range(rounds):
        how = ["exit 3", "kill -KILL $$", "kill -SEGV $$", "kill -TERM $$"][r % 4]
        jobs = [None, "2"][r % 2]
        par = jobs is not None
        mark = "touch $COND_OUT/ran"
        cond = (
            'run_experiment(name="k", run=%r, parallelizable=%s)\n' % (how, par)
            + 'run_command(name="dep", run=%r, deps=[":k"], parallelizable=%s)\n' % (mark, par)
            + 'run_command(name="ind", run=%r, parallelizable=%s)\n' % (mark, par)
            + 'run_command(name="top", run=%r, deps=[":dep", ":ind"])\n' % mark
        )
        root = implrun.make_project({"COND": cond})
        argv = ["run", "//:top"] + (["-j", jobs] if jobs else [])
        res = implrun.run_cond(argv, root, timeout=60)
        chk.coverage["evaluations"] += 1
        text = strip_ansi(res.out + res.err)
        ran = {n: os.path.exists(os.path.join(root, "cond-out", n + ".task", "ran")) for n in ("dep", "ind", "top")}
        rows = implrun.index_rows(root)
        failed_sec = text.split("Failed task(s):")[-1].split("Skipped task(s)")[0] if "Failed task(s):" in text else ""
        skipped_sec = text.split("Skipped task(s)")[-1] if "Skipped task(s)" in text else ""
        problems = []
        if res.code != 1:
            problems.append("cond run exited %s although task //:k failed (%s)" % (res.code, how))
        if ran["dep"] or ran["top"]:
            problems.append("dependents of the failed task were executed: %s" % ran)
        if not ran["ind"]:
            problems.append("the independent task //:ind was not executed")
        if "//:k" not in failed_sec or "//:dep" not in skipped_sec or "//:top" not in skipped_sec:
            problems.append("the report does not name //:k as failed and //:dep, //:top as skipped: %r" % text[-400:])
        if rows:
            problems.append("a version was recorded for the failed task: %s" % rows)
        for msg in problems:
            chk.violation("impl-violation", "real processes, task fails by `%s`%s: %s" % (how, " (-j2)" if par else "", msg),
                          {"input": {"cond": cond, "argv": argv}, "impl_observation": {"exit": res.code, "output": text[-1500:], "ran": ran, "rows": rows}, "oracle_verdict": msg},
                          match_key={"real": how}, size=4)
        if not problems:
            chk.coverage["traces_validated_against_impl"] += 1
        chk.count("real", how)


def run_prop(prop, tier, seed, replay=None, extra_oracles=()):
    chk = Check(prop, tier, seed)
    chk.build_proofs(MODEL_TARGETS)
    oracles = [prop] + list(extra_oracles)
    if replay is not None:
        replay_case(chk, replay, oracles)
        return chk.finish()
    chk.coverage["rule"] = RULES["C01"].replace("C01", prop)
    cases = gen_for(prop, chk, tier)
    if prop == "C04":
        # a nested invocation: cond runs inside a task of an outer `cond run -jN`, so COND_SLOT is inherited
        import os

        saved = os.environ.get("COND_SLOT")
        os.environ["COND_SLOT"] = "9"
        try:
            run_cases(chk, cases[: len(cases) // 4], oracles)
        finally:
            if saved is None:
                os.environ.pop("COND_SLOT", None)
            else:
                os.environ["COND_SLOT"] = saved
        cases = cases[len(cases) // 4:]
    run_cases(chk, cases, oracles)
    if prop == "C03":
        real_failures(chk, 4 if tier == "quick" else 24)
    if prop == "C09":
        from reaper_util import reaper_scenarios

        reaper_scenarios(chk, tier)
    if tier == "thorough":
        chk.run_coqchk()
    return chk.finish()
