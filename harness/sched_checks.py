"""The scheduling properties' check entry points (thin wrappers over sched_engine)."""
import itertools

from common import Check
from sched_engine import (rand_case, all_small_graphs, run_cases, replay_case, load_corpus, force_diamond, rand_dag)
from sched_util import Case, Task

MODEL_TARGETS = ["Model/RunCase.vo", "Lib/Cmp.vo"]

RULES = {
    "C01": "corpus, then all diamonds a->[b,d], b->d in both listing orders x kinds x jobs, then seeded random DAGs (<= 9 tasks, forced shared "
           "dependencies, four task kinds, cached experiments, --again, --stop-early, failures, jobs 1-4, random completion orders); each run on the real "
           "TaskIndex/ExecutionPlanner/Executor under the fake process layer and on the Coq model; non-trivial = at least 3 tasks",
}


def diamonds():
    out = []
    for order in ([1, 2], [2, 1]):
        for kd in ("command", "experiment"):
            for kb in ("command", "experiment", "combine", "group"):
                for jobs in (1, 2):
                    for par in (False, True):
                        for again in (False, True):
                            tasks = [Task(2, list(order), "command", par), Task(2, [2], kb, par), Task(2, [], kd, par)]
                            out.append(Case(tasks, jobs=jobs, again=again, picks=[1, 0, 0]))
                            if kd == "experiment":
                                tasks2 = [Task(2, list(order), "command", par), Task(2, [2], kb, par), Task(2, [], kd, par, sr=False)]
                                out.append(Case(tasks2, jobs=jobs, again=again, picks=[1, 0, 0]))
    return out


def f1_cases():
    # r->[x,y], x->c, c->d, y->d with c a cached experiment (known finding F1), both listing orders
    out = []
    for order in ([1, 2], [2, 1]):
        for jobs in (1, 2):
            tasks = [Task(2, list(order), "command", True), Task(2, [3], "command", True), Task(2, [4], "command", True),
                     Task(2, [4], "experiment", True, sr=False), Task(2, [], "command", True)]
            out.append(Case(tasks, jobs=jobs, picks=[0, 0, 0, 0]))
            out.append(Case(tasks, jobs=jobs, picks=[0, 0, 0, 0], rcs=[0, 0, 0, 0, 3]))
    return out


def gen_for(prop, chk, tier):
    rng = chk.rng
    n = {"quick": 500, "thorough": 6000}[tier]
    cases = load_corpus(prop) + diamonds() + f1_cases()
    if prop == "C14":
        small = 2 if tier == "quick" else 3
        for tasks in all_small_graphs(small):
            for root in range(small):
                cases.append(Case([Task(t.status, t.deps, t.kind) for t in tasks], root=root))
        cases += [rand_case(rng, nmax=8, defects=0.7, fail=0.0, stop=0.0) for _ in range(n)]
    elif prop == "C03":
        cases += [rand_case(rng, fail=0.85, stop=0.4) for _ in range(n)]
    elif prop == "C04":
        cs = [rand_case(rng, fail=0.2) for _ in range(n)]
        for c in cs:
            c.jobs = rng.choice([1, 2, 2, 3, 3, 4])
            for t in c.tasks:
                if t.kind in ("command", "experiment"):
                    t.par = rng.random() < 0.7
        cases += cs
    else:
        cases += [rand_case(rng) for _ in range(n)]
    return cases


def run_prop(prop, tier, seed, replay=None, extra_oracles=()):
    chk = Check(prop, tier, seed)
    chk.build_proofs(MODEL_TARGETS)
    oracles = [prop] + list(extra_oracles)
    if replay is not None:
        replay_case(chk, replay, oracles)
        return chk.finish()
    chk.coverage["rule"] = RULES["C01"].replace("C01", prop)
    run_cases(chk, gen_for(prop, chk, tier), oracles)
    if tier == "thorough":
        chk.run_coqchk()
    return chk.finish()
