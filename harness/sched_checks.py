"""The scheduling properties' check entry points (thin wrappers over sched_engine)."""
import itertools

from common import Check
from sched_engine import (rand_case, all_small_graphs, run_cases, replay_case, load_corpus, force_diamond, rand_dag)
from sched_util import Case, Task

MODEL_TARGETS = ["Model/RunCase.vo", "Lib/Cmp.vo"]

RULES = {
    "C01": "corpus, then all diamonds a->[b,d], b->d in both listing orders x kinds x jobs, then seeded random DAGs (<= 9 tasks, forced shared "
           "dependencies, four task kinds, cached experiments, --again, --stop-early, failures, jobs 1-4, random completion orders); each run on the real "
           "TaskIndex/ExecutionPlanner/Executor under the fake process layer and on the Coq model; non-trivial = at least 3 tasks",
}


def diamonds():
    out = []
    for order in ([1, 2], [2, 1]):
        for kd in ("command", "experiment"):
            for kb in ("command", "experiment", "combine", "group"):
                for jobs in (1, 2):
                    for par in (False, True):
                        for again in (False, True):
                            tasks = [Task(2, list(order), "command", par), Task(2, [2], kb, par), Task(2, [], kd, par)]
                            out.append(Case(tasks, jobs=jobs, again=again, picks=[1, 0, 0]))
                            if kd == "experiment":
                                tasks2 = [Task(2, list(order), "command", par), Task(2, [2], kb, par), Task(2, [], kd, par, sr=False)]
                                out.append(Case(tasks2, jobs=jobs, again=again, picks=[1, 0, 0]))
    return out


def f1_cases():
    # r->[x,y], x->c, c->d, y->d with c a cached experiment (known finding F1), both listing orders
    out = []
    for order in ([1, 2], [2, 1]):
        for jobs in (1, 2):
            tasks = [Task(2, list(order), "command", True), Task(2, [3], "command", True), Task(2, [4], "command", True),
                     Task(2, [4], "experiment", True, sr=False), Task(2, [], "command", True)]
            out.append(Case(tasks, jobs=jobs, picks=[0, 0, 0, 0]))
            out.append(Case(tasks, jobs=jobs, picks=[0, 0, 0, 0], rcs=[0, 0, 0, 0, 3]))
    return out


def launch_fail_family(rng, count):
    """independent parallelizable tasks under one root, some of which cannot be launched (OSError at spawn):
    slots peeked for a failed launch must not be lost or duplicated"""
    out = []
    for _ in range(count):
        n = rng.randint(4, 8)
        tasks = [Task(2, list(range(1, n + 1)), rng.choice(["group", "command", "combine"]), False)]
        for i in range(n):
            tasks.append(Task(2, [], rng.choice(["command", "experiment"]), rng.random() < 0.85, pkg=rng.choice(["", "p0"])))
        rng.shuffle(tasks[0].deps)
        lf = rng.sample(range(1, n + 1), rng.randint(1, 2))
        out.append(Case(tasks, jobs=rng.choice([2, 2, 3, 4]), stop=rng.random() < 0.15, launch_fail=lf,
                        rcs=[0] * (n + 1), picks=[rng.randrange(4) for _ in range(n + 2)]))
    return out


def skip_gate_family():
    """a failing task whose dependent must be SKIPPED while other tasks are in flight and others are ready: the launch gate
    has to be re-evaluated after a skip (a sequential task must not start next to a running parallel one, and vice versa).
    Exhaustive over the parallelizable flags of the four leaves, two listing orders, jobs 2-3 and three completion orders."""
    out = []
    for flags in itertools.product((False, True), repeat=4):
        for order in ([1, 2, 3, 4], [4, 3, 2, 1], [2, 3, 4, 1]):
            for jobs in (2, 3):
                for picks in ([1, 0, 0, 0, 0], [0, 0, 0, 0, 0], [1, 1, 0, 0, 0]):
                    for chain in (False, True):
                        tasks = [Task(2, list(order) + ([5] if chain else []), "group", False),
                                 Task(2, [], "command", flags[0]),            # long
                                 Task(2, [], "experiment", flags[1]),         # bad (fails)
                                 Task(2, [2], "command", flags[2]),           # dependent of bad: skipped
                                 Task(2, [], "command", flags[3])]            # ready, independent
                        if chain:
                            tasks.append(Task(2, [3], "command", flags[2]))   # second-level dependent: skipped too
                        out.append(Case(tasks, jobs=jobs, rcs=[0, 0, 3, 0, 0, 0][:len(tasks)], picks=list(picks)))
    return out


def stop_batch_family():
    """--stop-early when the failing task's exit is reaped together with other exits (one SIGCHLD): the tasks that are
    still running -- whichever was launched before or after the ones already gone -- must all be sent SIGTERM.
    Exhaustive over which of four parallel leaves fails, how many further exits share the batch, and three pick patterns."""
    out = []
    for failing in (1, 2, 3, 4):
        for extra in (1, 2):
            for picks in ([0], [1], [2], [3]):
                for jobs in (4, 3):
                    tasks = [Task(2, [1, 2, 3, 4], "group", False)] + [Task(2, [], "command" if i % 2 else "experiment", True) for i in range(4)]
                    rcs = [0, 0, 0, 0, 0]
                    rcs[failing] = 7
                    out.append(Case(tasks, jobs=jobs, stop=True, rcs=rcs, picks=list(picks) + [0, 0, 0], batches=[extra, 0, 0, 0]))
    return out


def gen_for(prop, chk, tier):
    rng = chk.rng
    n = {"quick": 500, "thorough": 6000}[tier]
    cases = load_corpus(prop) + diamonds() + f1_cases()
    if prop == "C14":
        # every digraph on 2 names (+ an undefined one), every listing order, every root; thorough adds a stride through
        # the ~275 000 digraphs on 3 names (x 3 roots), which are too many to run one by one
        for tasks in all_small_graphs(2):
            for root in range(2):
                cases.append(Case([Task(t.status, t.deps, t.kind) for t in tasks], root=root))
        if tier == "thorough":
            for k, tasks in enumerate(all_small_graphs(3)):
                if k % 37 == 0:
                    cases.append(Case([Task(t.status, t.deps, t.kind) for t in tasks], root=k % 3))
        cases += [rand_case(rng, nmax=8, defects=0.7, fail=0.0, stop=0.0) for _ in range(n)]
    elif prop == "C03":
        cases += launch_fail_family(rng, n // 10)
        sg = skip_gate_family()
        cases += sg if tier == "thorough" else sg[::4]
        cases += stop_batch_family()
        cases += [rand_case(rng, fail=0.85, stop=0.4) for _ in range(n)]
    elif prop == "C04":
        cs = [rand_case(rng, fail=0.2) for _ in range(n)]
        for c in cs:
            c.jobs = rng.choice([1, 2, 2, 3, 3, 4])
            for t in c.tasks:
                if t.kind in ("command", "experiment"):
                    t.par = rng.random() < 0.7
        cases += cs
        cases += launch_fail_family(rng, n // 4)
        cases += skip_gate_family()
    elif prop == "C09":
        cases += launch_fail_family(rng, n // 10)
        cases += [rand_case(rng) for _ in range(n)]
    else:
        cases += [rand_case(rng) for _ in range(n)]
        # projects with a defect (cycle, undefined / malformed task, the same task listed twice under two spellings):
        # nothing may be planned or executed for them
        cases += [rand_case(rng, nmax=7, defects=1.0, fail=0.0) for _ in range(n // 8)]
    return cases


def real_failures(chk, rounds):
    """real children (the fake process layer cannot show how a signal death is reported): a task that
    exits non-zero, one that is killed by a signal, their dependents and an independent task"""
    import os
    import implrun
    from implrun import strip_ansi

    for r in range(rounds):
        # the last two: the task removes its own output directory (so that nothing can be recorded into it afterwards)
        # and then fails / succeeds -- with options declared, so that Conductor has something to write there (D31)
        # `kill -TERM 0`: the task signals its whole process group (what `trap 'kill 0' EXIT` does) -- which must not contain
        # Conductor (seed C03/i: a task without a slot was started in Conductor's own session)
        how = ["exit 3 #", "kill -KILL $$ #", "kill -SEGV $$ #", "kill -TERM $$ #", 'rm -rf "$COND_OUT"; exit 3 #', 'rm -rf "$COND_OUT"; exit 0 #',
               "sleep 5 & kill -TERM 0 #", "sleep 5 & kill -TERM 0 #"][r % 8]
        jobs = [None, "2"][r % 2]
        par = jobs is not None
        mark = "touch $COND_OUT/ran"
        cond = (
            'run_experiment(name="k", run=%r, parallelizable=%s, options={"x": 1})\n' % (how, par)
            + 'run_command(name="dep", run=%r, deps=[":k"], parallelizable=%s)\n' % (mark, par)
            + 'run_command(name="ind", run=%r, parallelizable=%s)\n' % (mark, par)
            + 'run_command(name="top", run=%r, deps=[":dep", ":ind"])\n' % mark
        )
        root = implrun.make_project({"COND": cond})
        argv = ["run", "//:top"] + (["-j", jobs] if jobs else [])

        def late_copier():
            # forced schedule: the threads that copy a sequential task's output are scheduled late -- after the task has
            # already removed its output directory (D33: the copier opened the log file itself, so it failed there and
            # the error escaped from finish_execution)
            import time as _t
            import conductor.utils.tee as _tee

            real = _tee.TeeProcessor._tee_pipe_run  # pylint: disable=protected-access

            def delayed(self, *a, **k):
                _t.sleep(0.4)
                return real(self, *a, **k)

            _tee.TeeProcessor._tee_pipe_run = delayed  # pylint: disable=protected-access

        res = implrun.run_cond(argv, root, timeout=60, pre=late_copier if how.startswith("rm -rf") else None)
        chk.coverage["evaluations"] += 1
        text = strip_ansi(res.out + res.err)
        ran = {n: os.path.exists(os.path.join(root, "cond-out", n + ".task", "ran")) for n in ("dep", "ind", "top")}
        rows = implrun.index_rows(root)
        failed_sec = text.split("Failed task(s):")[-1].split("Skipped task(s)")[0] if "Failed task(s):" in text else ""
        skipped_sec = text.split("Skipped task(s)")[-1] if "Skipped task(s)" in text else ""
        problems = []
        if res.code == 0 or res.code < 0:      # the property says non-zero (a negative code = killed by the harness's timeout)
            problems.append("cond run exited %s although task //:k failed (%s)" % (res.code, how))
        if ran["dep"] or ran["top"]:
            problems.append("dependents of the failed task were executed: %s" % ran)
        if not ran["ind"]:
            problems.append("the independent task //:ind was not executed")
        if "//:k" not in failed_sec or "//:dep" not in skipped_sec or "//:top" not in skipped_sec:
            problems.append("the report does not name //:k as failed and //:dep, //:top as skipped: %r" % text[-400:])
        if rows:
            problems.append("a version was recorded for the failed task: %s" % rows)
        for msg in problems:
            chk.violation("impl-violation", "real processes, task fails by `%s`%s: %s" % (how, " (-j2)" if par else "", msg),
                          {"input": {"cond": cond, "argv": argv}, "impl_observation": {"exit": res.code, "output": text[-1500:], "ran": ran, "rows": rows}, "oracle_verdict": msg},
                          match_key={"real": how}, size=4)
        if not problems:
            chk.coverage["traces_validated_against_impl"] += 1
        chk.count("real", how)


def same_relative_name_in_two_packages(chk):
    """Two packages use the SAME relative dependency string (":setup") for their own, different task.  Real runs:
    //a:setup fails, //b:setup succeeds -> //a:run must be skipped (its dependency failed), //b:run must run after
    //b:setup; and with both succeeding, each run must start only after the setup of ITS package has finished.  (The
    scheduling engine names tasks uniquely across packages, so a resolution that is keyed by the bare string went unseen.)"""
    import os
    import implrun
    from implrun import strip_ansi

    for fail_a in (True, False):
        root = implrun.make_project({"COND": 'group(name="all", deps=["//a:run", "//b:run"])\n'})
        log = os.path.join(root, "events.log")
        for pkg, delay, rc in (("a", "0.6", 3 if fail_a else 0), ("b", "0.1", 0)):
            os.makedirs(os.path.join(root, pkg))
            open(os.path.join(root, pkg, "COND"), "w").write(
                'run_command(name="setup", run="echo S %s-setup >> %s; sleep %s; echo E %s-setup >> %s; exit %d", parallelizable=True)\n' % (pkg, log, delay, pkg, log, rc)
                + 'run_command(name="run", run="echo S %s-run >> %s; echo out > $COND_OUT/r", deps=[":setup"], parallelizable=True)\n' % (pkg, log))
        res = implrun.run_cond(["run", "//:all", "-j", "3"], root, timeout=60)
        chk.coverage["evaluations"] += 1
        chk.count("real", "same-relative-name")
        ev = open(log).read().split("\n") if os.path.exists(log) else []
        text = strip_ansi(res.out + res.err)
        problems = []
        for pkg in ("a", "b"):
            failed = pkg == "a" and fail_a
            s_run = ("S %s-run" % pkg) in ev
            if failed and s_run:
                problems.append("//%s:run was started although its dependency //%s:setup exited 3" % (pkg, pkg))
            if not failed:
                if not s_run:
                    problems.append("//%s:run was not executed although //%s:setup succeeded" % (pkg, pkg))
                elif ("E %s-setup" % pkg) not in ev or ev.index("S %s-run" % pkg) < ev.index("E %s-setup" % pkg):
                    problems.append("//%s:run started before //%s:setup had finished (events %r)" % (pkg, pkg, [e for e in ev if e]))
        if (res.code == 0) == fail_a or res.code < 0:      # non-zero exactly when //a:setup fails
            problems.append("cond run exited %s: %r" % (res.code, text[-200:]))
        for msg in problems:
            chk.violation("impl-violation", "two packages with a task `setup` and a dependent `run` (deps=[\":setup\"]), //a:setup %s: %s" % ("fails" if fail_a else "succeeds", msg),
                          {"input": {"scenario": "same-relative-name", "a_setup_fails": fail_a}, "impl_observation": {"events": ev, "exit": res.code, "output": text[-600:]}, "oracle_verdict": msg},
                          match_key={"real": "same-relative-name"}, size=5)
        if not problems:
            chk.coverage["traces_validated_against_impl"] += 1


def included_values_are_per_cond_file(chk):
    """Every COND file is evaluated on its own: a value it gets from `include()` and then extends IN PLACE (`L = BASE;
    L += [...]`, `.append`) is its own business.  Two packages include the same file; //a extends the included list for a
    task of its own (//a:gen), //b uses the list as it is.  Whatever the listing order of the dependencies of the target
    (the loader evaluates the last-listed package first) the run must be accepted, exit 0, and execute exactly the
    target's closure as the COND files declare it: //a:gen (and //c's private ":own") are outside it.  (Seeds C02/j and
    C14/j: the never-filled include cache of TaskLoader was "repaired", so COND files parsed later in the same invocation
    received the SAME objects: tasks gained dependencies they never declared -- executed outside the closure, or
    reported as not found / cyclic / duplicate, depending on the listing order.)"""
    import os
    import implrun
    from implrun import strip_ansi

    root = implrun.make_project({"COND": ""})
    log = os.path.join(root, "events.log")
    cmd = lambda tag: "echo %s >> %s" % (tag, log)
    files = {
        "common.cond": 'BASE_DEPS = ["//:setup"]\nSHARED = {"deps": ["//:setup"]}\n',
        "COND": 'run_command(name="setup", run="%s")\n' % cmd("setup")
                + "".join('group(name="%s", deps=[%s])\n' % (n, ", ".join('"%s"' % d for d in ds)) for n, ds in
                          (("ab", ["//a:x", "//b:y"]), ("ba", ["//b:y", "//a:x"]), ("cb", ["//c:z", "//b:y"]), ("bc", ["//b:y", "//c:z"]),
                           ("db", ["//d:w", "//b:y"]), ("bd", ["//b:y", "//d:w"]))),
        "a/COND": 'include("//common.cond")\nL = BASE_DEPS\nL += ["//a:gen"]\nrun_command(name="gen", run="%s")\nrun_command(name="x", run="%s", deps=["//:setup"])\n' % (cmd("a-gen"), cmd("a-x")),
        "b/COND": 'include("//common.cond")\nrun_command(name="y", run="%s", deps=BASE_DEPS)\nrun_command(name="y2", run="%s", deps=SHARED["deps"])\ngroup(name="ys", deps=[":y", ":y2"])\n' % (cmd("b-y"), cmd("b-y2")),
        "c/COND": 'include("//common.cond")\nBASE_DEPS.append(":own")\nrun_command(name="own", run="%s")\nrun_command(name="z", run="%s", deps=["//:setup"])\n' % (cmd("c-own"), cmd("c-z")),
        "d/COND": 'include("//common.cond")\nSHARED["deps"].insert(0, "//:setup")\nBASE_DEPS.extend(["//:setup"])\nrun_command(name="w", run="%s", deps=["//:setup"])\n' % cmd("d-w"),
    }
    for rel, text in files.items():
        os.makedirs(os.path.dirname(os.path.join(root, rel)), exist_ok=True)
        open(os.path.join(root, rel), "w").write(text)
    expect = {"ab": ["a-x", "b-y", "setup"], "ba": ["a-x", "b-y", "setup"], "cb": ["b-y", "c-z", "setup"], "bc": ["b-y", "c-z", "setup"],
              "db": ["b-y", "d-w", "setup"], "bd": ["b-y", "d-w", "setup"]}
    for target in sorted(expect):
        for extra in ([], ["--check"]):
            if os.path.exists(log):
                os.unlink(log)
            argv = ["run", "//:" + target] + extra
            res = implrun.run_cond(argv, root, timeout=60)
            chk.coverage["evaluations"] += 1
            chk.count("real", "included-values")
            ran = sorted(open(log).read().split()) if os.path.exists(log) else []
            text = strip_ansi(res.out + res.err)
            want = [] if extra else expect[target]
            msg = None
            if res.code != 0:
                msg = "rejected (exit %s) although every COND file describes a complete, acyclic, duplicate-free graph: %s" % (res.code, text.strip()[-200:])
            elif ran != want:
                msg = "executed %r, the closure the COND files declare is %r" % (ran, want)
            if msg:
                chk.violation("impl-violation", "packages that include() the same file, one extends an included list in place; `cond %s`: %s" % (" ".join(argv), msg),
                              {"input": {"scenario": "included-values", "files": files, "argv": argv}, "impl_observation": {"exit": res.code, "ran": ran, "output": text[-500:]}, "oracle_verdict": msg},
                              match_key={"real": "included-values"}, size=4)
            else:
                chk.coverage["traces_validated_against_impl"] += 1
    # the same target through the other package of b (y2 uses the included dict): both orders again
    for argv in (["run", "//b:ys"],):
        if os.path.exists(log):
            os.unlink(log)
        res = implrun.run_cond(argv, root, timeout=60)
        chk.coverage["evaluations"] += 1
        ran = sorted(open(log).read().split()) if os.path.exists(log) else []
        if res.code != 0 or ran != ["b-y", "b-y2", "setup"]:
            chk.violation("impl-violation", "`cond run //b:ys`: exit %s, executed %r" % (res.code, ran),
                          {"input": {"scenario": "included-values", "files": files, "argv": argv}, "impl_observation": {"exit": res.code, "ran": ran}}, match_key={"real": "included-values"}, size=4)
        else:
            chk.coverage["traces_validated_against_impl"] += 1


def names_differing_only_in_case(chk):
    """Task names are case sensitive (the grammar has both cases; the output directories differ): a combine over `:Build`
    and `:build`, and an experiment group with instances `bs-1K` and `bs-1k`, describe complete acyclic graphs without
    duplicates -- they must be accepted (with and without --check), every task runs once, and the combine directory holds
    one entry per dependency.  A real clash (//p:x and //q:x in one combine) is still refused and nothing runs.
    (Seed C14/l: combine compared its dependencies' names case-folded.)"""
    import os
    import implrun
    from implrun import strip_ansi

    root = implrun.make_project({"COND": ""})
    log = os.path.join(root, "events.log")
    cmd = lambda tag: "echo %s >> %s; echo %s > $COND_OUT/who" % (tag, log, tag)
    files = {"COND": 'run_command(name="Build", run="%s")\nrun_command(name="build", run="%s")\n' % (cmd("Build"), cmd("build"))
                     + 'combine(name="both", deps=[":Build", ":build"])\ngroup(name="top", deps=[":both"])\n'
                     + 'run_experiment_group(name="sweep", run="%s", experiments=[ExperimentInstance(name="bs-1K"), ExperimentInstance(name="bs-1k")])\n' % cmd("inst")
                     + 'combine(name="clash", deps=["//p:x", "//q:x"])\n',
             "p/COND": 'run_command(name="x", run="%s")\n' % cmd("px"), "q/COND": 'run_command(name="x", run="%s")\n' % cmd("qx")}
    for rel, text in files.items():
        os.makedirs(os.path.dirname(os.path.join(root, rel)), exist_ok=True)
        open(os.path.join(root, rel), "w").write(text)
    expect = {"both": ["Build", "build"], "top": ["Build", "build"], "sweep": ["inst", "inst"]}
    problems = []
    for target in sorted(expect) + ["clash"]:
        for extra in (["--check"], ["--again"]):
            if os.path.exists(log):
                os.unlink(log)
            argv = ["run", "//:" + target] + extra
            res = implrun.run_cond(argv, root, timeout=60)
            chk.coverage["evaluations"] += 1
            chk.count("real", "case-twins")
            ran = sorted(open(log).read().split()) if os.path.exists(log) else []
            text = strip_ansi(res.out + res.err)
            if target == "clash":
                if res.code == 0 or ran:
                    problems.append((argv, "a combine over //p:x and //q:x (the same name twice) was accepted (exit %s, executed %r)" % (res.code, ran)))
                continue
            want = [] if extra == ["--check"] else expect[target]
            if res.code != 0:
                problems.append((argv, "rejected (exit %s): %s" % (res.code, text.strip()[-160:])))
            elif ran != want:
                problems.append((argv, "executed %r, expected %r" % (ran, want)))
    both = os.path.join(root, "cond-out", "both.task")
    entries = sorted(os.listdir(both)) if os.path.isdir(both) else None
    if not problems and entries != ["Build", "build"]:
        problems.append((["run", "//:both"], "the combine directory holds %r, one entry per dependency is ['Build', 'build']" % (entries,)))
    for argv, msg in problems[:3]:
        chk.violation("impl-violation", "names that differ only in case; `cond %s`: %s" % (" ".join(argv), msg),
                      {"input": {"scenario": "case-twins", "files": files, "argv": argv}, "oracle_verdict": msg}, match_key={"real": "case-twins"}, size=4)
    if not problems:
        chk.coverage["traces_validated_against_impl"] += 8


def dead_stdout_keeps_tasks_exclusive(chk):
    """"--jobs bound, exclusive sequential tasks": two sequential experiments under a group, JOBS = 1, while Conductor's own
    stdout is a pipe whose reader has exited (`cond run ... | head -1`) and block-buffered (PYTHONUNBUFFERED unset): whatever
    becomes of Conductor's own messages, at no time may two task processes be alive.  Control: stdout to a file.  (Seed
    C04/k: a flush of Conductor's stream was added after the task had been spawned; its failure was taken for a failed
    launch, the running process was forgotten and the next task started beside it.)"""
    import os
    import subprocess
    import implrun
    from common import PY, SRC

    for mode in ("file", "closed-pipe"):
        root = implrun.make_project({"COND": ""})
        log = os.path.join(root, "events.log")
        probe = "echo S $COND_NAME >> %s; sleep 0.7; echo E $COND_NAME >> %s" % (log, log)
        open(os.path.join(root, "COND"), "w").write('run_experiment(name="p1", run="%s")\nrun_experiment(name="p2", run="%s")\ngroup(name="both", deps=[":p1", ":p2"])\n' % (probe, probe))
        env = dict(os.environ, PYTHONPATH=SRC)
        env.pop("PYTHONUNBUFFERED", None)
        if mode == "file":
            with open(os.path.join(root, "stdout.txt"), "wb") as fh:
                p = subprocess.Popen([PY, "-m", "conductor", "run", "//:both"], cwd=root, env=env, stdout=fh, stderr=subprocess.PIPE)
                _o, err = p.communicate(timeout=60)
        else:
            rfd, wfd = os.pipe()
            os.close(rfd)
            p = subprocess.Popen([PY, "-m", "conductor", "run", "//:both"], cwd=root, env=env, stdout=wfd, stderr=subprocess.PIPE)
            os.close(wfd)
            try:
                _o, err = p.communicate(timeout=60)
            except subprocess.TimeoutExpired:
                p.kill()
                _o, err = p.communicate()
        import time

        time.sleep(1.0)            # a forgotten task may still be writing its end event
        evs = [l.split() for l in open(log).read().splitlines()] if os.path.exists(log) else []
        chk.coverage["evaluations"] += 1
        chk.count("real", "dead stdout (%s)" % mode)
        running, worst = set(), 0
        for ev in evs:
            if ev[0] == "S":
                running.add(ev[1])
                worst = max(worst, len(running))
            else:
                running.discard(ev[1])
        msg = None
        if worst > 1:
            msg = "%d task processes were alive at once under JOBS=1 (events %r)" % (worst, evs)
        elif mode == "file" and (p.returncode != 0 or sorted(e[1] for e in evs if e[0] == "S") != ["p1", "p2"]):
            msg = "harness: the control run (stdout to a file) exited %s with events %r" % (p.returncode, evs)
        if msg:
            chk.violation("impl-violation", "two sequential experiments, Conductor's stdout %s: %s" % ("goes to a file" if mode == "file" else "is a pipe nobody reads", msg),
                          {"input": {"scenario": "dead-stdout", "mode": mode}, "impl_observation": {"exit": p.returncode, "events": evs, "stderr": err[-300:].decode("utf-8", "replace")}, "oracle_verdict": msg},
                          match_key={"real": "dead-stdout"}, size=3)
        else:
            chk.coverage["traces_validated_against_impl"] += 1


def unlaunchable_tasks(chk):
    """a task that CANNOT BE LAUNCHED -- the operating system refuses the command line (an embedded NUL byte, a
    character that cannot be encoded for the operating system), or a combine task's output path is taken by a regular file -- is a failed task like
    any other: its dependents are skipped, independent tasks run, a task already running is not abandoned, the failure
    is named in the report and the exit status is non-zero.  (D34: such errors are not ConductorErrors; they escaped the
    executor as tracebacks, the run stopped there and running tasks were left behind.)"""
    import os
    import time
    import implrun
    from implrun import strip_ansi

    variants = {
        "NUL byte in the command": 'run_command(name="k", run="echo a\\0b", parallelizable=True)\n',
        "unencodable character in the command": 'run_command(name="k", run="echo \\ud800", parallelizable=True)\n',
        "combine output path is a regular file": 'run_command(name="pre", run="echo x > $COND_OUT/../k.task", parallelizable=True)\ncombine(name="k", deps=[":pre"])\n',
    }
    import shutil
    import subprocess
    from common import PY, SRC

    setpriv = shutil.which("setpriv")
    if os.geteuid() == 0 and setpriv is not None:
        # (D40) as an ordinary user would see it: the combine task's output directory exists and cannot be written
        variants["combine output directory is not writable"] = 'run_command(name="pre", run="echo x > $COND_OUT/f", parallelizable=True)\ncombine(name="k", deps=[":pre"])\n'
    for name, kdef in variants.items():
        root = implrun.make_project({"COND": ""})
        cond = (kdef
                + 'run_command(name="slow", run="sleep 1.5; echo done > $COND_OUT/ran", parallelizable=True)\n'
                + 'run_command(name="dep", run="touch $COND_OUT/ran", deps=[":k"], parallelizable=True)\n'
                + 'run_command(name="ind", run="touch $COND_OUT/ran")\n'
                + 'group(name="top", deps=[":slow", ":dep", ":ind"])\n')
        open(os.path.join(root, "COND"), "w").write(cond)
        if name.endswith("not writable"):
            os.makedirs(os.path.join(root, "cond-out", "k.task"))
            os.chmod(os.path.join(root, "cond-out", "k.task"), 0o555)
            drop = "-dac_override,-dac_read_search,-fowner"
            p = subprocess.run([setpriv, "--bounding-set=" + drop, "--inh-caps=" + drop, PY, "-m", "conductor", "run", "//:top", "-j", "2"], cwd=root,
                               env=dict(os.environ, PYTHONPATH=SRC), capture_output=True, text=True, timeout=60, check=False)
            res = implrun.Result(p.returncode, p.stdout, p.stderr)
            os.chmod(os.path.join(root, "cond-out", "k.task"), 0o755)
        else:
            res = implrun.run_cond(["run", "//:top", "-j", "2"], root, timeout=60)
        t_exit = time.time()
        chk.coverage["evaluations"] += 1
        chk.count("real", "unlaunchable: " + name)
        text = strip_ansi(res.out + res.err)
        ran = {n: os.path.exists(os.path.join(root, "cond-out", n + ".task", "ran")) for n in ("slow", "dep", "ind")}
        problems = []
        if res.code == 0 or res.code < 0:
            problems.append("cond run exited %s" % res.code)
        if "Traceback" in text:
            problems.append("the run ended in a traceback: %r" % text[-300:])
        if ran["dep"]:
            problems.append("the dependent //:dep of the unlaunchable task was executed")
        if not ran["ind"]:
            problems.append("the independent task //:ind was not executed")
        if not ran["slow"]:
            # was it abandoned (still running after cond returned)?
            time.sleep(2.0)
            late = os.path.exists(os.path.join(root, "cond-out", "slow.task", "ran"))
            problems.append("cond run returned while //:slow had not finished (%s)" % ("it finished %.1f s later: left running, neither awaited nor terminated" % (time.time() - t_exit) if late else "it never finished"))
        for msg in problems:
            chk.violation("impl-violation", "real processes, a task that cannot be launched (%s): %s" % (name, msg),
                          {"input": {"scenario": "unlaunchable", "variant": name, "cond": cond, "argv": ["run", "//:top", "-j", "2"]}, "impl_observation": {"exit": res.code, "output": text[-1200:], "ran": ran}, "oracle_verdict": msg},
                          match_key={"real": "unlaunchable"}, size=5)
        if not problems:
            chk.coverage["traces_validated_against_impl"] += 1


def failures_do_not_exhaust_descriptors(chk):
    """"every other needed task still runs": many tasks that fail -- with a non-zero status, or because they cannot be
    launched -- must not use up the process's file descriptors, whatever their number.  The run gets room for 40 more open
    files than it starts with (RLIMIT_NOFILE; a few hundred failures do the same under the usual 1024).  (D36: the log files opened for a task
    whose launch failed, and the pipes of a sequential task that exited non-zero, stayed open until the end of the run --
    regressions of the repairs D33 and of the kept Popen object; the independent task then failed with EMFILE.)"""
    import os
    import implrun
    from implrun import strip_ansi

    def limit():
        # 40 descriptors above what this process already holds (the forked child inherits the harness's own open files)
        import resource
        top = max(int(x) for x in os.listdir("/proc/self/fd")) + 1
        resource.setrlimit(resource.RLIMIT_NOFILE, (top + 40, top + 40))

    variants = {
        "60 tasks exit non-zero (sequential, teed)": ('run_experiment(name="bad%d", run="exit 3")', []),
        "40 tasks cannot be launched (NUL byte)": ('run_experiment(name="bad%d", run="echo a\\0b")', []),
        "40 tasks exit non-zero (-j 3)": ('run_experiment(name="bad%d", run="exit 3", parallelizable=True)', ["-j", "3"]),
    }
    for name, (tmpl, extra) in variants.items():
        n = 60 if name.startswith("60") else 40
        lines = [tmpl % i for i in range(n)]
        lines.append('run_experiment(name="good", run="echo good > $COND_OUT/ran")')
        lines.append('combine(name="all", deps=[%s])' % ", ".join(['":bad%d"' % i for i in range(n)] + ['":good"']))
        cond = "\n".join(lines) + "\n"
        root = implrun.make_project({"COND": cond})
        res = implrun.run_cond(["run", "//:all"] + extra, root, timeout=120, pre=limit)
        chk.coverage["evaluations"] += 1
        chk.count("real", "descriptors: " + name)
        text = strip_ansi(res.out + res.err)
        co = os.path.join(root, "cond-out")
        good = [d for d in (os.listdir(co) if os.path.isdir(co) else []) if d.startswith("good.task.") and os.path.exists(os.path.join(co, d, "ran"))]
        problems = []
        if "HARNESS-PRE-HOOK-FAILED" in res.err:
            chk.violation("tie-broken", "the harness could not lower RLIMIT_NOFILE: %s" % res.err[-200:], {"input": {"scenario": "descriptors"}}, found_input=False)
            continue
        if res.code == 0 or res.code < 0:
            problems.append("cond run exited %s" % res.code)
        if "Traceback" in text:
            problems.append("the run ended in a traceback: %r" % text[-300:])
        if "Too many open files" in text or "Errno 24" in text:
            problems.append("a task failed with EMFILE (too many open files)")
        if not good:
            problems.append("the independent task //:good was not executed")
        if len(implrun.index_rows(root)) != 1:
            problems.append("recorded versions %s (expected exactly the one of //:good)" % [r[0] for r in implrun.index_rows(root)])
        for msg in problems:
            chk.violation("impl-violation", "real processes, many failing tasks with room for 40 more open files (%s): %s" % (name, msg),
                          {"input": {"scenario": "descriptors", "variant": name, "cond": cond[:400] + " ...", "argv": ["run", "//:all"] + extra, "rlimit_nofile": "open descriptors at start + 40"},
                           "impl_observation": {"exit": res.code, "output": text[-1200:]}, "oracle_verdict": msg},
                          match_key={"real": "descriptors"}, size=5)
        if not problems:
            chk.coverage["traces_validated_against_impl"] += 1


def twin_names_slots(chk):
    """"tasks running concurrently always carry distinct COND_SLOT values": two parallelizable tasks with the SAME NAME in
    different packages (//a:run, //b:run) run together under --jobs 2 while a third waits for a slot; whichever twin started
    first finishes first, and the third task starts while the other twin still runs: it must get the slot that was given
    back, not the one the running twin holds.  (Seed C04/i: the executor remembered the slot of a running task under its
    NAME, so the twins shared one entry.)"""
    import os
    import implrun
    from implrun import strip_ansi

    root = implrun.make_project({"COND": ""})
    log = os.path.join(root, "events.log")
    lock = os.path.join(root, "first.lock")
    twin = ('echo S %%s ${COND_SLOT-unset} >> %s; if mkdir %s 2>/dev/null; then sleep 0.4; else sleep 2.0; fi; echo E %%s >> %s' % (log, lock, log))
    last = 'echo S last ${COND_SLOT-unset} >> %s; sleep 0.3; echo E last >> %s' % (log, log)
    files = {"a/COND": 'run_command(name="run", run="%s", parallelizable=True)\n' % (twin % ("a", "a")),
             "b/COND": 'run_command(name="run", run="%s", parallelizable=True)\n' % (twin % ("b", "b")),
             "COND": 'run_command(name="last", run="%s", parallelizable=True)\ngroup(name="all", deps=["//a:run", "//b:run", ":last"])\n' % last}
    for rel, text in files.items():
        os.makedirs(os.path.dirname(os.path.join(root, rel)), exist_ok=True)
        open(os.path.join(root, rel), "w").write(text)
    res = implrun.run_cond(["run", "//:all", "-j", "2"], root, timeout=60)
    chk.coverage["evaluations"] += 1
    chk.count("real-slots", "twin names, jobs=2")
    text = strip_ansi(res.out + res.err)
    problems = []
    if res.code != 0:
        problems.append("harness: cond run exited %s: %s" % (res.code, text[-300:]))
    try:
        evs = [l.split() for l in open(log).read().splitlines()]
    except OSError:
        evs = []
    running = {}
    for ev in evs:
        if ev[0] == "S":
            tag, slot = ev[1], ev[2]
            if not (slot.isdigit() and 0 <= int(slot) < 2):
                problems.append("parallelizable task %s under --jobs 2 saw COND_SLOT=%s" % (tag, slot))
            elif slot in running.values():
                problems.append("COND_SLOT=%s handed to %s while %s still runs with it" % (slot, tag, [t for t, sl in running.items() if sl == slot][0]))
            if len(running) + 1 > 2:
                problems.append("3 tasks running at once under --jobs 2")
            running[tag] = slot
        else:
            running.pop(ev[1], None)
    if res.code == 0 and sorted(e[1] for e in evs if e[0] == "S") != ["a", "b", "last"]:
        problems.append("harness: tasks that ran: %r" % (evs,))
    for msg in problems[:3]:
        chk.violation("impl-violation", "real processes, //a:run and //b:run (same name) in flight with //:last waiting for a slot, --jobs 2: %s" % msg,
                      {"input": {"scenario": "twin-names-slots", "files": files, "argv": ["run", "//:all", "-j", "2"]}, "impl_observation": {"exit": res.code, "events": evs, "output": text[-500:]}, "oracle_verdict": msg},
                      match_key={"real": "twin-names-slots"}, size=3)
    if not problems:
        chk.coverage["traces_validated_against_impl"] += 1


def stop_early_on_a_failure_with_status_0(chk):
    """--stop-early and a failure that is not a non-zero exit status: an experiment removes its own output directory and exits
    0 -- Conductor makes it a failed task (nothing can be recorded, D31 / D38).  That failure must stop the run like any
    other: nothing is started after it has been observed and the task still running is sent SIGTERM.  (Seed C03/j:
    `--stop-early` looked at the return code of the finished process instead of at whether the operation failed.)"""
    import os
    import time
    import implrun
    from implrun import strip_ansi

    root = implrun.make_project({"COND": ""})
    log = os.path.join(root, "events.log")
    cond = ('run_experiment(name="slow", run="echo S slow >> %s; sleep 6; touch %s/slow.done", parallelizable=True)\n' % (log, root)
            + 'run_experiment(name="selfclean", run="echo S selfclean >> %s; while ! grep -q slow %s; do sleep 0.05; done; rm -rf $COND_OUT; echo E selfclean >> %s; exit 0", parallelizable=True)\n' % (log, log, log)
            + 'run_experiment(name="queued", run="echo S queued >> %s; sleep 0.2", parallelizable=True)\n' % log
            + 'group(name="root", deps=[":slow", ":selfclean", ":queued"])\n')
    open(os.path.join(root, "COND"), "w").write(cond)
    t0 = time.time()
    res = implrun.run_cond(["run", "//:root", "--stop-early", "-j", "2"], root, timeout=60)
    took = time.time() - t0
    chk.coverage["evaluations"] += 1
    chk.count("real", "stop-early, failure with status 0")
    text = strip_ansi(res.out + res.err)
    try:
        evs = [l.split() for l in open(log).read().splitlines()]
    except OSError:
        evs = []
    order = [" ".join(e) for e in evs]
    problems = []
    if "S selfclean" not in order or "E selfclean" not in order:
        problems.append("harness: //:selfclean did not run (%r, %s)" % (order, text[-200:]))
    else:
        if res.code == 0 or res.code < 0:
            problems.append("cond run exited %s" % res.code)
        time.sleep(0.3)
        if os.path.exists(os.path.join(root, "slow.done")) or took > 5.0:
            problems.append("//:slow, which was running when the failure was observed, was not terminated (cond run took %.1f s, slow ran to its end: %s)" % (took, os.path.exists(os.path.join(root, "slow.done"))))
        if "S queued" in order and order.index("S queued") > order.index("E selfclean") and "S slow" in order and order.index("S slow") < order.index("E selfclean"):
            # (queued can only have been waiting for a slot if both others had started before)
            problems.append("//:queued was started after the failure of //:selfclean had been observed")
        if implrun.index_rows(root) and any(r[0] == "//:selfclean" for r in implrun.index_rows(root)):
            problems.append("a version was recorded for //:selfclean")
    for msg in problems:
        chk.violation("impl-violation", "real processes, --stop-early -j 2, an experiment fails with exit status 0 (it removed its output directory): %s" % msg,
                      {"input": {"scenario": "stop-early-status-0", "cond": cond, "argv": ["run", "//:root", "--stop-early", "-j", "2"]},
                       "impl_observation": {"exit": res.code, "seconds": round(took, 1), "events": order, "output": text[-800:]}, "oracle_verdict": msg},
                      match_key={"real": "stop-early-status-0"}, size=3)
    if not problems:
        chk.coverage["traces_validated_against_impl"] += 1


def real_slots(chk, rounds):
    """real `cond run` processes over a project that declares its tasks in every available form (run_command,
    run_experiment, the instances of run_experiment_group), with mixed `parallelizable` flags: each task logs its start
    (with the COND_SLOT it sees) and its end; the log is replayed against every clause of C04 using the DECLARED flags."""
    import os
    import implrun
    from implrun import strip_ansi

    rng = chk.rng
    for r in range(rounds):
        root = implrun.make_project({"COND": ""})
        log = os.path.join(root, "events.log")
        script = 'echo S $COND_NAME ${COND_SLOT-unset} >> %s; sleep 0.%d; echo E $COND_NAME >> %s' % (log, rng.randint(1, 3), log)
        flags = {}
        inst = []
        names = ["g-%d" % i for i in range(4)]
        pattern = [True, False, True, False] if r % 2 == 0 else [rng.random() < 0.5 for _ in range(4)]
        if r % 3 == 2:
            pattern = [False, True, False, True]
        for nme, fl in zip(names, pattern):
            flags[nme] = fl
            inst.append('ExperimentInstance(name="%s"%s)' % (nme, ", parallelizable=True" if fl else ("" if rng.random() < 0.5 else ", parallelizable=False")))
        lines = ['run_experiment_group(name="g", run="%s", experiments=[%s])' % (script, ", ".join(inst))]
        for nme, form, fl in (("c-p", "run_command", True), ("c-s", "run_command", False), ("e-p", "run_experiment", True), ("e-s", "run_experiment", False)):
            flags[nme] = fl
            lines.append('%s(name="%s", run="%s"%s)' % (form, nme, script, ", parallelizable=True" if fl else ""))
        order = [":g", ":c-p", ":c-s", ":e-p", ":e-s"]
        rng.shuffle(order)
        lines.append('combine(name="all", deps=[%s])' % ", ".join('"%s"' % d for d in order))
        if r % 2 == 1:
            # a plan with exactly ONE parallelizable task: it still gets a slot under --jobs N > 1
            flags = {"only-p": True, "s1": False, "s2": False}
            lines = ['run_experiment(name="only-p", run="%s", parallelizable=True)' % script, 'run_command(name="s1", run="%s")' % script,
                     'run_command(name="s2", run="%s", deps=[":s1"])' % script, 'combine(name="all", deps=[":s2", ":only-p"])']
        open(os.path.join(root, "COND"), "w").write("\n".join(lines) + "\n")
        jobs = [3, 2, 2, None, 1, 3][r % 6]
        argv = ["run", "//:all"] + (["-j", str(jobs)] if jobs else [])
        res = implrun.run_cond(argv, root, timeout=120)
        chk.coverage["evaluations"] += 1
        chk.count("real-slots", "jobs=%s" % jobs)
        J = jobs or 1
        problems = []
        text = strip_ansi(res.out + res.err)
        if res.code != 0:
            problems.append("harness: cond run exited %s: %s" % (res.code, text[-300:]))
        running = {}
        seen = set()
        try:
            evs = [l.split() for l in open(log).read().splitlines()]
        except OSError:
            evs = []
        for ev in evs:
            if ev[0] == "S":
                nme, slot = ev[1], ev[2]
                seen.add(nme)
                if len(running) + 1 > J:
                    problems.append("%d tasks running at once under --jobs %d" % (len(running) + 1, J))
                if not flags.get(nme, False) and running:
                    problems.append("non-parallelizable task %s started while %s were running" % (nme, sorted(running)))
                for other in running:
                    if not flags.get(other, False):
                        problems.append("task %s started while the non-parallelizable task %s was running" % (nme, other))
                want_slot = flags.get(nme, False) and J > 1
                if want_slot:
                    if not (slot.isdigit() and 0 <= int(slot) < J):
                        problems.append("parallelizable task %s under --jobs %d saw COND_SLOT=%s" % (nme, J, slot))
                    elif slot in running.values():
                        problems.append("COND_SLOT=%s handed to %s while another running task holds it" % (slot, nme))
                elif slot != "unset":
                    problems.append("task %s (declared parallelizable=%s, jobs=%d) saw COND_SLOT=%s, must be unset" % (nme, flags.get(nme), J, slot))
                running[nme] = slot
            else:
                running.pop(ev[1], None)
        if res.code == 0 and seen != set(flags):
            problems.append("harness: tasks that ran %s != declared %s" % (sorted(seen), sorted(flags)))
        for msg in problems[:3]:
            chk.violation("impl-violation", "real processes, tasks declared in every form, %s: %s" % (" ".join(argv), msg),
                          {"input": {"cond": "\n".join(lines), "argv": argv}, "impl_observation": {"events": evs, "exit": res.code}, "oracle_verdict": msg},
                          match_key={"real-slots": msg.split(" ")[0]}, size=9)
        if not problems:
            chk.coverage["traces_validated_against_impl"] += 1


def run_prop(prop, tier, seed, replay=None, extra_oracles=(), extra_part=None, extra_targets=()):
    chk = Check(prop, tier, seed)
    chk.build_proofs(MODEL_TARGETS + list(extra_targets))
    oracles = [prop] + list(extra_oracles)
    if replay is not None:
        replay_case(chk, replay, oracles)
        return chk.finish()
    chk.coverage["rule"] = RULES["C01"].replace("C01", prop)
    cases = gen_for(prop, chk, tier)
    if prop == "C04":
        # a nested invocation: cond runs inside a task of an outer `cond run -jN`, so COND_SLOT is inherited
        import os

        saved = os.environ.get("COND_SLOT")
        os.environ["COND_SLOT"] = "9"
        try:
            run_cases(chk, cases[: len(cases) // 4], oracles)
        finally:
            if saved is None:
                os.environ.pop("COND_SLOT", None)
            else:
                os.environ["COND_SLOT"] = saved
        cases = cases[len(cases) // 4:]
    run_cases(chk, cases, oracles)
    if prop in ("C03", "C01"):
        real_failures(chk, 8 if tier == "quick" else 24)
        from reaper_util import unrelated_child

        for hrc, trc in ((0, 3), (5, 0)):
            msg = unrelated_child(chk, hrc, trc)
            chk.coverage["evaluations"] += 1
            chk.count("real", "unrelated child %d then task %d" % (hrc, trc))
            if msg is not None:
                chk.violation("impl-violation", "real processes: %s" % msg, {"input": {"scenario": "unrelated-child", "helper_rc": hrc, "task_rc": trc}, "impl_observation": msg},
                              match_key={"real": "unrelated-child"}, size=2)
            else:
                chk.coverage["traces_validated_against_impl"] += 1
    if prop in ("C01", "C03", "C14", "C02"):
        same_relative_name_in_two_packages(chk)
    if prop in ("C02", "C14"):
        included_values_are_per_cond_file(chk)
    if prop == "C14":
        names_differing_only_in_case(chk)
    if prop == "C02":
        import c20 as _c20

        _c20.lookalike_identifiers_keep_their_own_versions(chk)    # a version of //:sweep-1 does not make //:sweep_1 cached
    if prop in ("C03", "C09"):
        unlaunchable_tasks(chk)
    if prop == "C03":
        failures_do_not_exhaust_descriptors(chk)
        stop_early_on_a_failure_with_status_0(chk)
    if prop == "C04":
        real_slots(chk, 4 if tier == "quick" else 24)
        twin_names_slots(chk)
        dead_stdout_keeps_tasks_exclusive(chk)
        from reaper_util import stopped_task

        for par in (False, True):     # a stopped task still occupies its slot / still excludes the others
            msg = stopped_task(chk, par)
            chk.coverage["evaluations"] += 1
            chk.count("real", "stopped-task")
            if msg is not None:
                chk.violation("impl-violation", "real processes, a task is stopped and continued (%s): %s" % ("--jobs 2" if par else "sequential", msg),
                              {"input": {"scenario": "stopped-task", "parallel": par}, "impl_observation": msg}, match_key={"real": "stopped-task"}, size=3)
            else:
                chk.coverage["traces_validated_against_impl"] += 1
    if extra_part is not None:
        extra_part(chk, tier)
    if prop == "C09":
        from reaper_util import reaper_scenarios

        reaper_scenarios(chk, tier)
    if tier == "thorough":
        chk.run_coqchk()
    return chk.finish()
