"""Case generators, property oracles and the common run loop of the scheduling checks."""
import itertools
import json
import os

from common import Check, pack, VERIF, HARNESS_FAULT
from sched_util import (Case, Task, KINDS, run_impl, ser_observed, compare_with_model, model_dump,
                        closure, analyse_graph, needed_sets)


# ----------------------------------------------------------------------------- generators
def rand_dag(rng, n, p_edge=0.35, defects=False):
    tasks = []
    pkgs = ["", "", "p0", "p0/q", "p1"]
    for i in range(n):
        deps = [j for j in range(i + 1, n) if rng.random() < p_edge]
        rng.shuffle(deps)
        kind = rng.choice(["command", "command", "experiment", "experiment", "combine", "group"])
        par = rng.random() < 0.5 if kind in ("command", "experiment") else False
        sr = not (kind == "experiment" and rng.random() < 0.3)
        tasks.append(Task(2, deps, kind, par, sr, rng.choice(pkgs)))
    return tasks


def force_diamond(rng, tasks):
    """make sure some a->[b,d], b->d exists, in a random listing order"""
    n = len(tasks)
    if n < 3:
        return
    a, b, d = sorted(rng.sample(range(n), 3))
    for x, y in ((a, b), (a, d), (b, d)):
        if y not in tasks[x].deps:
            tasks[x].deps.append(y)
    if rng.random() < 0.5:
        tasks[a].deps.sort(key=lambda y: (y != b, y != d))   # b first, then d
    else:
        tasks[a].deps.sort(key=lambda y: (y != d, y != b))   # d first, then b


def add_defects(rng, tasks):
    n = len(tasks)
    kind = rng.choice(["cycle", "undef", "bad", "dup", "self", "two"])
    kinds = [kind] if kind != "two" else rng.sample(["cycle", "undef", "bad", "dup"], 2)
    for k in kinds:
        x = rng.randrange(n)
        if k == "cycle" and n >= 2:
            y = rng.randrange(x + 1) if x > 0 else 0
            z = rng.randrange(y, n)
            if y not in tasks[z].deps:
                tasks[z].deps.append(y)
        elif k == "self":
            if x not in tasks[x].deps:
                tasks[x].deps.append(x)
        elif k == "undef":
            tasks.append(Task(0, pkg=rng.choice(["", "p0", "nofile"])))
            tasks[x].deps.insert(rng.randrange(len(tasks[x].deps) + 1), len(tasks) - 1)
        elif k == "bad":
            tasks[rng.randrange(n)].status = 1
        elif k == "dup" and tasks[x].deps:
            d = rng.choice(tasks[x].deps)
            tasks[x].deps.insert(rng.randrange(len(tasks[x].deps) + 1), d)
    # a task that is BOTH malformed and lists a dependency twice: which of the two errors is reported is an accident of
    # the order of checks inside _materialize_raw_task, outside the model's abstraction (Bad | Good deps): keep them apart
    for t in tasks:
        if t.status == 1:
            seen = []
            for d in t.deps:
                if d not in seen:
                    seen.append(d)
            t.deps = seen


def rand_case(rng, nmax=9, defects=0.0, fail=0.3, stop=0.25, again=0.15):
    n = rng.randint(1, nmax)
    tasks = rand_dag(rng, n, p_edge=rng.choice([0.2, 0.35, 0.6]))
    if rng.random() < 0.5:
        force_diamond(rng, tasks)
    if rng.random() < defects:
        add_defects(rng, tasks)
    # combine needs distinct dep names: names are globally distinct (t<i>) so nothing to do
    rcs = [0] * len(tasks)
    lf = []
    if rng.random() < fail:
        for _ in range(rng.randint(1, 2)):
            x = rng.randrange(len(tasks))
            if rng.random() < 0.3:
                lf.append(x)
            elif tasks[x].kind in ("command", "experiment"):
                rcs[x] = rng.choice([1, 2, 9, 15, 127, 255])
    return Case(tasks, root=0, again=rng.random() < again, jobs=rng.choice([1, 1, 2, 2, 3, 4]), stop=rng.random() < stop,
                launch_fail=lf, rcs=rcs, picks=[rng.randrange(6) for _ in range(len(tasks) + 2)],
                batches=[rng.choice([0, 0, 1, 1, 2, 3]) for _ in range(len(tasks) + 2)] if rng.random() < 0.3 else ())


def all_small_graphs(n, undefined=True):
    """every digraph on n defined tasks (+1 undefined name), self-loops allowed, each dep list in every order"""
    names = list(range(n)) + ([n] if undefined else [])
    per_node = []
    for _ in range(n):
        opts = []
        for r in range(len(names) + 1):
            for sub in itertools.permutations(names, r):
                opts.append(list(sub))
        per_node.append(opts)
    for combo in itertools.product(*per_node):
        tasks = [Task(2, list(d), "command") for d in combo]
        if undefined:
            tasks.append(Task(0))
        yield tasks


# ----------------------------------------------------------------------------- oracles
def starts(obs):
    return [e for e in obs.events if e[0] == "start"]


def oracle_c01(case, obs):
    out = []
    ev = obs.events
    executed = {e[1] for e in ev if e[0] == "start"}
    for i, e in enumerate(ev):
        if e[0] != "start":
            continue
        x = e[1]
        for d in closure(case, x) - {x}:
            if d not in executed:
                continue
            fin = [j for j, f in enumerate(ev) if f[0] == "finish" and f[1] == d and f[2] == 0]
            st = [j for j, f in enumerate(ev) if f[0] == "start" and f[1] == d]
            ok = len(st) == 1 and fin and st[0] < fin[0] < i
            if not ok:
                # is there a dependency path x ->* d whose intermediate tasks were all executed?
                direct = d in closure(case, x, through=lambda t: t == x or t in executed)
                key = None if direct else {"shape": "ordered-only-through-cached-task"}
                out.append(("task t%d started at event %d although its %s dependency t%d had not finished successfully before (starts %s, successful finishes %s)"
                            % (x, i, "transitive" if d not in case.tasks[x].deps else "direct", d, st, fin), key))
    return out


def oracle_c02(case, obs):
    out = []
    needed, frontier = needed_sets(case)
    ops = [o[0] for o in obs.plan["ops"]]
    st = [e[1] for e in starts(obs)]
    for t in set(st):
        if st.count(t) > 1:
            out.append(("task t%d was started %d times in one invocation" % (t, st.count(t)), None))
    if len(ops) != len(set(ops)):
        out.append(("a task was lowered to more than one operation: %s" % ops, None))
    if set(ops) != needed:
        out.append(("planned tasks %s differ from the needed set %s" % (sorted(set(ops)), sorted(needed)), None))
    cached = obs.plan["cached"]
    if len(cached) != len(set(cached)) or set(cached) != frontier:
        out.append(("tasks reported as cached %s differ from the frontier of reusable results %s" % (cached, sorted(frontier)), None))
    if set(cached) & set(st):
        out.append(("tasks both reported cached and executed: %s" % sorted(set(cached) & set(st)), None))
    reach = closure(case, case.root)
    if not set(st) <= reach:
        out.append(("tasks outside the closure of the root were executed: %s" % sorted(set(st) - reach), None))
    if obs.plan["num"] != len(needed):
        out.append(("progress total %d differs from the number of tasks to execute %d" % (obs.plan["num"], len(needed)), None))
    if any(b != len(needed) for _, b in obs.progress):
        out.append(("a progress counter shows a total other than %d: %s" % (len(needed), obs.progress), None))
    clean = not case.launch_fail and all(rc == 0 for rc in case.rcs)
    if clean and sorted(st) != sorted(needed):
        out.append(("with no failure every needed task must run exactly once: started %s, needed %s" % (sorted(st), sorted(needed)), None))
    return out


def expected_states(case):
    """final state of every needed task, derived from the dependency graph and the failure oracle"""
    needed, _ = needed_sets(case)
    memo = {}

    def st(x, depth=0):
        if x in memo:
            return memo[x]
        t = case.tasks[x]
        res = "SUCCEEDED"
        for d in t.deps:
            if d in needed and st(d) != "SUCCEEDED":
                res = "SKIPPED"
        if res == "SUCCEEDED":
            if x in case.launch_fail:
                res = "FAILED"
            elif t.kind in ("command", "experiment") and case.rcs[x] != 0:
                res = "FAILED"
        memo[x] = res
        return res

    return {x: st(x) for x in needed}


def oracle_c03(case, obs):
    out = []
    ev = obs.events
    exp = expected_states(case)
    needed, _ = needed_sets(case)
    executed = {e[1] for e in starts(obs)}
    rep = [e for e in ev if e[0] in ("done", "failed")]
    if not case.stop:
        for x, s in exp.items():
            got = obs.final_states.get(x)
            if got != s:
                # literal statement: "every task that transitively depends on a failed task is skipped";
                # the planner drops the edge when the only path runs through a cached experiment (F1)
                key = None
                if s == "SUCCEEDED" or got == "SUCCEEDED":
                    pass
                out.append(("task t%d ended %s but the dependency graph and the failures require %s" % (x, got, s), key))
        # dependents through cached tasks (F1 shape) -- literal reading of the property
        failed_set = {x for x, s in exp.items() if s == "FAILED"}
        for x in needed:
            for f in failed_set:
                if f != x and f in closure(case, x) and obs.final_states.get(x) not in ("SKIPPED",) and exp.get(x) != "SKIPPED":
                    out.append(("task t%d transitively depends on the failed task t%d but was not skipped" % (x, f), {"shape": "ordered-only-through-cached-task"}))
        fl = [x for x in obs.completed if exp.get(x) == "FAILED"]
        sk = [x for x in obs.completed if exp.get(x) == "SKIPPED"]
        any_bad = any(s != "SUCCEEDED" for s in exp.values())
        if any_bad:
            if not rep or rep[0][0] != "failed" or sorted(rep[0][1]) != sorted(fl) or sorted(rep[0][2]) != sorted(sk):
                out.append(("report %s does not name exactly the failed %s and skipped %s tasks" % (rep, fl, sk), None))
            if obs.raised is None:
                out.append(("cond run would exit 0 although some needed task did not succeed", None))
        else:
            if obs.raised is not None or not rep or rep[0][0] != "done":
                out.append(("all needed tasks succeeded but the run did not report success (%s, raised %s)" % (rep, obs.raised), None))
        for x in needed:
            if (x in executed) != (exp[x] != "SKIPPED" and not (exp[x] == "FAILED" and x in case.launch_fail)):
                out.append(("task t%d: started=%s but expected final state %s" % (x, x in executed, exp[x]), None))
    else:
        first_fail = next((i for i, e in enumerate(ev) if (e[0] == "finish" and e[2] != 0) or e[0] == "launchfail"), None)
        if first_fail is not None:
            late = [e for e in ev[first_fail + 1:] if e[0] == "start"]
            if late:
                out.append(("with --stop-early tasks were started after the first failure: %s" % late, None))
            inflight = []
            for e in ev[:first_fail + 1]:
                if e[0] == "start" and case.tasks[e[1]].kind in ("command", "experiment"):
                    inflight.append(e[1])
                elif e[0] == "finish" and e[1] in inflight:
                    inflight.remove(e[1])
            kill = next((e[1] for e in ev if e[0] == "kill"), None)
            if kill is None or sorted(kill) != sorted(inflight):
                out.append(("with --stop-early the tasks still running %s were not exactly the ones sent SIGTERM %s" % (inflight, kill), None))
            if obs.raised is None:
                out.append(("cond run would exit 0 after a failure with --stop-early", None))
        elif obs.raised is not None:
            out.append(("no failure happened but the run raised %s" % obs.raised, None))
    return out


def oracle_c04(case, obs):
    out = []
    inflight = {}
    spawn_slot = {s["task"]: s["slot"] for s in obs.spawns}
    for i, e in enumerate(obs.events):
        if e[0] == "start":
            x = e[1]
            t = case.tasks[x]
            par = t.par and t.kind in ("command", "experiment")
            inflight[x] = e[2]
            procs = [y for y in inflight if case.tasks[y].kind in ("command", "experiment")]
            if len(procs) > case.jobs:
                out.append(("%d task processes running with --jobs %d at event %d" % (len(procs), case.jobs, i), None))
            nonpar = [y for y in inflight if not (case.tasks[y].par and case.tasks[y].kind in ("command", "experiment"))]
            if nonpar and len(inflight) > 1:
                out.append(("non-parallelizable task(s) %s running concurrently with %s at event %d" % (nonpar, sorted(set(inflight) - set(nonpar)), i), None))
            slots = [s for s in inflight.values() if s is not None]
            if len(slots) != len(set(slots)) or any(not 0 <= s < case.jobs for s in slots):
                out.append(("concurrent tasks carry slots %s (jobs=%d) at event %d" % (inflight, case.jobs, i), None))
            if t.kind in ("command", "experiment"):
                want_none = (not par) or case.jobs == 1
                if (spawn_slot.get(x) is None) != want_none:
                    out.append(("task t%d (parallelizable=%s, jobs=%d) was given COND_SLOT=%s" % (x, par, case.jobs, spawn_slot.get(x)), None))
        elif e[0] == "finish":
            inflight.pop(e[1], None)
    return out


def oracle_c09(case, obs):
    out = []
    if obs.deadlock:
        out.append(("the run blocks waiting for a child although none is running (scheduler deadlock): %s" % obs.crash, None))
        return out
    needed, _ = needed_sets(case)
    inflight = set()
    for e in obs.events:
        if e[0] == "start":
            inflight.add(e[1])
        elif e[0] == "finish":
            if e[1] not in inflight:
                out.append(("a completion was attributed to t%d which was not running" % e[1], None))
            inflight.discard(e[1])
    if not case.stop:
        if sorted(obs.completed) != sorted(needed):
            out.append(("completed operations %s are not exactly the needed tasks %s" % (sorted(obs.completed), sorted(needed)), None))
        for x in needed:
            if obs.final_states.get(x) not in ("SUCCEEDED", "FAILED", "SKIPPED"):
                out.append(("task t%d ended without an outcome (%s)" % (x, obs.final_states.get(x)), None))
        if inflight:
            out.append(("run ended with tasks still in flight: %s" % sorted(inflight), None))
    else:
        if len(obs.completed) != len(set(obs.completed)):
            out.append(("an operation completed twice: %s" % obs.completed, None))
    return out


def oracle_c14(case, obs):
    out = []
    cyc, undef, bad, dup = analyse_graph(case)
    ld = obs.load
    defect = cyc or undef or bad or dup
    if (ld[0] != "ok") != bool(defect):
        out.append(("loader result %s but reachable defects are cycle=%s undefined=%s malformed=%s duplicate=%s" % (ld, cyc, sorted(undef), sorted(bad), sorted(dup)), None))
    if ld[0] == "cycle" and not cyc:
        out.append(("cyclic-dependency error without a reachable cycle", None))
    if ld[0] == "notfound" and ld[1] not in undef:
        out.append(("task-not-found error for t%s which is not an undefined reachable dependency" % ld[1], None))
    if ld[0] == "dup" and ld[1] not in dup:
        out.append(("duplicate-dependency error for t%s which lists no task twice" % ld[1], None))
    if ld[0] == "bad" and ld[1] not in bad:
        out.append(("definition error for t%s which is well formed" % ld[1], None))
    kinds = [k for k, v in (("cycle", cyc), ("notfound", undef), ("bad", bad), ("dup", dup)) if v]
    if len(kinds) == 1 and ld[0] != kinds[0]:
        out.append(("only a %s defect is reachable but the loader reports %s" % (kinds[0], ld[0]), None))
    if ld[0] != "ok" and (obs.spawns or starts(obs)):
        out.append(("tasks were executed although loading failed", None))
    if ld[0] == "ok" and sorted(ld[1]) != sorted(closure(case, case.root)):
        out.append(("loaded tasks %s differ from the closure of the root %s" % (ld[1], sorted(closure(case, case.root))), None))
    return out


ORACLES = {"C01": oracle_c01, "C02": oracle_c02, "C03": oracle_c03, "C04": oracle_c04, "C09": oracle_c09, "C14": oracle_c14}


# ----------------------------------------------------------------------------- corpus
def load_corpus(prop_id):
    d = os.path.join(VERIF, "corpus", prop_id)
    out = []
    if os.path.isdir(d):
        for fn in sorted(os.listdir(d)):
            if fn.endswith(".json"):
                out.append(Case.from_json(json.load(open(os.path.join(d, fn), encoding="utf-8"))["case"]))
    return out


def shape_of(case):
    n = len(case.tasks)
    executed_kinds = sorted({t.kind for t in case.tasks})
    shared = any(sum(1 for t in case.tasks if t.status == 2 and d in t.deps) > 1 for d in range(n))
    return "n=%d%s%s%s" % (min(n, 9), ",shared" if shared else "", ",fail" if case.launch_fail or any(case.rcs) else "", ",stop" if case.stop else "")


def _eff(c, obs):
    """the completion order the model is given: the index, among the processes not yet handed out, of the process each
    wait() returned (equals the case's picks when every SIGCHLD stands for one exit)"""
    ep = getattr(obs, "eff_picks", None)
    return (list(ep) + [0, 0]) if (c.batches and ep is not None) else None


def run_cases(chk, cases, oracles, needs_ok_load=True, nontrivial=None):
    """run implementation + oracles + model correspondence over the cases"""
    wants, kept = [], []
    seen = set()
    nontriv = 0
    timeouts = 0
    for c in cases:
        if timeouts >= 3:
            break
        k = c.key()
        if k in seen:
            continue
        seen.add(k)
        obs = run_impl(c)
        chk.coverage["evaluations"] += 1
        if obs.crash is not None and not obs.deadlock:
            if obs.crash.startswith("Timeout"):
                timeouts += 1
            if obs.crash.startswith(HARNESS_FAULT):
                # the harness could not attach to the (rewritten) internals: a broken tie, not a failing input
                chk.violation("tie-broken", "the correspondence harness no longer fits the implementation's internals: %s" % obs.crash[:300],
                              {"theorem_or_tie": "correspondence harness (harness/sched_util.py run_impl) vs executor.py / sigchld.py internals", "detail": obs.crash},
                              found_input=False)
                break
            chk.violation("impl-violation", "implementation raised an internal error on %s: %s" % (c.graph_text(), obs.crash[:200]),
                          {"input": {"case": c.to_json()}, "impl_observation": obs.crash, "oracle_verdict": "internal error"},
                          match_key={"graph": c.graph_text()}, size=len(c.tasks))
            continue
        chk.count("shape", shape_of(c))
        chk.count("load", obs.load[0] if obs.load else "none")
        chk.count("jobs", str(c.jobs))
        chk.count("several exits per SIGCHLD", "yes" if (c.batches and c.jobs > 1 and any(c.batches)) else "no")
        is_nt = (nontrivial(c, obs) if nontrivial else len(c.tasks) >= 3)
        if is_nt:
            nontriv += 1
        for pid in oracles:
            if obs.load[0] != "ok" and pid != "C14":
                continue
            if obs.deadlock and pid != "C09":
                continue
            for msg, key in ORACLES[pid](c, obs):
                mk = dict(key) if key else {"graph": c.graph_text()}
                chk.violation("impl-violation", "%s [graph %s, jobs=%d, again=%s, stop=%s]" % (msg, c.graph_text(), c.jobs, c.again, c.stop),
                              {"input": {"case": c.to_json()}, "impl_observation": {"load": obs.load, "events": obs.events, "plan": obs.plan, "raised": obs.raised},
                               "oracle_verdict": msg}, match_key=mk, size=len(c.tasks) * 10 + sum(len(t.deps) for t in c.tasks))
        if obs.deadlock:
            continue
        wants.append(pack(ser_observed(c, obs)))
        kept.append((c, obs))
        if len(c.tasks) >= 4:
            chk.sample({"graph": c.graph_text(), "kinds": [t.kind[:3] for t in c.tasks], "jobs": c.jobs, "events": [list(e) for e in obs.events][:12]})
    chk.coverage["distinct_nontrivial"] += nontriv
    if chk.coq.model_ok and kept:
        bad, fails = compare_with_model([c for c, _ in kept], wants, picks=[_eff(c, o) for c, o in kept])
        chk.coverage["disagreements_checked"] += len(kept)
        chk.coverage["traces_validated_against_impl"] += len(kept) - len(bad)
        for off, raw in fails:
            chk.violation("correspondence", "model evaluation failed (shard at %d): %s" % (off, raw[-300:]), {"theorem_or_tie": "correspondence Model/RunCase.v", "coq_output": raw}, found_input=False)
        for i in bad[:5]:
            c, obs = kept[i]
            chk.violation("correspondence", "model and implementation disagree on %s (jobs=%d again=%s stop=%s)" % (c.graph_text(), c.jobs, c.again, c.stop),
                          {"theorem_or_tie": "correspondence Model/{Loader,Planner,Exec}.v vs task_index.py/planner.py/executor.py", "input": {"case": c.to_json()},
                           "impl_observation": {"load": obs.load, "plan": obs.plan, "events": obs.events, "flat": ser_observed(c, obs)},
                           "model_prediction_flat": model_dump(c, picks=_eff(c, obs))}, found_input=False, size=len(c.tasks))
    elif not chk.coq.model_ok:
        chk.violation("correspondence", "model does not build", {"theorem_or_tie": "build of Model/RunCase.vo", "log": chk.coq.log[-3000:]}, found_input=False)


def replay_case(chk, replay, oracles):
    c = Case.from_json(replay["input"]["case"])
    obs = run_impl(c)
    print("replay: graph=%s load=%s events=%s raised=%s crash=%s" % (c.graph_text(), obs.load, obs.events, obs.raised, obs.crash))
    run_cases(chk, [c], oracles)
