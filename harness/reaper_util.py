"""C09, child-reaping part: real `cond run` processes driven through forced schedules.
 (a) several task exits while cond is stopped: ONE SIGCHLD stands for many exits;
 (b) an unrelated child of the cond process exits just before a task does (its status must not be
     attributed to the task, and it must not be waited for);
 (c) tasks that exit immediately (the lost wake-up D17 showed here in ~1.5% of runs).
Each scenario fails on a hang (timeout), a wrong exit status or a wrong report."""
import os
import signal
import subprocess
import time

from common import PY, SRC
import implrun
from implrun import strip_ansi


def _state(pid):
    try:
        return open("/proc/%d/stat" % pid).read().rsplit(")", 1)[1].split()[0]
    except OSError:
        return None


def _wait_for(pred, timeout=15.0):
    t0 = time.time()
    while time.time() - t0 < timeout:
        if pred():
            return True
        time.sleep(0.02)
    return False


def _finish(p, timeout):
    try:
        out, err = p.communicate(timeout=timeout)
        return p.returncode, strip_ansi((out + err).decode("utf-8", "replace")), False
    except subprocess.TimeoutExpired:
        try:
            os.killpg(p.pid, signal.SIGKILL)
        except OSError:
            p.kill()
        out, err = p.communicate()
        return None, strip_ansi((out + err).decode("utf-8", "replace")), True


def _pids(root, names):
    out = {}
    for dp, _dn, fn in os.walk(os.path.join(root, "cond-out")):
        if "pid" in fn:
            name = os.path.basename(dp).split(".task")[0]
            try:
                out[name] = int(open(os.path.join(dp, "pid")).read().strip())
            except ValueError:
                pass
    return out if set(names) <= set(out) else None


def batch_exits(chk, n_tasks, jobs):
    """(a) all tasks exit while cond is SIGSTOPped"""
    flag = None
    cond = ""
    root = implrun.make_project({"COND": ""})
    flag = os.path.join(root, "go")
    names = ["w%d" % i for i in range(n_tasks)]
    for nme in names:
        cond += 'run_experiment(name="%s", run="echo $$ > $COND_OUT/pid; while [ ! -e %s ]; do sleep 0.02; done", parallelizable=True)\n' % (nme, flag)
    cond += 'run_command(name="after", run="touch $COND_OUT/ran", deps=[%s])\n' % ", ".join('":%s"' % x for x in names)
    open(os.path.join(root, "COND"), "w").write(cond)
    p = subprocess.Popen([PY, "-m", "conductor", "run", "//:after", "-j", str(jobs)], cwd=root, env=dict(os.environ, PYTHONPATH=SRC),
                         stdout=subprocess.PIPE, stderr=subprocess.PIPE, start_new_session=True)
    def started():
        return [n for n in names if _pids(root, [n]) is not None]

    if not _wait_for(lambda: len(started()) >= jobs, 30):
        rc, text, _ = _finish(p, 1)
        return "harness: tasks did not start: %s" % text[-300:]
    first = started()[:jobs]          # whichever tasks the scheduler chose to start first
    pids = _pids(root, first)
    os.kill(p.pid, signal.SIGSTOP)
    open(flag, "w").close()
    _wait_for(lambda: all(_state(pid) in ("Z", None) for pid in pids.values()), 10)
    os.kill(p.pid, signal.SIGCONT)
    rc, text, hung = _finish(p, 25)
    ran = os.path.exists(os.path.join(root, "cond-out", "after.task", "ran"))
    if hung:
        return "cond run -j%d did not terminate after %d task(s) exited while it was stopped (one SIGCHLD for several exits); output so far: %r" % (jobs, len(first), text[-300:])
    if rc != 0 or not ran:
        return "cond run -j%d exited %s (dependent executed: %s) after tasks exited in one batch: %r" % (jobs, rc, ran, text[-300:])
    return None


def batch_exits_then_failed_launch(chk, n_tasks, jobs):
    """(a') as (a), and each of the tasks has a dependent that CANNOT BE LAUNCHED (a NUL byte in its command): while the
    exits of the other tasks are recorded but not yet consumed, a launch fails.  Every task must still be accounted for and
    the run must end.  (Seed C09/i: the failed launch threw away the recorded, unconsumed exits; the run then waited for
    ever for children that no longer existed.)"""
    root = implrun.make_project({"COND": ""})
    flag = os.path.join(root, "go")
    names = ["w%d" % i for i in range(n_tasks)]
    cond = ""
    for nme in names:
        cond += 'run_experiment(name="%s", run="echo $$ > $COND_OUT/pid; while [ ! -e %s ]; do sleep 0.02; done", parallelizable=True)\n' % (nme, flag)
        cond += 'run_command(name="d%s", run="echo a\\0b", deps=[":%s"], parallelizable=True)\n' % (nme, nme)
    cond += 'group(name="after", deps=[%s])\n' % ", ".join('":d%s"' % x for x in names)
    open(os.path.join(root, "COND"), "w").write(cond)
    p = subprocess.Popen([PY, "-m", "conductor", "run", "//:after", "-j", str(jobs)], cwd=root, env=dict(os.environ, PYTHONPATH=SRC),
                         stdout=subprocess.PIPE, stderr=subprocess.PIPE, start_new_session=True)

    def started():
        return [n for n in names if _pids(root, [n]) is not None]

    if not _wait_for(lambda: len(started()) >= jobs, 30):
        rc, text, _ = _finish(p, 1)
        return "harness: tasks did not start: %s" % text[-300:]
    first = started()[:jobs]
    pids = _pids(root, first)
    os.kill(p.pid, signal.SIGSTOP)
    open(flag, "w").close()
    _wait_for(lambda: all(_state(pid) in ("Z", None) for pid in pids.values()), 10)
    os.kill(p.pid, signal.SIGCONT)
    rc, text, hung = _finish(p, 25)
    if hung:
        return ("cond run -j%d did not terminate: %d task(s) exited in one batch and the dependent of the first one could not be launched "
                "while the exits of the others were still waiting to be consumed; output so far: %r" % (jobs, len(first), text[-300:]))
    rows = implrun.index_rows(root)
    if rc in (0, None) or rc < 0 or "Traceback" in text or len(rows) != n_tasks:
        return "cond run -j%d exited %s with %d recorded version(s) of %d tasks that exited 0 (their dependents cannot be launched): %r" % (jobs, rc, len(rows), n_tasks, text[-300:])
    return None


def sigchld_blocked_at_start(chk):
    """the signal mask is inherited: `cond run` is started by a program that had SIGCHLD blocked (and did not reset the mask
    before exec).  The run must still notice that its tasks exit.  (D41: the handler was installed but the signal never
    delivered; after the first task exited, cond slept in read() for ever.)"""
    root = implrun.make_project({"COND": 'run_command(name="a", run="true")\nrun_command(name="b", run="touch $COND_OUT/ran", deps=[":a"])\n'})

    def block():
        signal.pthread_sigmask(signal.SIG_BLOCK, {signal.SIGCHLD})

    p = subprocess.Popen([PY, "-m", "conductor", "run", "//:b"], cwd=root, env=dict(os.environ, PYTHONPATH=SRC), stdout=subprocess.PIPE, stderr=subprocess.PIPE,
                         start_new_session=True, preexec_fn=block)
    rc, text, hung = _finish(p, 20)
    ran = os.path.exists(os.path.join(root, "cond-out", "b.task", "ran"))
    if hung:
        return "cond run, started with SIGCHLD blocked in its inherited signal mask, did not terminate after its task had exited; output so far: %r" % text[-300:]
    if rc != 0 or not ran:
        return "cond run, started with SIGCHLD blocked, exited %s (dependent executed: %s): %r" % (rc, ran, text[-300:])
    return None


def unrelated_child(chk, helper_rc, task_rc):
    """(b) the cond process owns a child it did not start; it exits just before the task does: its status must not be
    attributed to the task (a dependent of the task runs iff the TASK exited 0), and it must not be waited for"""
    root = implrun.make_project({"COND": ""})
    f1, f2 = os.path.join(root, "f1"), os.path.join(root, "f2")
    open(os.path.join(root, "COND"), "w").write(
        'run_command(name="t", run="echo $$ > $COND_OUT/pid; while [ ! -e %s ]; do sleep 0.02; done; exit %d")\n' % (f2, task_rc)
        + 'run_command(name="after", run="touch $COND_OUT/ran", deps=[":t"])\n')
    wrapper = "( while [ ! -e %s ]; do sleep 0.02; done; exit %d ) & exec %s -m conductor run //:after" % (f1, helper_rc, PY)
    p = subprocess.Popen(["bash", "-c", wrapper], cwd=root, env=dict(os.environ, PYTHONPATH=SRC), stdout=subprocess.PIPE, stderr=subprocess.PIPE, start_new_session=True)
    if not _wait_for(lambda: _pids(root, ["t"]) is not None):
        rc, text, _ = _finish(p, 1)
        return "harness: task did not start: %s" % text[-300:]
    open(f1, "w").close()          # the helper exits; cond reaps an unknown pid
    time.sleep(0.3)
    open(f2, "w").close()          # now the task exits
    rc, text, hung = _finish(p, 25)
    if hung:
        return "cond run did not terminate with an unrelated child around: %r" % text[-300:]
    want = 0 if task_rc == 0 else 1
    ran = os.path.exists(os.path.join(root, "cond-out", "after.task", "ran"))
    if (rc == 0) != (want == 0) or rc is None or rc < 0 or ran != (task_rc == 0):
        return ("an unrelated child exited with %d before task //:t exited with %d: cond exited %s, the dependent of //:t %s: %r"
                % (helper_rc, task_rc, rc, "was executed" if ran else "was not executed", text[-300:]))
    return None


def fast_exits(chk, runs):
    """(c) tasks that exit immediately"""
    cond = "\n".join('run_experiment(name="e%d", run="true", parallelizable=%s)' % (i, i % 2 == 0) for i in range(4))
    cond += '\ncombine(name="all", deps=[%s])\n' % ", ".join('":e%d"' % i for i in range(4))
    root = implrun.make_project({"COND": cond})
    hangs = 0
    for r in range(runs):
        res = implrun.run_cond(["run", "//:all", "--again"] + (["-j", "3"] if r % 2 else []), root, timeout=15)
        chk.coverage["evaluations"] += 1
        if res.code != 0:
            hangs += 1
            return "cond run of immediately exiting tasks ended with %s (timeout = hang) in run %d: %r" % (res.code, r, (res.out + res.err)[-300:])
    return None


def many_fast_parallel(chk, runs, n=60, jobs=8):
    """(d) many immediately exiting tasks with several in flight: every exit must be observed by Conductor's own
    handler -- anything else in the process that reaps children (e.g. subprocess's clean-up of abandoned Popen objects
    at the next spawn) makes an exit disappear and the run wait forever"""
    cond = "\n".join('run_command(name="c%d", run="true", parallelizable=True)' % i for i in range(n))
    cond += '\ncombine(name="all", deps=[%s])\n' % ", ".join('":c%d"' % i for i in range(n))
    root = implrun.make_project({"COND": cond})
    for r in range(runs):
        res = implrun.run_cond(["run", "//:all", "-j", str(jobs)], root, timeout=40)
        chk.coverage["evaluations"] += 1
        text = strip_ansi(res.out + res.err)
        if res.code != 0:
            return "cond run -j%d of %d immediately exiting parallelizable tasks ended with %s (a timeout means it never terminated) in run %d: %r" % (jobs, n, res.code, r, text[-300:])
    return None


def spawn_between_exit_and_sigchld(chk):
    """(e) forced schedule on the real kernel: a task exits, and BEFORE its SIGCHLD is delivered Conductor spawns the next
    task.  `subprocess.Popen()` begins with `subprocess._cleanup()`, which polls (waitpid, WNOHANG) every child whose
    Popen object the program has dropped -- if Conductor did not keep the Popen of a running task alive, that poll
    reaps the exited task, Conductor's own handler finds nothing, the exit is lost and the run waits for ever.
    The window is made deterministic inside the cond process: at the start of the spawn that follows the first
    completion, SIGCHLD is blocked until some child is a zombie, the real `_cleanup()` runs, SIGCHLD is unblocked."""
    cond = ('run_command(name="p1", run="true", parallelizable=True)\n'
            'run_command(name="p2", run="sleep 0.4", parallelizable=True)\n'
            'run_command(name="p3", run="true", parallelizable=True, deps=[":p1"])\n'
            'combine(name="all", deps=[":p2", ":p3"])\n')
    root = implrun.make_project({"COND": cond})

    def pre():
        import gc
        import signal as sg
        import subprocess as sp
        import time as tm

        real = sp._cleanup  # pylint: disable=protected-access
        state = {"n": 0}

        def children():
            out = []
            for tid in os.listdir("/proc/self/task"):
                try:
                    out += [int(x) for x in open("/proc/self/task/%s/children" % tid).read().split()]
                except OSError:
                    pass
            return out

        def cleanup():
            state["n"] += 1
            if state["n"] == 3:            # the spawn of p3 (after p1 and p2)
                gc.collect()               # a dropped Popen of a running child lands in subprocess._active now at the latest
                sg.pthread_sigmask(sg.SIG_BLOCK, {sg.SIGCHLD})
                t0 = tm.time()
                while tm.time() - t0 < 5 and not any(_state(c) == "Z" for c in children()):
                    tm.sleep(0.01)
                try:
                    real()
                finally:
                    sg.pthread_sigmask(sg.SIG_UNBLOCK, {sg.SIGCHLD})
                return
            real()

        sp._cleanup = cleanup  # pylint: disable=protected-access

    res = implrun.run_cond(["run", "//:all", "-j", "2"], root, pre=pre, timeout=25)
    text = strip_ansi(res.out + res.err)
    if res.code != 0:
        return ("task p2 exits while the spawn of p3 is under way (its SIGCHLD is delivered right after subprocess._cleanup()): cond run -j2 ended with %s "
                "(a negative status / timeout means it never terminated: the exit of p2 was reaped by somebody else): %r" % (res.code, text[-300:]))
    return None


def stopped_task(chk, parallel):
    """(f) a task process is STOPPED (SIGSTOP / SIGTSTP: a job-control stop, a debugger attaching) while Conductor waits
    for it, and continued later.  A stop is not an exit: its slot stays taken and, for a non-parallelizable task, nothing
    else may start until it has really exited.  (The kernel sends SIGCHLD for a stop as well; a handler that asks
    waitpid for stopped children would take the stop for an exit.)"""
    root = implrun.make_project({"COND": ""})
    par = "True" if parallel else "False"
    flag = os.path.join(root, "may-end")
    # with --jobs 2, b and c keep running until the observation has been made (no fixed duration: the machine may be slow);
    # sequentially they are short, so that whichever order the scheduler picks, task a gets its turn
    hold = ("; while [ ! -e %s ]; do sleep 0.05; done" % flag) if parallel else ""
    cond = ('run_command(name="a", run="echo $$ > $COND_OUT/pid; kill -STOP $$; touch $COND_OUT/resumed", parallelizable=%s)\n' % par
            + 'run_command(name="b", run="touch $COND_OUT/started%s", parallelizable=%s)\n' % (hold, par)
            + 'run_command(name="c", run="touch $COND_OUT/started%s", parallelizable=%s)\n' % (hold, par)
            + 'combine(name="all", deps=[":a", ":b", ":c"])\n')
    open(os.path.join(root, "COND"), "w").write(cond)
    argv = [PY, "-m", "conductor", "run", "//:all"] + (["-j", "2"] if parallel else [])
    p = subprocess.Popen(argv, cwd=root, env=dict(os.environ, PYTHONPATH=SRC), stdout=subprocess.PIPE, stderr=subprocess.PIPE, start_new_session=True)
    pidf = os.path.join(root, "cond-out", "a.task", "pid")

    def started(n):
        return os.path.exists(os.path.join(root, "cond-out", n + ".task", "started"))

    a_started = lambda: os.path.exists(pidf) and open(pidf).read().strip() != ""  # noqa: E731
    _wait_for(lambda: a_started() or (started("b") and started("c")), 30)
    if not a_started():
        # the scheduler gave both slots to b and c first (any order is legal): let them end; a then runs with nothing
        # beside it, so there is no concurrency to judge in this run
        open(flag, "w").close()
        if not _wait_for(a_started, 30):
            rc, text, _ = _finish(p, 1)
            return "harness: task a did not start: %s" % text[-300:]
    apid = int(open(pidf).read().strip())
    if not _wait_for(lambda: _state(apid) == "T", 10):
        rc, text, _ = _finish(p, 1)
        return "harness: task a did not stop: %s" % text[-300:]

    before = {n: started(n) for n in ("b", "c")}
    time.sleep(1.2)                      # a stays stopped
    during = {n: started(n) for n in ("b", "c")}
    msg = None
    if not parallel:
        # jobs = 1: nothing may start while a has not exited
        newly = [n for n in ("b", "c") if during[n] and not before[n]]
        if newly:
            msg = "task //:a is stopped (not exited) and non-parallelizable, yet %s started meanwhile" % ["//:" + n for n in newly]
    else:
        # jobs = 2: a (stopped) and one of b / c (held until the flag appears) occupy the two slots; the other one must wait
        if during["b"] and during["c"] and _state(apid) == "T" and not os.path.exists(flag):
            msg = "with --jobs 2, //:a (stopped, not exited), //:b and //:c were all started and none had ended: three tasks at once"
    open(flag, "w").close()
    try:
        os.kill(apid, signal.SIGCONT)
    except OSError:
        pass
    rc, text, hung = _finish(p, 30)
    if msg is None and hung:
        msg = "cond run did not terminate after the stopped task was continued: %r" % text[-300:]
    if msg is None and (rc != 0 or not os.path.exists(os.path.join(root, "cond-out", "a.task", "resumed"))):
        msg = "after SIGCONT the run ended with %s (task a %s): %r" % (rc, "finished" if os.path.exists(os.path.join(root, "cond-out", "a.task", "resumed")) else "did not finish", text[-300:])
    return msg


_DELIVERY_DRIVER = r"""
import os, sys, time
target_file, target_line, go_file, pid_file = sys.argv[1], int(sys.argv[2]), sys.argv[3], sys.argv[4]
fired = [False]

def _gone(pid):
    try:
        st = open('/proc/%d/stat' % pid).read().rsplit(')', 1)[1].split()[0]
        return False if st else True
    except OSError:
        return True          # reaped: the SIGCHLD handler has run and recorded the exit

def local(frame, event, arg):
    if event == 'line' and not fired[0] and frame.f_lineno == target_line and os.path.exists(pid_file):
        try:
            pid = int(open(pid_file).read().strip())
        except ValueError:
            return local
        fired[0] = True
        open(go_file, 'w').close()                 # the task sees the file and exits with status 0
        deadline = time.time() + 10
        while time.time() < deadline and not _gone(pid):
            time.sleep(0.005)                      # Python-level signal handlers run here, between bytecodes
        open(go_file + '.delivered', 'w').write('%s' % _gone(pid))
    return local

def tracer(frame, event, arg):
    return local if frame.f_code.co_filename.endswith(target_file) else None

sys.settrace(tracer)
sys.argv = ['cond'] + sys.argv[5:]
import conductor.__main__ as m
m.main()
"""


def _consumer_lines():
    """(file suffix, line) for every line of the code that CONSUMES recorded exits: the methods of SigchldHelper other
    than the signal handler itself, and the waiting / polling methods of the executor's in-flight table"""
    import ast

    out = []
    for rel, cls, keep in (("conductor/utils/sigchld.py", "SigchldHelper", lambda n: True), ("conductor/execution/executor.py", "_InflightOperations", lambda n: n.startswith(("wait", "poll", "has_", "_extract", "take", "pop")))):
        path = os.path.join(SRC, rel)
        tree = ast.parse(open(path, encoding="utf-8").read())
        handlers = set()
        for node in ast.walk(tree):      # whatever is installed with signal.signal(SIGCHLD, X) is the handler
            if isinstance(node, ast.Call) and ast.unparse(node.func) == "signal.signal" and len(node.args) == 2 and "SIGCHLD" in ast.unparse(node.args[0]):
                handlers.add(ast.unparse(node.args[1]).split(".")[-1])
        for node in tree.body:
            if isinstance(node, ast.ClassDef) and node.name == cls:
                for f in node.body:
                    if isinstance(f, ast.FunctionDef) and f.name not in handlers and f.name not in ("__init__", "instance", "track") and keep(f.name):
                        lines = sorted({n.lineno for st in f.body for n in ast.walk(st) if isinstance(n, ast.stmt)})
                        out.extend((rel, ln, f.name) for ln in lines)
    return out


def exit_delivered_before_every_line(chk, tier):
    """No exit is lost WHEREVER it arrives: x depends on a and b (parallel, -j 2); a exits after 0.4 s; b runs until told.
    For every line of the code that consumes recorded exits (SigchldHelper's methods other than the handler, the waiting
    methods of the executor's in-flight table -- enumerated from the sources of the tree under test, nothing of Conductor is
    patched), one real `cond run` is traced, and the first time that line is about to run while b is alive, b is made to exit
    and the run waits right there until Conductor's own SIGCHLD handler has reaped it.  The run must end with status 0 within
    the time limit, b completed, x executed exactly once.  (Seed C09/l: `exited = list(self._returncodes);
    self._returncodes.clear()` lost an exit recorded between the two statements; `cond run` then slept for ever.)"""
    import concurrent.futures

    points = _consumer_lines()
    if not points:
        return "harness: no line of exit-consuming code was found (the classes were renamed?)"
    if tier == "quick" and len(points) > 40:
        points = points[:40]

    def one(pt):
        rel, line, fn = pt
        root = implrun.make_project({"COND": ""})
        log = os.path.join(root, "events.log")
        go = os.path.join(root, "go")
        pidf = os.path.join(root, "b.pid")
        open(os.path.join(root, "COND"), "w").write(
            'run_command(name="a", run="sleep 0.4; echo a >> %s", parallelizable=True)\n' % log
            + 'run_command(name="b", run="echo $$ > %s; while [ ! -e %s ]; do sleep 0.02; done; echo b >> %s", parallelizable=True)\n' % (pidf, go, log)
            + 'run_command(name="x", run="echo x >> %s", deps=[":a", ":b"])\n' % log)
        drv = os.path.join(os.path.dirname(root), "driver.py")
        open(drv, "w").write(_DELIVERY_DRIVER)
        p = subprocess.Popen([PY, drv, rel, str(line), go, pidf, "run", "//:x", "-j", "2"], cwd=root, env=dict(os.environ, PYTHONPATH=SRC), stdout=subprocess.PIPE, stderr=subprocess.PIPE,
                             start_new_session=True)
        # a line that is never reached while b runs: release b some time AFTER a has finished (whatever the load of the machine), so that the run can end
        t0, t_a = time.time(), None
        while p.poll() is None and not os.path.exists(go) and time.time() - t0 < 60.0:
            if t_a is None and os.path.exists(log) and "a" in open(log).read().split():
                t_a = time.time()
            if t_a is not None and time.time() - t_a > 3.0:
                break
            time.sleep(0.05)
        if p.poll() is None and not os.path.exists(go):
            open(go, "w").close()
        rc, text, timed_out = _finish(p, 40)
        delivered = os.path.exists(go + ".delivered")
        ran = open(log).read().split() if os.path.exists(log) else []
        if timed_out:
            return (pt, delivered, "cond run did not terminate within 40 s after b's exit was delivered before %s:%d (%s); tasks that ran: %r" % (rel, line, fn, ran))
        if rc != 0 or sorted(ran) != ["a", "b", "x"]:
            return (pt, delivered, "exit status %s, tasks that ran %r (expected a, b and x once each) after b's exit was delivered before %s:%d (%s): %s" % (rc, ran, rel, line, fn, text[-200:]))
        return (pt, delivered, None)

    with concurrent.futures.ThreadPoolExecutor(max_workers=8) as ex:
        results = list(ex.map(one, points))
    n_delivered = sum(1 for _pt, d, _m in results if d)
    chk.count("reaper", "exit delivered before a line of the consuming code", n_delivered)
    chk.coverage["evaluations"] += len(results)
    bad = [m for _pt, _d, m in results if m]
    if n_delivered == 0 and not bad:
        return "harness: no delivery point was reached in %d traced runs" % len(results)
    return bad[0] if bad else None


def reaper_scenarios(chk, tier):
    scen = [("batch-exits-j2", lambda: batch_exits(chk, 2, 2)), ("batch-exits-j3-of-4", lambda: batch_exits(chk, 4, 3)),
            ("batch-exits-then-failed-launch-j3", lambda: batch_exits_then_failed_launch(chk, 3, 3)),
            ("sigchld-blocked-at-start", lambda: sigchld_blocked_at_start(chk)),
            ("unrelated-child-7-then-0", lambda: unrelated_child(chk, 7, 0)), ("unrelated-child-0-then-3", lambda: unrelated_child(chk, 0, 3)),
            ("fast-exits", lambda: fast_exits(chk, 12 if tier == "quick" else 200)),
            ("many-fast-parallel", lambda: many_fast_parallel(chk, 3 if tier == "quick" else 30)),
            ("spawn-between-exit-and-sigchld", lambda: spawn_between_exit_and_sigchld(chk)),
            ("stopped-task-sequential", lambda: stopped_task(chk, False)), ("stopped-task-j2", lambda: stopped_task(chk, True)),
            ("exit-delivered-before-every-line", lambda: exit_delivered_before_every_line(chk, tier))]
    reps = 1 if tier == "quick" else 5
    for name, fn in scen:
        for _ in range(reps if name not in ("fast-exits", "many-fast-parallel", "exit-delivered-before-every-line") else 1):
            msg = fn()
            chk.coverage["evaluations"] += 1
            chk.count("reaper", name)
            if msg is not None:
                chk.violation("impl-violation", "child reaping, scenario %s: %s" % (name, msg),
                              {"input": {"scenario": name}, "impl_observation": msg, "oracle_verdict": "the run must terminate with every completion attributed to the right task"},
                              match_key={"schedule": name}, size=2)
            else:
                chk.coverage["traces_validated_against_impl"] += 1
