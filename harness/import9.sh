#!/bin/bash
# import9.sh Cxx: copy the round-9 seeds m/n of a property from /tmp/wt9-Cxx into seeded/ and print the eval list lines
p=$1
for v in m n; do s=/tmp/wt9-$p/seeded/$v; [ -f $s/patch.diff ] || continue; mkdir -p /verif/seeded/$p/$v; cp $s/patch.diff $s/demo.py $s/README.md /verif/seeded/$p/$v/; (cd /repo && git apply --check /verif/seeded/$p/$v/patch.diff) || echo "PATCH DOES NOT APPLY $p/$v" >&2; echo "r9-$p-$v seed seeded/$p/$v $p"; done
