"""C19 -- run_experiment_group is exactly its documented expansion.

proofs : coq/Props/C19.v (C19_equal for every handler, C19_reject for every file around the group).
tie    : COND files in group form and in explicit form (the expansion written in Python from
         website/docs/task-types/run-experiment-group.md, independently of the Coq text) are loaded
         with the real TaskIndex/TaskLoader in-process; the loaded graphs (identifiers, classes,
         deps in order, run, args, options, parallelizable) are compared with each other (oracle)
         and with Model/Group.v + Model/Schema.v (packed channel).  A sample is also executed
         through `cond run` in both forms and the spawn traces / combine outputs compared.
"""
import concurrent.futures
import copy
import os

from common import Check, cstr, clist, cbool, pack, run_packed_cases, NCPU
import implrun
from schema_util import (
    COQ_IMPORTS,
    COQ_SER,
    Inst,
    Loader,
    Other,
    FloatX,
    cassoc,
    cval,
    render_call,
    render_group,
    ser_outcome,
)

DIR = "d"
GROUP_KEYS = ("name", "run", "experiments", "chain_experiments", "deps")


# ----------------------------------------------------------------------------- documented expansion
def doc_expand(g):
    """The explicit list of constructor calls the documentation says the group stands for, or
    None when `experiments` is not a list of ExperimentInstances (nothing documented).
    Only the fields the instance was written with are passed on, as in the documented example."""
    exps = g.get("experiments", [])
    if not isinstance(exps, (list, tuple, str, dict)):
        return None  # cannot be iterated
    exps = list(exps)  # the signature says Iterable: an empty str / dict is an empty collection
    if not all(isinstance(x, Inst) for x in exps):
        return None
    deps = g.get("deps", [])
    chain = g.get("chain_experiments", False)
    calls = []
    prev = None
    for x in exps:
        kw = {"name": x.fields["name"], "run": g["run"]}
        for k in ("args", "options", "parallelizable"):
            if k in x.fields:
                kw[k] = x.fields[k]
        d = deps
        if chain and prev is not None and isinstance(deps, list) and isinstance(prev, str):
            d = list(deps) + [":" + prev]
        kw["deps"] = d
        calls.append(("run_experiment", kw))
        prev = x.fields["name"]
    calls.append(("combine", {"name": g["name"], "deps": [":" + n if isinstance(n, str) else n for n in [x.fields["name"] for x in exps]]}))
    return calls


# ----------------------------------------------------------------------------- rendering
def render_group_form(case):
    text = "".join(render_call(c, kw) for c, kw in case["pre"])
    text += render_group(case["group"])
    text += "".join(render_call(c, kw) for c, kw in case["post"])
    return text


def render_explicit_form(case, calls):
    text = "".join(render_call(c, kw) for c, kw in case["pre"])
    text += "".join(render_call(c, kw) for c, kw in calls)
    text += "".join(render_call(c, kw) for c, kw in case["post"])
    return text


OTHER_COND = "run_command(name='x', run='true')\nrun_command(name='e1', run='true')\n"


# ----------------------------------------------------------------------------- model literals
def cmember(m):
    if isinstance(m, Inst):
        f = m.full()
        return "(MInst {| i_name := %s; i_args := %s; i_options := %s; i_par := %s |})" % (
            cval(f["name"]), cval(f["args"]), cval(f["options"]), cval(f["parallelizable"]))
    return "(MOther %s)" % cval(m)


def cgdef(g):
    if "experiments" not in g:
        exps = "(Some [])"
    else:
        e = g["experiments"]
        if isinstance(e, (list, tuple)):
            exps = "(Some %s)" % clist([cmember(m) for m in e])
        elif isinstance(e, str):
            exps = "(Some %s)" % clist([cmember(c) for c in e])
        elif isinstance(e, dict):
            exps = "(Some %s)" % clist([cmember(c) for c in e])
        else:
            exps = "None"
    deps = "None" if "deps" not in g else "(Some %s)" % cval(g["deps"])
    return "{| g_name := %s; g_run := %s; g_experiments := %s; g_chain := %s; g_deps := %s |}" % (
        cval(g["name"]), cval(g["run"]), exps, cbool(g.get("chain_experiments", False)), deps)


def ccall(c, kw):
    return "(%s, %s)" % (cstr(c), cassoc(kw))


def cstmts(case):
    ss = ["SCall %s" % ccall(c, kw) for c, kw in case["pre"]]
    ss.append("SGroup %s" % cgdef(case["group"]))
    ss += ["SCall %s" % ccall(c, kw) for c, kw in case["post"]]
    return clist(ss)


DEFS = COQ_SER + r"""
Definition dir : list str := [%(dir)s].
Definition load_all (r : result tasks) : list N :=
  ser_result (ser_list ser_task) (bind r (materialize_all dir)).
(* group form through the model of the implementation; explicit form = documented expansion *)
Definition row (ss : list stmt) : N :=
  pack (load_all (parse_file ss)
        ++ match expand_file ss with Some cs => 1 :: load_all (parse_calls cs) | None => [0] end
        ++ ser_bool (match parse_file ss, expand_file ss with
                     | Ok a, Some cs => match parse_calls cs with Ok b => true | Err _ => false end
                     | Err _, Some cs => match parse_calls cs with Ok b => false | Err _ => true end
                     | Ok _, None => false
                     | Err _, None => true end)).
Definition cases : list (list stmt) := %(cases)s.
"""


# ----------------------------------------------------------------------------- generators
def base_pre():
    return [("run_command", {"name": "t0", "run": "true"})]


def corpus():
    out = []

    def add(group, pre=None, post=None, tag=""):
        out.append({"pre": base_pre() if pre is None else pre, "post": post or [], "group": group, "tag": tag})

    # the documented example
    add({"name": "sweep", "run": "./run_benchmark.sh",
         "experiments": [Inst(name="sweep-%d" % t, options={"threads": t}, parallelizable=False) for t in (1, 2)],
         "chain_experiments": True, "deps": [":t0"]}, tag="doc-example")
    # the same written with positional arguments (documented signature: name, run, experiments, chain_experiments, deps);
    # several spellings so that the deterministic choice in schema_util.renders_positionally picks some of them
    for nm in ("sweep", "sweepA", "sweepB", "sweepC", "sweepD", "sweepE"):
        add({"name": nm, "run": "./run_benchmark.sh",
             "experiments": [Inst(name="%s-%d" % (nm, t), options={"threads": t}, parallelizable=False) for t in (1, 2)],
             "chain_experiments": True, "deps": [":t0"]}, tag="doc-example-signature-order")
        add({"name": nm, "run": "./run_benchmark.sh",
             "experiments": [Inst(name="%s-%d" % (nm, t)) for t in (1, 2)], "chain_experiments": False}, tag="doc-example-signature-order")
    # D16: `experiments` has the documented default []
    add({"name": "g", "run": "true"}, tag="no-experiments-argument")
    add({"name": "g", "run": "true", "deps": [":t0"]}, tag="no-experiments-argument")
    add({"name": "g", "run": "true", "experiments": []}, tag="empty")
    add({"name": "g", "run": "true", "experiments": ()}, tag="empty-tuple")
    # name clashes
    add({"name": "g", "run": "true", "experiments": [Inst(name="a"), Inst(name="a")]}, tag="dup-instance")
    add({"name": "g", "run": "true", "experiments": [Inst(name="a"), Inst(name="b"), Inst(name="a")], "chain_experiments": True}, tag="dup-instance")
    add({"name": "g", "run": "true", "experiments": [Inst(name="g")]}, tag="clash-group-name")
    add({"name": "g", "run": "true", "experiments": [Inst(name="a"), Inst(name="g")]}, tag="clash-group-name")
    add({"name": "g", "run": "true", "experiments": [Inst(name="t0")]}, tag="clash-earlier-task")
    add({"name": "t0", "run": "true", "experiments": [Inst(name="a")]}, tag="clash-earlier-task")
    add({"name": "g", "run": "true", "experiments": [Inst(name="a")]}, post=[("run_command", {"name": "a", "run": "true"})], tag="clash-later-task")
    add({"name": "g", "run": "true", "experiments": [Inst(name="a")]}, post=[("group", {"name": "g"})], tag="clash-later-task")
    # members that are not ExperimentInstances / experiments that cannot be iterated
    add({"name": "g", "run": "true", "experiments": ["a"]}, tag="non-instance")
    add({"name": "g", "run": "true", "experiments": [Inst(name="a"), ("b",)]}, tag="non-instance")
    add({"name": "g", "run": "true", "experiments": [Inst(name="a"), {"name": "b"}]}, tag="non-instance")
    add({"name": "g", "run": "true", "experiments": 5}, tag="non-iterable")
    add({"name": "g", "run": "true", "experiments": None}, tag="non-iterable")
    add({"name": "g", "run": "true", "experiments": "ab"}, tag="non-instance")
    add({"name": "g", "run": "true", "experiments": (Inst(name="a"), Inst(name="b"))}, tag="tuple")
    # chaining
    for chain in (False, True):
        add({"name": "g", "run": "./r.sh", "experiments": [Inst(name="a", args=[1, "x", 0.5, True]), Inst(name="b", options={"k": "v"}, parallelizable=True), Inst(name="c")],
             "chain_experiments": chain, "deps": [":t0", "//other:x"]}, tag="chain-%s" % chain)
        add({"name": "g", "run": "./r.sh", "experiments": [Inst(name="a"), Inst(name="b")], "chain_experiments": chain}, tag="chain-%s" % chain)
    # a chained instance that repeats a shared dependency / names it already depends on
    add({"name": "g", "run": "true", "experiments": [Inst(name="a"), Inst(name="b")], "chain_experiments": True, "deps": [":a"]}, tag="chain-dup-dep")
    add({"name": "g", "run": "true", "experiments": [Inst(name="e1"), Inst(name="b")], "deps": ["//other:e1"]}, tag="combine-name")
    # ill-typed pieces
    add({"name": "g", "run": 5, "experiments": [Inst(name="a")]}, tag="ill-typed")
    add({"name": "g", "run": 5, "experiments": []}, tag="ill-typed-unused-run")
    add({"name": "g", "run": "true", "experiments": [Inst(name=5)]}, tag="ill-typed")
    add({"name": "g", "run": "true", "experiments": [Inst(name=["a"])]}, tag="ill-typed")
    add({"name": "g", "run": "true", "experiments": [Inst(name="a", args="x")]}, tag="ill-typed")
    add({"name": "g", "run": "true", "experiments": [Inst(name="a", args=[None])]}, tag="ill-typed")
    add({"name": "g", "run": "true", "experiments": [Inst(name="a", options={1: 2})]}, tag="ill-typed")
    add({"name": "g", "run": "true", "experiments": [Inst(name="a", options={"k": [1]})]}, tag="ill-typed")
    add({"name": "g", "run": "true", "experiments": [Inst(name="a", parallelizable="yes")]}, tag="ill-typed")
    add({"name": "g", "run": "true", "experiments": [Inst(name="a"), Inst(name="b")], "deps": ":t0", "chain_experiments": True}, tag="ill-typed")
    add({"name": "g", "run": "true", "experiments": [Inst(name="a")], "deps": [":t0", ":t0"]}, tag="dup-dep")
    add({"name": "g", "run": "true", "experiments": [Inst(name="a")], "deps": ["t0"]}, tag="bad-dep")
    add({"name": "bad name", "run": "true", "experiments": [Inst(name="a")]}, tag="bad-name")
    add({"name": "g\n", "run": "true", "experiments": [Inst(name="a")]}, tag="bad-name")
    add({"name": "g", "run": "true", "experiments": [Inst(name="a\n")]}, tag="bad-name")
    add({"name": 7, "run": "true", "experiments": []}, tag="bad-name")
    return out


INST_KINDS = ["plain", "rich", "badargs", "other"]


def make_member(name, kind):
    if kind == "plain":
        return Inst(name=name)
    if kind == "rich":
        return Inst(name=name, args=[1, "x"], options={"o": True}, parallelizable=True)
    if kind == "badargs":
        return Inst(name=name, args=[None])
    return ("not-an-instance", name)[0]


def exhaustive(max_n, kinds):
    names = ["a", "b", "g", "t0"]
    deps_opts = [None, [":t0"], [":t0", "//d:t0"], ["bad"], "x"]
    out = []

    def rec(prefix):
        if prefix:
            yield list(prefix)
        else:
            yield []
        if len(prefix) < max_n:
            for n in names:
                for k in kinds:
                    yield from rec(prefix + [(n, k)])

    seen = set()
    for members in rec([]):
        key = tuple(members)
        if key in seen:
            continue
        seen.add(key)
        for chain in (False, True):
            for deps in deps_opts:
                g = {"name": "g", "run": "true", "experiments": [make_member(n, k) for n, k in members]}
                if chain:
                    g["chain_experiments"] = True
                if deps is not None:
                    g["deps"] = copy.deepcopy(deps)
                out.append({"pre": base_pre(), "post": [], "group": g, "tag": "exhaustive"})
    return out


def rand_value(rng, kind):
    if kind == "args":
        r = rng.random()
        if r < 0.75:
            return [rng.choice([1, -3, "x", "", True, False, 0.5, 2.0]) for _ in range(rng.randrange(0, 4))]
        if r < 0.85:
            return [rng.choice([None, [1], {"a": 1}, Other("()"), 1, "y"]) for _ in range(rng.randrange(1, 3))]
        return rng.choice(["x", 5, None, {"a": 1}, Other("('t',)")])
    if kind == "options":
        r = rng.random()
        if r < 0.75:
            return {rng.choice(["a", "b", "threads", ""]): rng.choice([1, "x", True, 0.25]) for _ in range(rng.randrange(0, 3))}
        if r < 0.85:
            return {rng.choice(["a", 1, None, Other("()")]): rng.choice([1, None, [1], {}])}
        return rng.choice([["a"], 5, None, "x"])
    if kind == "par":
        return rng.choice([True, False, True, False, True, False, 1, "yes", None])
    raise ValueError(kind)


def random_case(rng):
    pool = ["a", "b", "c", "e1", "g", "t0", "t1"]
    gname = rng.choice(["g", "g", "g", "g", "t0", "a", "bad name", "g\n", "", 5])
    n = rng.choice([0, 1, 1, 2, 2, 3, 3, 4])
    members = []
    for _ in range(n):
        r = rng.random()
        if r < 0.08:
            members.append(rng.choice(["s", 5, None, Other("('t',)"), {"name": "a"}, ["a"]]))
            continue
        name = rng.choice(pool) if rng.random() < 0.9 else rng.choice([5, None, ["a"], Other("('e1',)"), "a b", "a\n", "", True, 1.5])
        f = {"name": name}
        if rng.random() < 0.5:
            f["args"] = rand_value(rng, "args")
        if rng.random() < 0.5:
            f["options"] = rand_value(rng, "options")
        if rng.random() < 0.5:
            f["parallelizable"] = rand_value(rng, "par")
        members.append(Inst(**f))
    g = {"name": gname, "run": rng.choice(["true", "./r.sh", "true", 5, None, ""])}
    r = rng.random()
    if r < 0.08:
        pass
    elif r < 0.16:
        g["experiments"] = tuple(members)
    elif r < 0.2:
        g["experiments"] = rng.choice([5, None, "ab", "", {"a": 1}])
    else:
        g["experiments"] = members
    if rng.random() < 0.6:
        g["chain_experiments"] = rng.random() < 0.6
    if rng.random() < 0.6:
        r = rng.random()
        if r < 0.8:
            g["deps"] = [rng.choice([":t0", ":t1", "//d:t0", "//other:x", "//other:e1", ":a", ":zz", "bad", "//:", ":t0\n", "other:x"]) for _ in range(rng.randrange(0, 3))]
        else:
            g["deps"] = rng.choice(["abc", 5, Other("('t',)"), {":t0": 1}, [5], [":t0", None]])
    pre = base_pre()
    if rng.random() < 0.5:
        pre.append(("run_experiment", {"name": "t1", "run": "true", "deps": [":t0"]}))
    post = []
    if rng.random() < 0.3:
        post.append((rng.choice(["run_command", "run_experiment"]), {"name": rng.choice(pool), "run": "true"}))
    if rng.random() < 0.15:
        post.append(("group", {"name": rng.choice(pool), "deps": [":t0"]}))
    return {"pre": pre, "post": post, "group": g, "tag": "random"}


def random_valid_case(rng):
    """mostly well-formed groups: distinct valid names, well-typed fields, existing dependencies"""
    n = rng.choice([1, 2, 2, 3, 3, 4, 5])
    names = rng.sample(["a", "b", "c", "e1", "x-1", "x_2", "Z9", "sweep-1", "sweep-2", "w"], n)
    members = []
    for nm in names:
        f = {"name": nm}
        if rng.random() < 0.6:
            f["args"] = [rng.choice([1, -3, "x", "", True, False, 0.5, 2.0, "a b"]) for _ in range(rng.randrange(0, 4))]
        if rng.random() < 0.6:
            f["options"] = {rng.choice(["a", "b", "threads", "mem"]): rng.choice([1, "x", True, 0.25, 16]) for _ in range(rng.randrange(0, 3))}
        if rng.random() < 0.5:
            f["parallelizable"] = rng.random() < 0.5
        members.append(Inst(**f))
    g = {"name": rng.choice(["g", "all", "sweep"]), "run": rng.choice(["true", "./r.sh", "python3 run.py"])}
    g["experiments"] = tuple(members) if rng.random() < 0.1 else members
    if rng.random() < 0.7:
        g["chain_experiments"] = rng.random() < 0.6
    if rng.random() < 0.7:
        g["deps"] = rng.sample([":t0", ":t1", "//other:x", "//d:t0"], rng.randrange(0, 3))
        if ":t0" in g["deps"] and "//d:t0" in g["deps"]:
            g["deps"].remove("//d:t0")
    # a small fraction gets exactly one defect
    r = rng.random()
    if r < 0.06 and len(members) >= 2:
        members[-1].fields["name"] = members[0].fields["name"]
    elif r < 0.10:
        members[rng.randrange(len(members))].fields["name"] = g["name"]
    elif r < 0.13:
        members[rng.randrange(len(members))].fields["name"] = "t0"
    elif r < 0.16:
        members.insert(rng.randrange(len(members) + 1), rng.choice(["s", 5, ("a",)]))
        g["experiments"] = members
    pre = base_pre() + [("run_experiment", {"name": "t1", "run": "true", "deps": [":t0"]})]
    post = []
    if rng.random() < 0.2:
        post.append(("group", {"name": "later", "deps": [":" + g["name"]]}))
    return {"pre": pre, "post": post, "group": g, "tag": "random-valid"}


# ----------------------------------------------------------------------------- one case on the implementation
def jv(v):
    """a case value -> JSON"""
    if isinstance(v, Inst):
        return {"ExperimentInstance": {k: jv(x) for k, x in v.fields.items()}}
    if isinstance(v, Other):
        return {"python": v.src}
    if isinstance(v, FloatX):
        return {"floatx": v.src}
    if isinstance(v, tuple):
        return {"tuple": [jv(x) for x in v]}
    if isinstance(v, list):
        return [jv(x) for x in v]
    if isinstance(v, dict):
        return {"dict": [[jv(k), jv(x)] for k, x in v.items()]}
    return v


def uv(v):
    """inverse of jv"""
    if isinstance(v, dict):
        if "ExperimentInstance" in v:
            return Inst(**{k: uv(x) for k, x in v["ExperimentInstance"].items()})
        if "python" in v:
            return Other(v["python"])
        if "floatx" in v:
            return FloatX(v["floatx"])
        if "tuple" in v:
            return tuple(uv(x) for x in v["tuple"])
        if "dict" in v:
            return {uv(k): uv(x) for k, x in v["dict"]}
    if isinstance(v, list):
        return [uv(x) for x in v]
    return v


def jsonable(case):
    return {"pre": [[c, jv(kw)] for c, kw in case["pre"]], "post": [[c, jv(kw)] for c, kw in case["post"]],
            "group": jv(case["group"]), "tag": case.get("tag", ""), "group_form": render_group_form(case)}


def unjson(obj):
    return {"pre": [(c, uv(kw)) for c, kw in obj["pre"]], "post": [(c, uv(kw)) for c, kw in obj["post"]],
            "group": uv(obj["group"]), "tag": obj.get("tag", "")}


def observe(loader, case):
    """(outcome of the group form, outcome of the explicit form | None, deps list unchanged?)"""
    gtext = render_group_form(case)
    root = loader.write({DIR + "/COND": gtext, "other/COND": OTHER_COND})
    og, _ = loader.load_file(root, DIR)
    calls = doc_expand(case["group"])
    oe = None
    if calls is not None:
        root2 = loader.write({DIR + "/COND": render_explicit_form(case, calls), "other/COND": OTHER_COND})
        oe, _ = loader.load_file(root2, DIR)
    return og, oe


def multi_file(chk, loader):
    """several COND files with groups in ONE invocation: instance names are file-local, so two files may use
    the same names; the closure of a task that reaches both must load exactly like the explicit forms"""
    import pathlib
    from conductor.parsing.task_index import TaskIndex
    from conductor.task_identifier import TaskIdentifier

    grp = lambda name, deps: ('run_experiment_group(name=%r, run="true", experiments=[ExperimentInstance(name="run-1"), '  # noqa: E731
                              'ExperimentInstance(name="run-2", args=[1])], deps=%r)\n' % (name, deps))
    exp = lambda name, deps: ('run_experiment(name="run-1", run="true", deps=%r)\nrun_experiment(name="run-2", run="true", args=[1], deps=%r)\n'  # noqa: E731
                              'combine(name=%r, deps=[":run-1", ":run-2"])\n' % (deps, deps, name))
    forms = {
        "group": {DIR + "/COND": grp("sweep", ["//sub:sweep", "//sub/deep:sweep"]), "sub/COND": grp("sweep", []), "sub/deep/COND": grp("sweep", ["//sub:sweep"])},
        "explicit": {DIR + "/COND": exp("sweep", ["//sub:sweep", "//sub/deep:sweep"]), "sub/COND": exp("sweep", []), "sub/deep/COND": exp("sweep", ["//sub:sweep"])},
    }
    seen = {}
    for form, files in forms.items():
        root = loader.write(dict(files, **{"other/COND": OTHER_COND}))
        idx = TaskIndex(pathlib.Path(root))
        try:
            idx.load_transitive_closure(TaskIdentifier.from_str("//%s:sweep" % DIR))
            seen[form] = ("ok", sorted((str(k), type(t).__name__, tuple(str(d) for d in t.deps)) for k, t in idx.get_all_loaded_tasks().items()))
        except Exception as ex:  # pylint: disable=broad-except
            seen[form] = ("err", type(ex).__name__, str(ex)[:200])
        chk.coverage["evaluations"] += 1
    if seen["group"] != seen["explicit"]:
        chk.violation("impl-violation", "groups in several COND files of one invocation (same instance names in each file): group form loads as %r, the documented expansion as %r" % (seen["group"], seen["explicit"]),
                      {"input": {"files_group_form": forms["group"], "files_explicit_form": forms["explicit"], "load": "//%s:sweep" % DIR},
                       "impl_observation": seen, "oracle_verdict": "both forms must load to the same task graph"},
                      match_key={"group": "multi-file-same-instance-names"}, size=3)


def canon(o):
    """comparable form of an outcome"""
    if o[0] == "ok":
        return ("ok", [(t["ident"], t["type"], tuple(t["deps"]), repr(t["run"]), repr(t["args"]), repr(t["options"]), repr(t["parallelizable"])) for t in o[1]])
    return ("err",)


def oracle(chk, case, og, oe):
    """the property on the implementation: group form == documented explicit form"""
    key = {"group": case.get("tag", "")}
    if oe is None:
        if og[0] == "ok":
            chk.violation("impl-violation", "a group with a member that is not an ExperimentInstance was accepted",
                          {"input": jsonable(case), "impl_observation": {"group_form": repr(og)}, "oracle_verdict": "no documented expansion exists, the group form must be rejected"},
                          match_key=key, size=len(render_group_form(case)))
        return
    if canon(og) != canon(oe):
        chk.violation("impl-violation", "group form and its documented expansion load differently: group=%s explicit=%s" % (summ(og), summ(oe)),
                      {"input": jsonable(case), "impl_observation": {"group_form": repr(og), "explicit_form": repr(oe)},
                       "explicit_form_source": render_explicit_form(case, doc_expand(case["group"])),
                       "oracle_verdict": "the two forms must load to the same task graph or both be rejected"},
                      match_key=key, size=len(render_group_form(case)))


def summ(o):
    if o[0] == "ok":
        return "ok(%d tasks)" % len(o[1])
    return "rejected(%s)" % (o[1][0],)


def nontrivial_key(case, og):
    g = case["group"]
    return repr((sorted((k, repr(v)) for k, v in g.items()), [repr(x) for x in case["pre"]], [repr(x) for x in case["post"]]))


# ----------------------------------------------------------------------------- execution sample
def exec_sample(chk, case):
    """run both forms through `cond run //d:<group>`; compare what was spawned and what combine produced"""
    calls = doc_expand(case["group"])
    res = []
    for text in (render_group_form(case), render_explicit_form(case, calls)):
        root = implrun.make_project({DIR + "/COND": text, "other/COND": OTHER_COND, DIR + "/r.sh": R_SH})
        os.chmod(os.path.join(root, DIR, "r.sh"), 0o755)
        r = implrun.run_cond(["run", "//%s:%s" % (DIR, case["group"]["name"])], cwd=root, env={"TRACE_FILE": os.path.join(root, "trace.txt")})
        trace = open(os.path.join(root, "trace.txt"), encoding="utf-8").read() if os.path.exists(os.path.join(root, "trace.txt")) else ""
        out = {}
        base = os.path.join(root, "cond-out", DIR)
        for dp, _dn, fns in os.walk(base):
            for fn in fns:
                rel = os.path.relpath(os.path.join(dp, fn), base)
                import re as _re
                rel = _re.sub(r"\.task\.\d+", ".task.<v>", rel)
                if fn in ("stdout.log", "stderr.log", "args.json", "options.json", "result.txt"):
                    out[rel] = open(os.path.join(dp, fn), encoding="utf-8", errors="replace").read()
        res.append((r.code, trace, out))
    if res[0] != res[1]:
        chk.violation("impl-violation", "executing the group form and the explicit form differs",
                      {"input": jsonable(case), "impl_observation": {"group_form": repr(res[0]), "explicit_form": repr(res[1])},
                       "oracle_verdict": "same exit status, same spawn trace (names, args, deps), same outputs"},
                      match_key={"group": case.get("tag", "")}, size=len(render_group_form(case)))
    return res[0]


R_SH = """#!/bin/bash
echo "$COND_NAME $@ deps=$(echo "$COND_DEPS" | tr ':' '\\n' | sed -e 's#.*/cond-out/##' -e 's#\\.task\\.[0-9]*#.task.<v>#' | tr '\\n' ',')" >> "$TRACE_FILE"
echo "$COND_NAME $@" > "$COND_OUT/result.txt"
"""


def exec_cases():
    out = []
    for chain in (True, False):
        out.append({"pre": base_pre(), "post": [], "tag": "exec",
                    "group": {"name": "g", "run": "./r.sh",
                              "experiments": [Inst(name="a", args=[1, "x"]), Inst(name="b", options={"k": 2}), Inst(name="c")],
                              "chain_experiments": chain, "deps": [":t0"]}})
    out.append({"pre": base_pre(), "post": [], "tag": "exec", "group": {"name": "g", "run": "./r.sh"}})
    return out


# ----------------------------------------------------------------------------- main
def rebound_names_and_case_twins(chk):
    """The group is its documented expansion whatever the COND file calls its own things: a COND file may rebind the names
    the library uses internally -- `ExperimentInstance` wrapped by functools.partial or by a local function, a helper
    named `combine` brought in by include() -- before (or after) it calls run_experiment_group; and instance names that
    differ only in case are different tasks.  For each variant the group form and the explicit form written from the
    documentation must both be accepted by `cond run --check` and execute the same commands.  (Seed C19/k: the library
    was compiled into every COND file's own namespace, so its internal names resolved against the file's bindings; seed
    C19/l: the duplicate-instance test folded case.)"""
    import implrun

    log_cmd = "echo $COND_NAME >> %s; true"
    variants = {
        "partial": ('import functools\nExperimentInstance = functools.partial(ExperimentInstance, parallelizable=True)\n', 'ExperimentInstance(name="a"), ExperimentInstance(name="b")', ["a", "b"]),
        "wrapper": ('_EI = ExperimentInstance\ndef ExperimentInstance(name, threads=1):\n    return _EI(name=name, options={"threads": threads})\n', 'ExperimentInstance("a", 2), ExperimentInstance("b")', ["a", "b"]),
        "helper named combine": ('include("//helpers.cond")\nOPTS = combine({"x": 1}, {"y": 2})\n', 'ExperimentInstance(name="a", options=OPTS), ExperimentInstance(name="b")', ["a", "b"]),
        "case twins": ('', 'ExperimentInstance(name="Sweep-A"), ExperimentInstance(name="sweep-b"), ExperimentInstance(name="sweep-a")', ["Sweep-A", "sweep-b", "sweep-a"]),
        "case twins, chained": ('', 'ExperimentInstance(name="lru"), ExperimentInstance(name="LRU")', ["lru", "LRU"]),
    }
    for vname, (pre, insts, names) in variants.items():
        root = implrun.make_project({"COND": ""})
        log = os.path.join(root, "events.log")
        chain = "chained" in vname
        files = {"helpers.cond": "def combine(*dicts):\n    out = {}\n    for d in dicts:\n        out.update(d)\n    return out\n",
                 "g/COND": pre + 'run_experiment_group(name="all", run="%s", experiments=[%s]%s)\n' % (log_cmd % log, insts, ", chain_experiments=True" if chain else "")}
        for rel, text in files.items():
            os.makedirs(os.path.dirname(os.path.join(root, rel)), exist_ok=True)
            open(os.path.join(root, rel), "w").write(text)
        chk.coverage["evaluations"] = chk.coverage.get("evaluations", 0) + 2
        chk.count("origin", "rebound names / case twins")
        problems = []
        rc = implrun.run_cond(["run", "//g:all", "--check"], root, timeout=60)
        if rc.code != 0:
            problems.append("`cond run //g:all --check` rejects the group (exit %s): %s" % (rc.code, implrun.strip_ansi(rc.out + rc.err).strip()[-200:]))
        else:
            rr = implrun.run_cond(["run", "//g:all"], root, timeout=60)
            ran = open(log).read().split() if os.path.exists(log) else []
            if rr.code != 0 or sorted(ran) != sorted(names) or (chain and ran != names):
                problems.append("`cond run //g:all` exited %s and executed %r; the documented expansion executes %r%s" % (rr.code, ran, names, " in this order" if chain else ""))
            entries = sorted(os.listdir(os.path.join(root, "cond-out", "g", "all.task"))) if os.path.isdir(os.path.join(root, "cond-out", "g", "all.task")) else None
            if not problems and entries != sorted(names):
                problems.append("the group's combine directory holds %r, one entry per instance is %r" % (entries, sorted(names)))
        for msg in problems[:1]:
            chk.violation("impl-violation", "run_experiment_group in a COND file with %s: %s" % (vname, msg),
                          {"input": {"part": "rebound-names", "variant": vname, "files": files}, "oracle_verdict": msg}, match_key={"part": "rebound-names"}, size=3)


def run(tier, seed, replay=None):
    chk = Check("C19", tier, seed)
    chk.build_proofs(["Model/Group.vo", "Model/Schema.vo", "Lib/Cmp.vo"])
    chk.assumptions = [
        "chain_experiments is a Boolean (the function uses the truthiness of any value and never validates it; outside the documented call forms)",
        "Python ==, hash and iteration on the value abstraction of Model/Schema.v (True == 1 == 1.0, a str iterates to characters, a dict to keys) are hand-modelled; tied by the correspondence",
        "run_experiment / combine raise only ConductorErrors (never TypeError) -- true of the shims by reading; C19_equal holds for every handler that returns a result",
    ]
    loader = Loader()
    multi_file(chk, loader)
    if replay is None:
        rebound_names_and_case_twins(chk)

    if replay is not None:
        case = unjson(replay["input"])
        og, oe = observe(loader, case)
        print("replay: group form:\n%s\n -> %s\nexplicit form -> %s" % (render_group_form(case), og, oe))
        oracle(chk, case, og, oe)
        model_compare(chk, [(case, og, oe)])
        return chk.finish()

    cases = corpus()
    if tier == "quick":
        cases += exhaustive(2, ["plain", "other"])
        cases += [c for c in exhaustive(1, INST_KINDS)]
        nrand = 400
    else:
        cases += exhaustive(3, ["plain", "other"])
        cases += exhaustive(2, INST_KINDS)
        nrand = 5000
    for _ in range(nrand):
        cases.append(random_valid_case(chk.rng))
        cases.append(random_case(chk.rng))

    rows = []
    distinct = set()
    for case in cases:
        og, oe = observe(loader, case)
        oracle(chk, case, og, oe)
        rows.append((case, og, oe))
        chk.count("origin", case["tag"].split("-")[0] if case["tag"] not in ("exhaustive", "random", "random-valid") else case["tag"])
        chk.count("group_form", "accepted" if og[0] == "ok" else og[1][0])
        g = case["group"]
        e = g.get("experiments", [])
        if isinstance(e, (list, tuple)):
            chk.count("instances", str(len(e)))
        # non-trivial: at least one member, or a rejection, or the no-experiments call
        if (isinstance(e, (list, tuple)) and len(e) > 0) or og[0] != "ok" or "experiments" not in g:
            distinct.add(nontrivial_key(case, og))
        if case["tag"] not in ("exhaustive",) and og[0] == "ok" and len(og[1]) >= 3:
            chk.sample({"group_form": render_group_form(case), "loaded": [(t["ident"][1], t["type"], [d[1] for d in t["deps"]]) for t in og[1]]})
    chk.coverage["evaluations"] = len(cases)
    chk.coverage["distinct_nontrivial"] = len(distinct)
    chk.coverage["exhaustive"] = False
    chk.coverage["rule"] = (
        "each case is a COND file (earlier tasks, one run_experiment_group, later tasks) loaded by the real TaskIndex in group form and in the "
        "explicit form written from the documentation; corpus (documented example, missing `experiments`, every kind of name clash, non-instances, "
        "chaining) + every group with <= %d members over names {a,b,g(group),t0(earlier task)} x member kinds x chain x 5 deps shapes + seeded random; "
        "non-trivial = has at least one member, or is rejected, or omits `experiments`; distinct = distinct (group, surrounding tasks)"
        % (2 if tier == "quick" else 3)
    )

    model_compare(chk, rows)

    # execution sample
    ex = exec_cases() if tier == "quick" else exec_cases() + [c for c in corpus() if c["tag"] in ("chain-True", "chain-False", "doc-example", "tuple", "empty")]
    nexec = 0
    for case in ex:
        if doc_expand(case["group"]) is None:
            continue
        case = copy.deepcopy(case)
        case["group"]["run"] = "./r.sh"
        r = exec_sample(chk, case)
        nexec += 1
        if r[0] != 0:
            chk.violation("impl-violation", "a well-formed group did not run: exit %s" % r[0], {"input": jsonable(case), "impl_observation": repr(r), "oracle_verdict": "exit 0"}, match_key={"group": "exec"})
    chk.coverage["executed_in_both_forms"] = nexec
    if tier == "thorough":
        chk.run_coqchk()
    return chk.finish()


def model_compare(chk, rows):
    if not chk.coq.model_ok:
        chk.violation("correspondence", "model does not build: " + chk.coq.log[-400:], {"theorem_or_tie": "build of Model/Group.vo", "log": chk.coq.log[-3000:]}, found_input=False)
        return
    shard = 250
    shards = [rows[i:i + shard] for i in range(0, len(rows), shard)]

    def want(row):
        case, og, oe = row
        nums = ser_outcome(og)
        nums += [0] if oe is None else [1] + ser_outcome(oe)
        if oe is None:
            agree = og[0] != "ok"
        else:
            agree = (og[0] == "ok") == (oe[0] == "ok")
        nums += [1 if agree else 0]
        return pack(nums)

    def one(rs):
        defs = DEFS % {"dir": cstr(DIR), "cases": clist([cstmts(c) for c, _, _ in rs])}
        return run_packed_cases(COQ_IMPORTS, defs, ["map row cases"], [[want(r) for r in rs]])[0]

    with concurrent.futures.ThreadPoolExecutor(max_workers=NCPU) as ex:
        results = list(ex.map(one, shards))
    agree = 0
    for rs, (ok, bad, raw) in zip(shards, results):
        if not ok:
            chk.violation("correspondence", "model evaluation failed: %s" % raw[-400:], {"theorem_or_tie": "correspondence Model/Group.v", "coq_output": raw}, found_input=False)
        elif bad:
            i = bad[0]
            case, og, oe = rs[i]
            chk.violation("correspondence", "Model/Group.v and the loader disagree on %s: impl group=%s explicit=%s" % (render_group_form(case)[-200:], og, oe),
                          {"theorem_or_tie": "correspondence Model/Group.v + Model/Schema.v vs run_experiment_group.py / task_loader.py / task_index.py",
                           "input": jsonable(case), "impl_observation": {"group_form": repr(og), "explicit_form": repr(oe)}, "n_mismatches_in_shard": len(bad)},
                          found_input=False)
        else:
            agree += len(rs)
    chk.coverage["traces_validated_against_impl"] = agree
    chk.coverage["disagreements_checked"] = len(rows)
