"""C18 -- combine() exposes each dependency's output under its name.

proofs : coq/Props/C18.v (relpath_resolves, links, update, conflict, dangling, frame) about
         Model/Combine.v over Lib/Path.v.
tie    : (A) Lib/Path.v  vs os.path.relpath / pathlib.relative_to / os.path.normpath, exhaustive over
             small component alphabets and depths (packed channel, two-level search on mismatch);
         (B) Model/Combine.v:combine_step vs the real CombineOutputs.start_execution on generated
             directory states (exhaustive one-dependency scope + seeded multi-dependency cases);
         (C) real `cond run` of combine tasks over dependencies of every kind in nested packages
             across sequences of runs (new versions with --again, pre-existing files /
             directories / dangling links), observations also replayed through the model.
oracle : after a successful run every listed dependency with a non-empty output directory has an
         entry <name> that is a symbolic link whose os.path.realpath is the directory the
         dependency recorded in $COND_OUT (= what a sibling dependent received in $COND_DEPS);
         a non-link entry (or a dangling link) makes the run fail and is left unchanged; entries
         of other names are untouched.
"""
import os
import pathlib
import shutil

from common import (Check, cstr, clist, copt, setup_impl_path, new_dir, ser_str, ser_list, ser_opt, ser_bool,
                    pack, run_packed_cases)
import implrun
from c1718_util import (abs_str, parts_of, lists_upto, COQ_LISTS_UPTO, cpath, cpaths, chunks, combine_entries,
                        is_nonempty_dir, existing_paths, PKGS, Task, render_cond, read_trace, trace_name, out_rel, run_cond_retry, preimport)

IMPORTS = "From Conductor Require Import Lib.Str Lib.Cmp Lib.Path Model.Ident Model.Combine."
UNIVERSE = ["a", "b", "e", "g", "z"]

# ============================================================================= (A) path library
DEFS_A = COQ_LISTS_UPTO + """
Definition names : list str := %(names)s.
Definition paths : list (list str) := lists_upto names %(depth)d%%nat.
Definition cell (b p : list str) : list N :=
  ser_list ser_str (relpath b p) ++ ser_str (show_rel (relpath b p))
  ++ ser_opt (ser_list ser_str) (relative_to b p) ++ ser_bool (is_prefix b p)
  ++ ser_list ser_str (resolve (b ++ relpath b p)).
Definition row (b : list str) : N := pack (flat_map (cell b) paths).
Definition ralpha : list str := %(ralpha)s.
Definition rgroup (prefix : list str) (k : nat) : N :=
  pack (flat_map (fun l => ser_list ser_str (resolve (prefix ++ l))) (lists_upto ralpha k)).
"""


def impl_cell(b, p):
    bs, ps = abs_str(b), abs_str(p)
    rel = os.path.relpath(ps, bs)
    try:
        rt = list(pathlib.PurePosixPath(ps).relative_to(bs).parts)
    except ValueError:
        rt = None
    pb, pp = pathlib.PurePosixPath(bs), pathlib.PurePosixPath(ps)
    pref = pb == pp or pb in pp.parents
    res = parts_of(os.path.normpath(os.path.join(bs, rel)))
    return (rel.split("/"), rel, rt, pref, res)


def ser_cell(c):
    rel_parts, rel, rt, pref, res = c
    return (ser_list(ser_str, rel_parts) + ser_str(rel) + ser_opt(lambda r: ser_list(ser_str, r), rt)
            + ser_bool(pref) + ser_list(ser_str, res))


def impl_resolve(l):
    return parts_of(os.path.normpath("/" + "/".join(l)))


def part_paths(chk, tier, only=None):
    names = ["a", "b", "..."] if tier == "quick" else ["a", "b", "...", ".a"]
    depth = 4
    ralpha = ["a", ".", "..", "", "..."]
    rdepth = 5 if tier == "quick" else 7
    paths = lists_upto(names, depth)
    defs = DEFS_A % {"names": clist([cstr(n) for n in names]), "depth": depth, "ralpha": clist([cstr(n) for n in ralpha])}
    n_pairs = 0
    # --- the property of the real functions (hypothesis of the theorems restated on CPython)
    rows = []
    for b in paths:
        nums = []
        for p in paths:
            c = impl_cell(b, p)
            n_pairs += 1
            if c[4] != p:
                chk.violation("correspondence", "os.path: normpath(join(%r, relpath(%r, %r))) = %r" % (abs_str(b), abs_str(p), abs_str(b), c[4]),
                              {"theorem_or_tie": "relpath_resolves on CPython's os.path", "input": {"kind": "paths", "base": b, "p": p}}, found_input=False)
            if (c[2] is not None) != c[3]:
                chk.violation("correspondence", "pathlib: relative_to defined = %r but prefix = %r for %r, %r" % (c[2] is not None, c[3], b, p),
                              {"theorem_or_tie": "relative_to_defined on pathlib", "input": {"kind": "paths", "base": b, "p": p}}, found_input=False)
            nums.extend(ser_cell(c))
        rows.append(pack(nums))
    nshards = 8 if tier == "quick" else 16
    per = (len(paths) + nshards - 1) // nshards
    exprs, wants, spans = [], [], []
    for i in range(0, len(paths), per):
        k = min(per, len(paths) - i)
        exprs.append("map row (firstn %d%%nat (skipn %d%%nat paths))" % (k, i))
        wants.append(rows[i:i + k])
        spans.append((i, k))
    # --- resolve vs normpath: groups (prefix, depth of the free suffix)
    rfirst = [c for c in ralpha if c != ""]
    groups = [([], 0)]
    for c1 in rfirst:
        groups.append(([c1], 0))
        for c2 in ralpha:
            groups.append(([c1, c2], rdepth - 2))
    gwant = []
    n_res = 0
    sub_cache = {}
    for prefix, k in groups:
        if k not in sub_cache:
            sub_cache[k] = lists_upto(ralpha, k)
        nums = []
        for l in sub_cache[k]:
            nums.extend(ser_list(ser_str, impl_resolve(prefix + l)))
            n_res += 1
        gwant.append(pack(nums))
    gper = 6
    gspans = []
    for i in range(0, len(groups), gper):
        gs = groups[i:i + gper]
        exprs.append(clist(["rgroup %s %d%%nat" % (cpath(pf), k) for pf, k in gs]))
        wants.append(gwant[i:i + gper])
        gspans.append((i, len(gs)))
    chk.coverage["evaluations"] += n_pairs + n_res
    chk.count("paths", "relpath/relative_to/is_prefix pairs", n_pairs)
    chk.count("paths", "resolve lists", n_res)
    if not chk.coq.model_ok:
        return n_pairs + n_res, 0
    res = run_packed_cases(IMPORTS, defs, exprs, wants)
    agree = 0
    for si, (ok, bad, raw) in enumerate(res):
        if not ok:
            chk.violation("correspondence", "model evaluation failed (Lib/Path.v): %s" % raw[-300:], {"theorem_or_tie": "correspondence Lib/Path.v", "coq_output": raw}, found_input=False)
            continue
        if not bad:
            agree += sum(len(paths) for _ in wants[si]) if si < len(spans) else sum(len(sub_cache[groups[gspans[si - len(spans)][0] + j][1]]) for j in range(len(wants[si])))
            continue
        if si < len(spans):
            b = paths[spans[si][0] + bad[0]]
            # level 2: which p
            items = ["pack (cell %s %s)" % (cpath(b), cpath(p)) for p in paths]
            want2 = [pack(ser_cell(impl_cell(b, p))) for p in paths]
            r2 = run_packed_cases(IMPORTS, defs, [clist(c) for c in chunks(items, 200)], chunks(want2, 200))
            pbad = None
            for ci, (ok2, bad2, _raw2) in enumerate(r2):
                if ok2 and bad2:
                    pbad = paths[ci * 200 + bad2[0]]
                    break
            chk.violation("correspondence", "Lib/Path.v and os.path/pathlib disagree for base=%r p=%r: impl=%r" % (b, pbad, impl_cell(b, pbad) if pbad is not None else None),
                          {"theorem_or_tie": "correspondence Lib/Path.v (relpath, relative_to, is_prefix) vs os.path / pathlib", "input": {"kind": "paths", "base": b, "p": pbad}}, found_input=False)
        else:
            prefix, k = groups[gspans[si - len(spans)][0] + bad[0]]
            ls = [prefix + l for l in sub_cache[k]]
            items = ["pack (ser_list ser_str (resolve %s))" % cpath(l) for l in ls]
            want2 = [pack(ser_list(ser_str, impl_resolve(l))) for l in ls]
            r2 = run_packed_cases(IMPORTS, defs, [clist(c) for c in chunks(items, 400)], chunks(want2, 400))
            lbad = None
            for ci, (ok2, bad2, _raw2) in enumerate(r2):
                if ok2 and bad2:
                    lbad = ls[ci * 400 + bad2[0]]
                    break
            chk.violation("correspondence", "Lib/Path.v:resolve and os.path.normpath disagree on %r: normpath=%r" % (lbad, impl_resolve(lbad) if lbad is not None else None),
                          {"theorem_or_tie": "correspondence Lib/Path.v:resolve vs os.path.normpath", "input": {"kind": "resolve", "list": lbad}}, found_input=False)
    chk.sample({"base": ["a", "b"], "p": ["a", "...", "b"], "impl": impl_cell(["a", "b"], ["a", "...", "b"])})
    return n_pairs + n_res, agree


# ============================================================================= (B) the operation
DEFS_B = COQ_LISTS_UPTO + """
Definition universe : list str := %(universe)s.
Definition ser_outcome (o : outcome) : list N :=
  match o with Done => [0] | ConflictAt n => 1 :: ser_str n end.
Definition ser_dest (out : list str) (e : option entry) : list N :=
  match e with None => [0] | Some (Link t) => 1 :: ser_list ser_str (link_dest out t) | Some Other => [2] end.
Definition ser_text (e : option entry) : list N :=
  match e with None => [0] | Some (Link t) => 1 :: ser_str (show_rel t) | Some Other => [2] end.
Definition mkfs (dirs nonempty : list (list str)) : fs :=
  {| fs_is_dir := fun p => mem_path p dirs; fs_nonempty := fun p => mem_path p nonempty |}.
Definition scen (f : fs) (co out : list str) (deps : list (ident * list str)) (pre : option dirmap)
           (names : list str) : list N :=
  let r := combine_step f co out deps pre in
  [pack (ser_outcome (fst r) ++ flat_map (fun n => ser_dest out (lookup n (snd r))) names);
   pack (flat_map (fun n => ser_text (lookup n (snd r))) names)].
"""


def cident(pkg_parts, name):
    return "{| ipath := %s; iname := %s |}" % (cpath(pkg_parts), cstr(name))


def centry(e, obs=None):
    if e[0] == "l":
        text = e[1]
        if text.startswith("/") and obs is not None:
            # the model keeps link texts relative; an absolute text is handed over as the equivalent relative one
            text = os.path.relpath(os.path.normpath(text), os.path.join(obs["top"], *obs["out"]))
        return "Link %s" % cpath(text.split("/"))
    return "Other"


def scen_expr(obs):
    deps = clist(["(%s, %s)" % (cident(d["pkg"], d["name"]), cpath(d["dir"])) for d in obs["deps"]])
    pre = "None" if obs["pre"] is None else "(Some %s)" % clist(["(%s, %s)" % (cstr(n), centry(e, obs)) for n, e in sorted(obs["pre"].items())])
    names = "universe" if obs.get("names") is None else clist([cstr(n) for n in obs["names"]])
    return "scen (mkfs %s %s) %s %s %s %s %s" % (cpaths(obs["dirs"]), cpaths(obs["nonempty"]), cpath(obs["co"]), cpath(obs["out"]), deps, pre, names)


def obs_pack(obs):
    """the two numbers the model must reproduce: (outcome, lexical destination per universe name), (link text per name)"""
    o = obs["outcome"]
    nums = [0] if o[0] == "done" else ([1] + ser_str(o[1]) if o[0] == "conflict" else [2] + ser_str(o[1]))
    text = []
    for n in (UNIVERSE if obs.get("names") is None else obs["names"]):
        e = obs["post"].get(n)
        if e is None:
            nums += [0]
            text += [0]
        elif e[0] == "l":
            if e[1].startswith("/"):  # an absolute link text: strip the scratch prefix
                dest = parts_of(os.path.relpath(os.path.normpath(e[1]), obs["top"]))
            else:
                dest = parts_of(os.path.normpath(abs_str(obs["out"]) + "/" + e[1]))
            nums += [1] + ser_list(ser_str, dest)
            text += [1] + ser_str(e[1])
        else:
            nums += [2]
            text += [2]
    return [pack(nums), pack(text)]


def own_form(text, out_dir, cond_out, name):
    """is the link text one Conductor makes for a dependency of that name: it leads (lexically) to <name>.task or
    <name>.task.<something> strictly inside cond-out -- an independent statement of the rule of the property
    ("an entry that is not a link Conductor made is reported as an error rather than overwritten")"""
    dest = os.path.normpath(os.path.join(out_dir, text))
    co = os.path.normpath(cond_out)
    if not dest.startswith(co + os.sep):
        return False
    b = os.path.basename(dest)
    return b == name + ".task" or b.startswith(name + ".task.")


class StepImpl:
    def __init__(self):
        setup_impl_path()
        from conductor.errors import CombineOutputFileConflict
        from conductor.execution.operation_state import OperationState
        from conductor.execution.ops.combine_outputs import CombineOutputs
        from conductor.task_identifier import TaskIdentifier

        self.Conflict = CombineOutputFileConflict
        self.State = OperationState
        self.Op = CombineOutputs
        self.T = TaskIdentifier

    def run(self, sc):
        """materialise the scenario in a fresh scratch directory, run the real operation, observe"""
        top = new_dir("c18step")
        try:
            return self._run(sc, top)
        finally:
            shutil.rmtree(top, ignore_errors=True)

    def _run(self, sc, top):
        def P(parts):
            return os.path.join(top, *parts)

        for parts, kind in sc.get("extra", []):
            if kind == "dir":
                os.makedirs(P(parts), exist_ok=True)
                open(os.path.join(P(parts), "f"), "w").close()
            else:
                os.makedirs(os.path.dirname(P(parts)), exist_ok=True)
                open(P(parts), "w").close()
        for d in sc["deps"]:
            p = P(d["dir"])
            st = d["state"]
            if os.path.lexists(p):
                continue  # the same directory listed twice
            os.makedirs(os.path.dirname(p), exist_ok=True)
            if st == "nonempty":
                os.makedirs(p)
                open(os.path.join(p, "data"), "w").close()
            elif st == "empty":
                os.makedirs(p)
            elif st == "file":
                open(p, "w").close()
            elif st == "symlink":
                os.makedirs(p + "__real")
                open(os.path.join(p + "__real", "data"), "w").close()
                os.symlink(os.path.basename(p) + "__real", p)
        out = P(sc["out"])
        if sc["pre"] is not None:
            os.makedirs(out, exist_ok=True)
            for n, e in sc["pre"].items():
                q = os.path.join(out, n)
                if e[0] == "l":
                    os.symlink(e[1], q)
                elif e[0] == "file":
                    open(q, "w").close()
                else:
                    os.makedirs(q)
        # environment observations (inputs of the model)
        dep_dirs = []
        for d in sc["deps"]:
            if d["dir"] not in dep_dirs:
                dep_dirs.append(d["dir"])
        obs = {
            "out": sc["out"],
            "deps": [{"pkg": d["pkg"], "name": d["name"], "dir": d["dir"]} for d in sc["deps"]],
            "dirs": [d for d in dep_dirs if os.path.isdir(P(d))],
            "nonempty": [d for d in dep_dirs if is_nonempty_dir(P(d))],
            "co": ["r", "cond-out"],
            "top": top,
            "pre": None if sc["pre"] is None else {n: (("l", e[1]) if e[0] == "l" else ("o",)) for n, e in sc["pre"].items()},
        }
        op = self.Op(
            initial_state=self.State.QUEUED, task=None, identifier=self.T(pathlib.Path(*sc["out"][2:-1]), "c"),
            output_path=pathlib.Path(out),
            deps_output_paths=[(self.T(pathlib.Path(*d["pkg"]), d["name"]), pathlib.Path(P(d["dir"]))) for d in sc["deps"]],
        )
        try:
            import types

            op.start_execution(types.SimpleNamespace(output_path=pathlib.Path(P(["r", "cond-out"]))), None)
            outcome = ("done",)
        except self.Conflict as ex:
            outcome = ("conflict", os.path.basename(ex.output_file))
        except FileExistsError as ex:
            outcome = ("fileexists", os.path.basename(ex.filename2 or ex.filename))
        obs["outcome"] = outcome
        obs["post"] = {n: ((e[0], e[1]) if e[0] == "l" else ("o",)) for n, e in combine_entries(out).items()}
        # --- the property, stated on the real directory
        verdicts = []
        names = [d["name"] for d in sc["deps"]]
        real_top = os.path.realpath(top)
        for d in sc["deps"]:
            if names.count(d["name"]) > 1:
                continue
            wanted = d["dir"] in obs["nonempty"]
            before = None if sc["pre"] is None else sc["pre"].get(d["name"])
            q = os.path.join(out, d["name"])
            if wanted and outcome == ("done",):
                if not os.path.islink(q):
                    verdicts.append("no link %r for a dependency with a non-empty output directory" % d["name"])
                elif os.path.realpath(q) != os.path.realpath(P(d["dir"])):
                    verdicts.append("entry %r resolves to %r, the dependency's directory is %r" % (d["name"], os.path.realpath(q)[len(real_top):], abs_str(d["dir"])))
            if wanted and before is not None and (before[0] in ("file", "dir") or (before[0] == "l" and not own_form(before[1], out, P(["r", "cond-out"]), d["name"]))):
                what = "non-link entry" if before[0] != "l" else "symbolic link %r that Conductor did not make" % before[1]
                if outcome[0] == "done":
                    verdicts.append("%s under %r in the way but the operation reported success" % (what, d["name"]))
                kind_now = "l" if os.path.islink(q) else ("file" if os.path.isfile(q) else ("dir" if os.path.isdir(q) else "gone"))
                if kind_now != before[0] or (before[0] == "l" and os.readlink(q) != before[1]):
                    verdicts.append("%s under %r was replaced (%s)" % (what, d["name"], kind_now))
            if wanted and before is not None and before[0] == "l" and own_form(before[1], out, P(["r", "cond-out"]), d["name"]) and outcome != ("done",) and outcome[1] == d["name"]:
                verdicts.append("a link of Conductor's own form (%r) under %r made the operation fail: %r" % (before[1], d["name"], outcome))
        for n in UNIVERSE:
            if n in names:
                continue
            before = None if sc["pre"] is None else sc["pre"].get(n)
            after = obs["post"].get(n)
            b = None if before is None else (("l", before[1]) if before[0] == "l" else ("o",))
            if b != after:
                verdicts.append("entry %r of no dependency changed: %r -> %r" % (n, b, after))
        return obs, verdicts


DEP_STATES = ["nonempty", "empty", "missing", "file", "symlink"]
# live_dir / live_file / dangling: SOMEBODY ELSE'S links (they lead outside cond-out): a conflict since D28;
# own_old / own_gone: links of the form Conductor makes (to <name>.task.<v> inside cond-out), the second one dangling:
# both are replaced (D27)
# lookalike: somebody else's link that leads OUTSIDE cond-out (through `..`) to a directory with a task-directory name
PRE_STATES = ["nodir", "none", "live_dir", "live_file", "dangling", "lookalike", "own_old", "own_gone", "file", "dir"]


def dep_dir(pkg, name, ts=None):
    return ["r", "cond-out"] + pkg + [name + ".task" + ("" if ts is None else ".%d" % ts)]


def pre_entry(kind, out, name="a"):
    """(entry, extra paths to create) for a pre-existing entry of the given kind, under `name`, in directory out"""
    up = [".."] * (len(out) - 1)  # from out up to "r"
    up_co = [".."] * (len(out) - 2)  # from out up to "r/cond-out"
    if kind == "own_old":
        return ("l", "/".join(up_co + ["zz", name + ".task.3"])), [(["r", "cond-out", "zz", name + ".task.3"], "dir")]
    if kind == "own_gone":
        return ("l", "/".join(up_co + ["zz", name + ".task.4"])), []
    if kind == "lookalike":
        return ("l", "/".join(up + ["published", name + ".task"])), [(["r", "published", name + ".task"], "dir")]
    if kind == "live_dir":
        return ("l", "/".join(up + ["old", "v1"])), [(["r", "old", "v1"], "dir")]
    if kind == "live_file":
        return ("l", "/".join(up + ["old", "file"])), [(["r", "old", "file"], "file")]
    if kind == "dangling":
        return ("l", "/".join(up + ["old", "nowhere"])), []
    if kind == "file":
        return ("file",), []
    return ("dir",), []


def exhaustive_scenarios():
    scs = []
    for opkg in ([], ["x"], ["x", "y"]):
        for dpkg in ([], ["x"], ["x", "z"], ["w"]):
            for st in DEP_STATES:
                for pre in PRE_STATES:
                    out = ["r", "cond-out"] + opkg + ["c.task"]
                    sc = {"out": out, "deps": [{"pkg": dpkg, "name": "a", "dir": dep_dir(dpkg, "a"), "state": st}], "extra": []}
                    if pre == "nodir":
                        sc["pre"] = None
                    elif pre == "none":
                        sc["pre"] = {}
                    else:
                        e, extra = pre_entry(pre, out, "a")
                        sc["pre"] = {"a": e}
                        sc["extra"] = extra
                    scs.append(sc)
    return scs


def random_scenario(rng):
    pk = [[], ["x"], ["x", "y"], ["x", "y", "z"], ["w"], ["w", "v"]]
    out = ["r", "cond-out"] + rng.choice(pk) + ["c.task"]
    n = rng.randint(1, 4)
    names = ["a", "b", "e", "g"]
    rng.shuffle(names)
    chosen = names[:n]
    if rng.random() < 0.1 and n >= 2:
        chosen[-1] = chosen[0]  # the operation itself does not reject duplicate names
    deps = []
    for nm in chosen:
        pkg = rng.choice(pk)
        ts = rng.choice([5, 17, 1700000000]) if nm == "e" else None
        st = rng.choice(["nonempty"] * 5 + ["empty", "missing", "file", "symlink"])
        if nm == "g":
            st = rng.choice(["missing", "missing", "nonempty"])
        deps.append({"pkg": pkg, "name": nm, "dir": dep_dir(pkg, nm, ts), "state": st})
    sc = {"out": out, "deps": deps, "extra": []}
    r = rng.random()
    if r < 0.15:
        sc["pre"] = None
    else:
        sc["pre"] = {}
        for nm in UNIVERSE:
            q = rng.random()
            if q < 0.45:
                continue
            kind = rng.choice(["own_old"] * 4 + ["own_gone", "own_gone", "live_dir", "live_file", "dangling", "lookalike", "lookalike", "file", "dir"])
            e, extra = pre_entry(kind, out, nm)
            sc["pre"][nm] = e
            sc["extra"] += extra
    return sc


def compare_with_model(chk, what, obss, defs):
    """obss: list of (label, obs, replay input). Returns number of agreeing observations."""
    if not chk.coq.model_ok:
        return 0
    shards = chunks(obss, 60)
    exprs = [" ++ ".join(scen_expr(o) for _l, o, _r in sh) for sh in shards]
    wants = [[x for _l, o, _r in sh for x in obs_pack(o)] for sh in shards]
    res = run_packed_cases(IMPORTS, defs, exprs, wants)
    agree = 0
    text_diff = 0
    for sh, (ok, bad, raw) in zip(shards, res):
        if not ok:
            chk.violation("correspondence", "model evaluation failed (%s): %s" % (what, raw[-400:]), {"theorem_or_tie": "correspondence Model/Combine.v (%s)" % what, "coq_output": raw}, found_input=False)
            continue
        hard = sorted(set(i // 2 for i in bad if i % 2 == 0))
        soft = sorted(set(i // 2 for i in bad if i % 2 == 1) - set(hard))
        text_diff += len(soft)
        agree += len(sh) - len(hard)
        for i in hard[:2]:
            label, o, rep = sh[i]
            chk.violation("correspondence", "Model/Combine.v and CombineOutputs.start_execution disagree (%s, %s): outcome=%r entries=%r" % (what, label, o["outcome"], o["post"]),
                          {"theorem_or_tie": "correspondence Model/Combine.v:combine_step vs execution/ops/combine_outputs.py (%s)" % what, "input": rep, "impl_observation": {"outcome": o["outcome"], "post": o["post"], "pre": o["pre"]}},
                          found_input=False)
    if text_diff:
        chk.count("link_text", "destination agrees, link text differs from relpath", text_diff)
    return agree


def part_step(chk, tier, rng):
    impl = StepImpl()
    scs = [("exhaustive-%d" % i, sc) for i, sc in enumerate(exhaustive_scenarios())]
    n_rand = 250 if tier == "quick" else 4000
    scs += [("random-%d" % i, random_scenario(rng)) for i in range(n_rand)]
    obss = []
    distinct = set()
    for label, sc in scs:
        obs, verdicts = impl.run(sc)
        chk.coverage["evaluations"] += 1
        chk.count("step_outcome", obs["outcome"][0])
        key = (tuple(sc["out"]), tuple((tuple(d["dir"]), d["name"], d["state"]) for d in sc["deps"]), None if sc["pre"] is None else tuple(sorted(sc["pre"].items())))
        if any(d["dir"] in obs["nonempty"] for d in obs["deps"]):
            distinct.add(key)
        for v in verdicts:
            chk.violation("impl-violation", "combine operation: %s" % v, {"input": {"kind": "step", "scenario": sc}, "impl_observation": {"outcome": obs["outcome"], "post": obs["post"]}, "oracle_verdict": v},
                          match_key={"kind": "step"}, size=len(sc["deps"]))
        obss.append((label, obs, {"kind": "step", "scenario": sc}))
        if label in ("exhaustive-8", "random-3"):
            chk.sample({"scenario": sc, "outcome": obs["outcome"], "entries": obs["post"]})
    defs = DEFS_B % {"universe": clist([cstr(n) for n in UNIVERSE])}
    agree = compare_with_model(chk, "operation level", obss, defs)
    return len(scs), len(distinct), agree


# ============================================================================= (C) real runs
def gen_project(rng):
    pkgs = rng.sample(PKGS, k=rng.randint(2, 4))
    if not any("/" in p for p in pkgs):
        pkgs.append(rng.choice(["p/q", "p/q/s", "r/t"]))
    leaves = []
    for i in range(rng.randint(2, 5)):
        kind = rng.choice(["rc", "exp", "exp"])
        t = Task(kind, rng.choice(pkgs), ("a%d" if kind == "rc" else "e%d") % i, empty=(kind == "rc" and rng.random() < 0.2))
        if leaves and rng.random() < 0.3:
            t.deps = rng.sample(leaves, 1)
        leaves.append(t)
    groups = [Task("group", rng.choice(pkgs), "g%d" % i, deps=rng.sample(leaves, rng.randint(1, min(2, len(leaves))))) for i in range(rng.randint(0, 2))]
    combines = []
    for i in range(rng.randint(1, 3)):
        pool = leaves + groups + combines
        combines.append(Task("combine", rng.choice(pkgs), "c%d" % i, deps=rng.sample(pool, rng.randint(1, min(4, len(pool))))))
    witnesses = [Task("rc", c.pkg, "w_" + c.name, deps=c.deps, empty=True) for c in combines]
    top = Task("group", "", "all", deps=combines + witnesses)
    tasks = leaves + groups + combines + witnesses + [top]
    return tasks


def gen_steps(rng, tasks, n):
    combines = [t for t in tasks if t.kind == "combine"]
    steps = [{"op": "run", "target": "//:all", "again": False}]
    for _ in range(n):
        r = rng.random()
        if r < 0.35:
            steps.append({"op": "run", "target": "//:all", "again": True})
        elif r < 0.45:
            steps.append({"op": "run", "target": "//:all", "again": False})
        elif r < 0.6:
            steps.append({"op": "run", "target": rng.choice(combines).id, "again": rng.random() < 0.7})
        else:
            c = rng.choice(combines)
            d = rng.choice(c.deps)
            how = rng.choice(["file", "dir", "dangling", "foreign", "own_dangling", "own_dangling"])
            steps.append({"op": "obstruct", "combine": c.id, "dep": d.name, "how": how})
            steps.append({"op": "run", "target": rng.choice(["//:all", c.id]), "again": rng.random() < 0.5})
            steps.append({"op": "clear", "combine": c.id, "dep": d.name})
            steps.append({"op": "run", "target": "//:all", "again": False})
    return steps


def tasks_from_meta(meta):
    by = {}
    ts = []
    for m in meta:
        pkg, name = m["id"][2:].split(":")
        t = Task(m["kind"], pkg, name, empty=m["empty"], fail=m.get("fail", False))
        by[m["id"]] = t
        ts.append((t, m))
    for t, m in ts:
        t.deps = [by[d] for d in m["deps"]]
    return [t for t, _ in ts]


def reach(t, acc=None):
    acc = {} if acc is None else acc
    if t.id in acc:
        return acc
    acc[t.id] = t
    for d in t.deps:
        reach(d, acc)
    return acc


def run_e2e_case(chk, tasks, steps, label, defs_obs):
    """runs the sequence on a fresh project; returns (#checked entries, model observations)"""
    files = render_cond(tasks)
    root = implrun.make_project(dict(files))
    trace = os.path.join(os.path.dirname(root), "trace")
    os.makedirs(trace)
    byid = {t.id: t for t in tasks}
    rep_input = {"kind": "e2e", "tasks": [t.meta() for t in tasks], "steps": steps}
    obstructed = {}  # combine id -> (dep name, how)
    checked = 0
    base = os.path.dirname(root)

    def rel(p):
        return parts_of(os.path.relpath(p, base))

    def bad(what, step_i, **extra):
        chk.violation("impl-violation", "%s (step %d of %s)" % (what, step_i, label),
                      dict({"input": rep_input, "failing_step": step_i, "oracle_verdict": what}, **extra), match_key={"kind": "e2e"}, size=len(tasks) + len(steps))

    for si, st in enumerate(steps):
        if st["op"] == "obstruct":
            c = byid[st["combine"]]
            d = os.path.join(root, out_rel(c.pkg, c.name))
            os.makedirs(d, exist_ok=True)
            q = os.path.join(d, st["dep"])
            if os.path.lexists(q):
                if os.path.isdir(q) and not os.path.islink(q):
                    shutil.rmtree(q)
                else:
                    os.unlink(q)
            how = st["how"]
            dep_t = [x for x in c.deps if x.name == st["dep"]][0]
            if how == "own_dangling" and dep_t.kind != "exp":
                how = "foreign"            # only an experiment has versions that can be gone
            if how == "file":
                open(q, "w").close()
            elif how == "dir":
                os.makedirs(q)
            elif how == "dangling":
                os.symlink("../nowhere", q)                      # somebody else's link, leading nowhere
            elif how == "foreign":
                os.makedirs(os.path.join(root, "elsewhere"), exist_ok=True)
                os.symlink(os.path.relpath(os.path.join(root, "elsewhere"), d), q)   # somebody else's link, alive
            else:
                # a link of Conductor's own form whose version is gone (removed by hand, an interrupted clean)
                os.symlink(os.path.relpath(os.path.join(root, out_rel(dep_t.pkg, dep_t.name, 1)), d), q)
            if how != "own_dangling":
                obstructed[c.id] = (st["dep"], how)
            continue
        if st["op"] == "clear":
            c = byid[st["combine"]]
            q = os.path.join(root, out_rel(c.pkg, c.name), st["dep"])
            if os.path.islink(q) or os.path.isfile(q):
                os.unlink(q)
            elif os.path.isdir(q):
                shutil.rmtree(q)
            obstructed.pop(c.id, None)
            continue
        target = byid[st["target"]]
        reachable = reach(target)
        rcombines = [t for t in reachable.values() if t.kind == "combine"]
        pre = {c.id: combine_entries(os.path.join(root, out_rel(c.pkg, c.name))) for c in rcombines}
        pre_exists = {c.id: os.path.isdir(os.path.join(root, out_rel(c.pkg, c.name))) for c in rcombines}
        trace_before = read_trace(trace)
        argv = ["run", st["target"]] + (["--again"] if st["again"] else [])
        res = run_cond_retry(chk, argv, root, env={"TRACE_DIR": trace})
        chk.coverage["evaluations"] += 1
        rows = implrun.index_rows(root)
        latest = {}
        for tid, ts, _h, _u in rows:
            latest[tid] = max(latest.get(tid, 0), ts)
        trace_after = read_trace(trace)

        def selected_dir(dep):
            if dep.kind == "group":
                return None  # Group.get_output_path is None: the planner drops it
            if dep.kind == "exp":
                if dep.id not in latest:
                    return None
                return os.path.join(root, out_rel(dep.pkg, dep.name, latest[dep.id]))
            return os.path.join(root, out_rel(dep.pkg, dep.name))

        # a combine is "blocked" if it or something it depends on is obstructed and wanted
        def effective_obstruction(c):
            if c.id not in obstructed:
                return None
            dn, how = obstructed[c.id]
            dep = [d for d in c.deps if d.name == dn][0]
            sd = selected_dir(dep)
            return (dn, how) if sd is not None and is_nonempty_dir(sd) else None

        blocked = set()
        changed = True
        while changed:
            changed = False
            for t in reachable.values():
                if t.id in blocked:
                    continue
                if (t.kind == "combine" and effective_obstruction(t)) or any(d.id in blocked for d in t.deps):
                    blocked.add(t.id)
                    changed = True
        expect_fail = target.id in blocked
        if expect_fail and res.code == 0:
            bad("an entry that is not a link Conductor made is in the way of %s but `cond %s` exited 0" % (sorted(blocked), " ".join(argv)), si, impl_observation={"exit": res.code})
        if not expect_fail and res.code != 0:
            bad("`cond %s` failed (exit %d) with nothing in the way: %s" % (" ".join(argv), res.code, (res.err or res.out)[-300:]), si, impl_observation={"exit": res.code, "stderr": res.err[-1000:]})
            continue
        chk.count("e2e_exit", str(res.code))
        for c in rcombines:
            cdir = os.path.join(root, out_rel(c.pkg, c.name))
            post = combine_entries(cdir)
            eo = effective_obstruction(c)
            started = not any(d.id in blocked for d in c.deps)
            if not started:
                continue
            # -- what a sibling dependent received in COND_DEPS in this invocation
            wn = trace_name(c.pkg, "w_" + c.name)
            wit = None
            if len(trace_after.get(wn, [])) > len(trace_before.get(wn, [])) and res.code == 0:
                wit = trace_after[wn][-1][1].split(":") if trace_after[wn][-1][1] else []
                sel = [selected_dir(d) for d in c.deps]
                if wit != [s for s in sel if s is not None]:
                    bad("COND_DEPS of a sibling dependent of %s is %r, latest recorded versions are %r" % (c.id, wit, sel), si)
            for k, dep in enumerate(c.deps):
                sd = selected_dir(dep)
                q = os.path.join(cdir, dep.name)
                if eo and eo[0] == dep.name:
                    # must be left as it was placed
                    kind = "dangling" if os.path.islink(q) and not os.path.exists(q) else ("foreign" if os.path.islink(q) else ("file" if os.path.isfile(q) else ("dir" if os.path.isdir(q) else "gone")))
                    if kind != eo[1]:
                        bad("entry %s/%s placed as %s is now %s" % (c.id, dep.name, eo[1], kind), si)
                    checked += 1
                    continue
                if eo:
                    continue  # the loop stopped at the obstruction; other entries may or may not be made
                if sd is None or not is_nonempty_dir(sd):
                    continue
                checked += 1
                if not os.path.islink(q):
                    bad("%s has no link %r although the dependency's output %s is non-empty" % (c.id, dep.name, rel(sd)), si, impl_observation={"entries": post})
                    continue
                if os.path.realpath(q) != os.path.realpath(sd):
                    bad("%s/%s resolves to %s but the dependency's output selected in this invocation is %s" % (c.id, dep.name, rel(os.path.realpath(q)), rel(sd)), si, impl_observation={"entries": post})
                    continue
                if dep.kind in ("rc", "exp") and not dep.empty:
                    # the directory the dependency itself recorded
                    tn = trace_name(dep.pkg, dep.name)
                    recorded = open(os.path.join(q, "where"), encoding="utf-8").read().strip()
                    if os.path.realpath(recorded) != os.path.realpath(q):
                        bad("%s/%s leads to a directory whose task recorded COND_OUT=%s" % (c.id, dep.name, recorded), si)
                    if dep.kind == "exp" and trace_after.get(tn) and os.path.realpath(trace_after[tn][-1][0]) != os.path.realpath(q) and len(trace_after.get(tn, [])) > len(trace_before.get(tn, [])):
                        bad("%s/%s leads to %s but the dependency ran in this invocation with COND_OUT=%s" % (c.id, dep.name, rel(os.path.realpath(q)), trace_after[tn][-1][0]), si)
            # frame: entries that are not dependency names
            depnames = {d.name for d in c.deps}
            for n, e in pre[c.id].items():
                if n not in depnames and post.get(n) != e:
                    bad("entry %s/%s of no dependency changed" % (c.id, n), si)
            # -- the same observation for the model
            dirs_all = []
            for r_, ds, _fs in os.walk(os.path.join(root, "cond-out")):
                dirs_all.append(rel(r_))
            obs = {
                "out": rel(cdir),
                "deps": [{"pkg": [x for x in d.pkg.split("/") if x], "name": d.name, "dir": rel(selected_dir(d))} for d in c.deps if selected_dir(d) is not None],
                "dirs": [rel(selected_dir(d)) for d in c.deps if selected_dir(d) is not None and os.path.isdir(selected_dir(d))],
                "nonempty": [rel(selected_dir(d)) for d in c.deps if selected_dir(d) is not None and is_nonempty_dir(selected_dir(d))],
                "co": rel(os.path.join(root, "cond-out")),
                "top": base,
                "pre": ({n: ((e[0], e[1]) if e[0] == "l" else ("o",)) for n, e in pre[c.id].items()} if pre_exists[c.id] else None),
                "post": {n: ((e[0], e[1]) if e[0] == "l" else ("o",)) for n, e in post.items()},
                "outcome": ("done",) if not eo else ("conflict", eo[0]),
            }
            allnames = sorted(set(list(pre[c.id].keys()) + list(post.keys()) + [d.name for d in c.deps]))
            # after an error only the entry in the way and the entries of no dependency are compared (which
            # links were already made depends on the order in which the planner lists the dependencies)
            obs["names"] = allnames if not eo else [n for n in allnames if n == eo[0] or n not in depnames]
            defs_obs.append(("%s step %d %s" % (label, si, c.id), obs, rep_input))
    shutil.rmtree(os.path.dirname(root), ignore_errors=True)
    return checked


def obs_universe(obss):
    names = []
    for _l, o, _r in obss:
        for n in list((o["pre"] or {}).keys()) + list(o["post"].keys()) + [d["name"] for d in o["deps"]]:
            if n not in names:
                names.append(n)
    return names


def fixed_cases():
    """hand-written projects that always run: every dependency kind at several depths; duplicate names"""
    a = Task("rc", "", "a")
    b = Task("rc", "p/q/s", "b")
    e = Task("exp", "p/q", "e", deps=[a])
    f = Task("exp", "", "f")
    n = Task("rc", "r", "n", empty=True)
    g = Task("group", "p", "g", deps=[a, e])
    c1 = Task("combine", "p/q", "c1", deps=[a, b, e, f, n, g])
    c2 = Task("combine", "", "c2", deps=[c1, e, b])
    c3 = Task("combine", "r/t", "c3", deps=[c2, c1, f])
    ws = [Task("rc", c.pkg, "w_" + c.name, deps=c.deps, empty=True) for c in (c1, c2, c3)]
    top = Task("group", "", "all", deps=[c1, c2, c3] + ws)
    tasks = [a, b, e, f, n, g, c1, c2, c3] + ws + [top]
    steps = [
        {"op": "run", "target": "//:all", "again": False},
        {"op": "run", "target": "//:all", "again": True},
        {"op": "run", "target": "//p/q:c1", "again": True},
        {"op": "run", "target": "//:all", "again": False},
        {"op": "obstruct", "combine": "//p/q:c1", "dep": "e", "how": "file"},
        {"op": "run", "target": "//:all", "again": True},
        {"op": "clear", "combine": "//p/q:c1", "dep": "e"},
        {"op": "obstruct", "combine": "//:c2", "dep": "c1", "how": "dangling"},
        {"op": "run", "target": "//:c2", "again": False},
        {"op": "clear", "combine": "//:c2", "dep": "c1"},
        {"op": "obstruct", "combine": "//r/t:c3", "dep": "f", "how": "dir"},
        {"op": "run", "target": "//r/t:c3", "again": True},
        {"op": "clear", "combine": "//r/t:c3", "dep": "f"},
        {"op": "run", "target": "//:all", "again": True},
    ]
    return [("fixed-1", tasks, steps)]


def duplicate_name_case(chk):
    """two dependencies with the same name in different packages: rejected while loading, nothing runs -- whether
    the two are adjacent in the list or not"""
    for deps in (["//p:x", "//q:x"], ["//p:x", "//:other", "//q:x"], ["//:other", "//q:x", "//:more", "//p:x"]):
        files = {"COND": 'run_command(name="other", run="true")\nrun_command(name="more", run="true")\ncombine(name="c", deps=%s)\n' % repr(deps).replace("'", '"'),
                 "p/COND": 'run_command(name="x", run="echo p > $COND_OUT/f")\n', "q/COND": 'run_command(name="x", run="echo q > $COND_OUT/f")\n'}
        root = implrun.make_project(dict(files))
        res = run_cond_retry(chk, ["run", "//:c"], root)
        chk.coverage["evaluations"] += 1
        made = os.path.isdir(os.path.join(root, "cond-out", "c.task"))
        if res.code == 0 or made:
            chk.violation("impl-violation", "combine over %r (two dependencies named x) was not rejected (exit %d, output directory made: %s)" % (deps, res.code, made),
                          {"input": {"kind": "files", "files": files, "argv": ["run", "//:c"]}, "impl_observation": {"exit": res.code, "stderr": res.err[-500:]}}, match_key={"kind": "dupname"})
        shutil.rmtree(os.path.dirname(root), ignore_errors=True)


def empty_leftover_case(chk):
    """state left behind by an earlier invocation: a dependency's (unversioned) output directory already exists and is
    EMPTY when `cond run` starts (the task had failed before writing anything); the dependency then runs and writes
    its output -- the combine must expose it"""
    files = {"COND": 'combine(name="all", deps=["//data:gen", ":other", ":inner"])\nrun_command(name="other", run="echo o > $COND_OUT/f")\n'
                     'combine(name="inner", deps=[":other"])\n',
             "data/COND": 'run_command(name="gen", run="echo g > $COND_OUT/f")\n'}
    root = implrun.make_project(dict(files))
    os.makedirs(os.path.join(root, "cond-out", "data", "gen.task"))
    os.makedirs(os.path.join(root, "cond-out", "inner.task"))
    res = run_cond_retry(chk, ["run", "//:all"], root)
    chk.coverage["evaluations"] += 1
    problems = []
    if res.code != 0:
        problems.append("exit %d: %s" % (res.code, res.err[-300:]))
    for name, target in (("gen", os.path.join(root, "cond-out", "data", "gen.task")), ("other", os.path.join(root, "cond-out", "other.task")), ("inner", os.path.join(root, "cond-out", "inner.task"))):
        entry = os.path.join(root, "cond-out", "all.task", name)
        if not os.path.lexists(entry):
            problems.append("entry %r is missing although the dependency's output directory is non-empty" % name)
        elif os.path.realpath(entry) != os.path.realpath(target):
            problems.append("entry %r resolves to %s, the dependency's directory is %s" % (name, os.path.realpath(entry), target))
    for msg in problems:
        chk.violation("impl-violation", "combine over a dependency whose output directory existed empty before the run: %s" % msg,
                      {"input": {"kind": "files", "files": files, "argv": ["run", "//:all"], "precreated_empty": ["cond-out/data/gen.task", "cond-out/inner.task"]},
                       "impl_observation": {"exit": res.code, "entries": sorted(os.listdir(os.path.join(root, "cond-out", "all.task"))) if os.path.isdir(os.path.join(root, "cond-out", "all.task")) else None}},
                      match_key={"kind": "empty-leftover"})
    shutil.rmtree(os.path.dirname(root), ignore_errors=True)


def part_e2e(chk, tier, rng, only=None):
    preimport()

    cases = list(fixed_cases())
    n_proj = 5 if tier == "quick" else 60
    n_steps = 3 if tier == "quick" else 6
    for i in range(n_proj):
        tasks = gen_project(rng)
        cases.append(("generated-%d" % i, tasks, gen_steps(rng, tasks, n_steps)))
    if only is not None:
        cases = only
    obss = []
    checked = 0
    for label, tasks, steps in cases:
        checked += run_e2e_case(chk, tasks, steps, label, obss)
        chk.count("e2e", "projects")
        chk.count("e2e_depth", str(max(len([x for x in t.pkg.split("/") if x]) for t in tasks)))
    if only is None:
        duplicate_name_case(chk)
        empty_leftover_case(chk)
        large_group_case(chk)
        from sched_checks import names_differing_only_in_case

        names_differing_only_in_case(chk)
    agree = compare_with_model(chk, "real runs", obss, DEFS_B % {"universe": clist([cstr(n) for n in UNIVERSE])})
    if obss:
        _l, o, _r = obss[len(obss) // 2]
        chk.sample({"combine_dir": o["out"], "deps": [(d["name"], d["dir"]) for d in o["deps"]], "entries": o["post"], "outcome": o["outcome"]})
    return checked, len(obss), agree


def large_group_case(chk, n=300):
    """Every dependency gets its entry, and the entry designates the version made in THIS invocation -- also when the
    closure has more tasks than any plausible internal cache (a run_experiment_group of 300 instances in a nested
    package): first run, then --again.  For each instance the link <group>.task/<name> must resolve to the $COND_OUT that
    instance recorded in that run.  (Seed C18/k: the task index kept only the 256 most recently used task objects; an
    evicted experiment was rebuilt without this run's new version -- its entry was missing on the first run and pointed at
    the previous version after --again.)"""
    import implrun

    run = 'echo $COND_OUT > $COND_OUT/self'
    files = {"lab/sweeps/COND": 'run_experiment_group(name="g", run=%r, experiments=[ExperimentInstance(name="i%%03d" %% k) for k in range(%d)])\n' % (run, n)}
    root = implrun.make_project(files)
    gdir = os.path.join(root, "cond-out", "lab", "sweeps", "g.task")
    problems = []
    for argv in (["run", "//lab/sweeps:g"], ["run", "//lab/sweeps:g", "--again"]):
        res = implrun.run_cond(argv, root, timeout=600)
        chk.coverage["evaluations"] += 1
        chk.count("e2e", "large group (%d instances)" % n)
        if res.code != 0:
            problems.append("`cond %s` exited %s: %s" % (" ".join(argv), res.code, implrun.strip_ansi(res.out + res.err).strip()[-200:]))
            break
        newest = {}
        for r in implrun.index_rows(root):
            newest[r[0]] = max(newest.get(r[0], 0), r[1])
        missing, wrong = [], []
        for k in range(n):
            name = "i%03d" % k
            want = os.path.join(root, "cond-out", "lab", "sweeps", "%s.task.%d" % (name, newest.get("//lab/sweeps:" + name, 0)))
            entry = os.path.join(gdir, name)
            if not os.path.lexists(entry):
                missing.append(name)
            elif os.path.realpath(entry) != os.path.realpath(want):
                wrong.append((name, os.path.basename(os.path.realpath(entry)), os.path.basename(want)))
        if missing:
            problems.append("`cond %s`: %d of the %d dependencies have no entry in the combine directory (first: %r)" % (" ".join(argv), len(missing), n, missing[:3]))
        if wrong:
            problems.append("`cond %s`: %d entries do not designate the version made in this run (first: %r)" % (" ".join(argv), len(wrong), wrong[:2]))
    for msg in problems[:2]:
        chk.violation("impl-violation", "a combine over %d experiments: %s" % (n, msg), {"input": {"part": "large-group", "files": files}, "oracle_verdict": msg}, match_key={"part": "large-group"}, size=4)
    if not problems:
        chk.coverage["traces_validated_against_impl"] = chk.coverage.get("traces_validated_against_impl", 0) + 2


# ============================================================================= entry point
def run(tier, seed, replay=None):
    chk = Check("C18", tier, seed)
    chk.build_proofs(["Model/Combine.vo", "Lib/Path.vo", "Lib/Cmp.vo"])
    setup_impl_path()
    preimport()

    if replay is not None:
        inp = replay.get("input") or {}
        kind = inp.get("kind")
        if kind == "step":
            obs, verdicts = StepImpl().run(inp["scenario"])
            print("replay: outcome=%r entries=%r verdicts=%r" % (obs["outcome"], obs["post"], verdicts))
            for v in verdicts:
                chk.violation("impl-violation", "combine operation: %s" % v, {"input": inp, "oracle_verdict": v}, match_key={"kind": "step"})
            compare_with_model(chk, "replay", [("replay", obs, inp)], DEFS_B % {"universe": clist([cstr(n) for n in UNIVERSE])})
        elif kind == "e2e":
            tasks = tasks_from_meta(inp["tasks"])
            checked, nobs, agree = part_e2e(chk, tier, chk.rng, only=[("replay", tasks, inp["steps"])])
            print("replay: %d entries checked, %d combine executions compared with the model (%d agree)" % (checked, nobs, agree))
        elif kind == "paths":
            print("replay: base=%r p=%r os.path/pathlib=%r" % (inp["base"], inp["p"], impl_cell(inp["base"], inp["p"]) if inp.get("p") is not None else None))
            part_paths(chk, tier)
        elif kind == "resolve":
            print("replay: list=%r normpath=%r" % (inp["list"], impl_resolve(inp["list"]) if inp.get("list") is not None else None))
            part_paths(chk, tier)
        elif kind == "files":
            duplicate_name_case(chk)
            empty_leftover_case(chk)
        else:
            print("replay: nothing to re-run (no input recorded): %s" % replay.get("summary"))
        return chk.finish()

    import time

    t0 = time.time()
    n_a, agree_a = part_paths(chk, tier)
    t1 = time.time()
    n_b, distinct_b, agree_b = part_step(chk, tier, chk.rng)
    t2 = time.time()
    checked, n_c, agree_c = part_e2e(chk, tier, chk.rng)
    t3 = time.time()
    if tier == "thorough":
        chk.run_coqchk()
    chk.coverage["part_wall_s"] = {"paths": round(t1 - t0, 1), "operation": round(t2 - t1, 1), "real_runs": round(t3 - t2, 1)}
    chk.coverage["distinct_nontrivial"] = distinct_b + n_c
    chk.coverage["exhaustive"] = "path functions: all pairs over the component alphabets up to depth 4 / length %d; operation: all one-dependency scenarios (%d)" % (5 if tier == "quick" else 7, len(exhaustive_scenarios()))
    chk.coverage["rule"] = (
        "distinct_nontrivial = distinct operation-level scenarios with at least one dependency whose output directory is non-empty "
        "(canonical key: output path, dependency directories/names/states, prior entries) + combine executions observed in real `cond run` "
        "sequences (each compared with the model and checked by the oracle); evaluations additionally count every path pair / list of the "
        "exhaustive path-function comparison and every `cond` invocation"
    )
    chk.coverage["traces_validated_against_impl"] = agree_a + agree_b + agree_c
    chk.coverage["disagreements_checked"] = n_a + n_b + n_c
    chk.coverage["entries_checked_by_oracle_in_real_runs"] = checked
    chk.assumptions += [
        "no component of a path below cond-out is itself a symbolic link to elsewhere (then '..' in a link text is the lexical parent; os.path.realpath is used on the real runs)",
        "the contents of the dependencies' directories do not change while the operation runs (file-system observations are a fixed oracle in the model)",
        "a link is 'one Conductor made' when its text leads, lexically, to `<dependency name>.task[.<version>]` strictly inside cond-out (the rule of the repaired code and of "
        "Model/Combine.v; a hand-made link of exactly that form is indistinguishable from Conductor's and is replaced)",
    ]
    return chk.finish()
