"""C15 -- COND definitions: well-formed accepted, malformed rejected cleanly (partial).

proofs : coq/Props/C15.v (validator generic over schemas, table = documented table, accept <->
         DocWellFormed, names, dependency grammar) over the table reflected from the source.
tie    : (a) in-process: generated COND files of documented constructor calls (and groups) loaded
         with the real TaskIndex.load_single_task; decision + error class + failing parameter
         compared with Model/Schema.v (packed channel) and with an independent Python statement of
         the documented schema (oracle);
         (b) end to end: `cond run --check T` through implrun.run_cond on generated sources,
         include() directives of every documented failure kind and COND files raising Python
         errors: exit status, `ERROR:` vs `Traceback`, a file named, cond-out untouched, no spawn.
partial: the mapping of arbitrary Python exceptions to ConductorErrors is interpreter behaviour
         (covered by (b) only); the undocumented `environment` constructor is outside the model.
"""
import concurrent.futures
import copy
import os
import re

from common import Check, cstr, clist, pack, run_packed_cases, NCPU, setup_impl_path
import implrun
import c19
from schema_util import (
    COQ_IMPORTS,
    COQ_SER,
    Inst,
    Loader,
    Other,
    FloatX,
    doc_dep,
    doc_name,
    is_primitive,
    render_call,
    ser_outcome,
)

DIR = "d"
OTHER_COND = c19.OTHER_COND  # defines //other:x and //other:e1

# ----------------------------------------------------------------------------- documented schema (oracle)
RUN_PARAMS = {"name": "str", "run": "str", "parallelizable": "bool", "args": "list", "options": "dict", "deps": "strlist"}
DEP_PARAMS = {"name": "str", "deps": "strlist"}
DOC = {"run_command": RUN_PARAMS, "run_experiment": RUN_PARAMS, "group": DEP_PARAMS, "combine": DEP_PARAMS}
REQUIRED = {"run_command": ("name", "run"), "run_experiment": ("name", "run"), "group": ("name",), "combine": ("name",)}
DEFAULTS = {"parallelizable": False, "args": [], "options": {}, "deps": []}


def type_ok(kind, v):
    if isinstance(v, Other):
        return False
    if kind == "str":
        return isinstance(v, str)
    if kind == "bool":
        return isinstance(v, bool)
    if kind == "list":
        return isinstance(v, list)
    if kind == "dict":
        return isinstance(v, dict)
    if kind == "strlist":
        return isinstance(v, list) and all(isinstance(x, str) for x in v)
    raise ValueError(kind)


def def_ok(ctor, kw):
    """a single definition obeys the documented schema of its constructor and has a valid name"""
    if ctor not in DOC:
        return False
    params = DOC[ctor]
    if any(k not in params for k in kw):
        return False
    if any(k not in kw for k in REQUIRED[ctor]):
        return False
    if not all(type_ok(params[k], v) for k, v in kw.items()):
        return False
    return doc_name(kw["name"])


def expand(stmts):
    """statements -> list of plain definitions (groups replaced by their documented expansion), or None"""
    out = []
    for st in stmts:
        if st[0] == "call":
            out.append((st[1], st[2]))
        else:
            calls = c19.doc_expand(st[1])
            if calls is None:
                return None
            out.extend(calls)
    return out


def file_ok(stmts):
    defs = expand(stmts)
    if defs is None:
        return None
    if not all(def_ok(c, kw) for c, kw in defs):
        return None
    names = [kw["name"] for _, kw in defs]
    if len(set(names)) != len(names):
        return None
    return defs


def task_ok(ctor, kw, here):
    """the needed task itself: identifiers, distinct deps, primitive args/options, combine names"""
    full = dict(DEFAULTS)
    full.update(kw)
    ids = [doc_dep(s, here) for s in full["deps"]]
    if any(i is None for i in ids) or len(set(ids)) != len(ids):
        return None
    if ctor in ("run_command", "run_experiment"):
        if not all(is_primitive(a) for a in full["args"]):
            return None
        if not all(isinstance(k, str) and is_primitive(v) for k, v in full["options"].items()):
            return None
    if ctor == "combine":
        nm = [i[1] for i in ids]
        if len(set(nm)) != len(nm):
            return None
    return ids


def doc_wellformed(case):
    """the documented predicate for `load //d:target` (no look at other tasks' bodies)"""
    defs = file_ok(case["stmts"])
    if defs is None:
        return False
    for c, kw in defs:
        if kw["name"] == case["target"]:
            return task_ok(c, kw, (DIR,)) is not None
    return False


EXISTING_OTHER = {(("other",), "x"), (("other",), "e1")}


def doc_wellformed_closure(case):
    """the same for `cond run --check //d:target`: the needed tasks are the target and everything it reaches"""
    defs = file_ok(case["stmts"])
    if defs is None:
        return False
    by_name = {kw["name"]: (c, kw) for c, kw in defs}
    state = {}

    def visit(name):
        if state.get(name) == "done":
            return True
        if state.get(name) == "open":
            return False  # cycle
        if name not in by_name:
            return False
        state[name] = "open"
        ids = task_ok(by_name[name][0], by_name[name][1], (DIR,))
        if ids is None:
            return False
        for path, nm in ids:
            if path == (DIR,):
                if not visit(nm):
                    return False
            elif (path, nm) not in EXISTING_OTHER:
                return False
        state[name] = "done"
        return True

    return visit(case["target"])


# ----------------------------------------------------------------------------- rendering / model literals
def render(case):
    text = case.get("prologue", "")
    for st in case["stmts"]:
        if st[0] == "call":
            text += render_call(st[1], st[2])
        else:
            text += render_call("run_experiment_group", st[1])
    return text + case.get("epilogue", "")


def cstmts(case):
    ss = []
    for st in case["stmts"]:
        if st[0] == "call":
            ss.append("SCall %s" % c19.ccall(st[1], st[2]))
        else:
            ss.append("SGroup %s" % c19.cgdef(st[1]))
    return clist(ss)


DEFS = COQ_SER + r"""
Definition dir : list str := [%(dir)s].
Definition row (c : list stmt * str) : N :=
  pack (ser_result (fun t => ser_list ser_task [t]) (check_task dir (fst c) (snd c))).
Definition cases : list (list stmt * str) := %(cases)s.
"""


def jsonable(case):
    return {"stmts": [[st[0], st[1], c19.jv(st[2])] if st[0] == "call" else [st[0], c19.jv(st[1])] for st in case["stmts"]],
            "target": case["target"], "name": case.get("name_key"), "tag": case.get("tag", ""),
            "prologue": case.get("prologue", ""), "epilogue": case.get("epilogue", ""), "files": case.get("files", {}), "source": render(case)}


def unjson(obj):
    stmts = []
    for st in obj["stmts"]:
        if st[0] == "call":
            stmts.append(("call", st[1], c19.uv(st[2])))
        else:
            stmts.append(("group", c19.uv(st[1])))
    return {"stmts": stmts, "target": obj["target"], "name_key": obj.get("name"), "tag": obj.get("tag", ""),
            "prologue": obj.get("prologue", ""), "epilogue": obj.get("epilogue", ""), "files": obj.get("files", {})}


# ----------------------------------------------------------------------------- generators
T0 = ("call", "run_command", {"name": "t0", "run": "true"})
E1 = ("call", "run_command", {"name": "e1", "run": "true"})
VALUES = ["s", "", True, False, 0, 3, 1.5, FloatX("float('inf')"), [FloatX("float('nan')"), 2], {"k": FloatX("float('-inf')")}, None, [], ["a"], [1], {}, {"k": 1}, Other("()"), Other("set()"), [":t0"], [None],
          [Other("1j")], {"k": Other("__import__('fractions').Fraction(1, 2)")}, [1, Other("__import__('decimal').Decimal('1.5')")], {"z": Other("1j")}, Other("1j")]
NAMES_BAD = ["", " ", "a b", "foo\n", "a.b", "a/b", "a:b", ":a", "é", "a\n\n", "\nfoo", "a\tb", "-", "_", "0", "A-z_0", "run-{threads}", "{", "{0}"]
DEPS_POOL = [":t0", "//d:t0", "//other:x", "//other:e1", ":e1", ":t0\n", "other:x", "t0", "", ":", "//:", "//other:", ":a b", "//other//x:y",
             "//other/:x", "/other:x", "//other:x:y", " :t0", ":zz", "//nodir:x", "//d/:t0", "//:base-{n}", ":{0}", ":}"]


def one(ctor, kw, tag, target=None, extra=None, name_key=None):
    stmts = [T0, E1] + (extra or []) + [("call", ctor, kw)]
    t = target if target is not None else (kw.get("name") if doc_name(kw.get("name")) else "t0")
    return {"stmts": stmts, "target": t, "tag": tag, "name_key": name_key}


def corpus():
    out = []
    # the documented usage examples
    out.append(one("run_command", {"name": "figures", "run": "python make_figures.py", "parallelizable": True, "deps": [":t0"]}, "doc-example"))
    out.append(one("run_experiment", {"name": "benchmark", "run": "./run_benchmark.sh", "parallelizable": False, "args": ["my_dataset.csv"], "options": {"threads": 3}, "deps": [":t0"]}, "doc-example"))
    out.append(one("run_command", {"name": "example", "run": "./run.sh", "args": ["arg1", "arg2", 123, True, 0.3]}, "doc-example"))
    out.append(one("run_command", {"name": "example", "run": "./run.sh", "args": ["arg1"], "options": {"foo": 3, "bar": True}}, "doc-example"))
    out.append(one("combine", {"name": "make_figures", "deps": [":t0", ":e1"]}, "doc-example"))
    out.append(one("group", {"name": "run_all_benchmarks", "deps": [":t0", "//other:x"]}, "doc-example"))
    # names (trailing newline: fixed defect D2)
    for nm in NAMES_BAD:
        out.append(one("run_command", {"name": nm, "run": "true"}, "name", name_key=nm))
        out.append(one("combine", {"name": nm}, "name", name_key=nm))
    # duplicate names
    out.append({"stmts": [T0, ("call", "run_command", {"name": "t0", "run": "x"})], "target": "t0", "tag": "dup-name"})
    out.append({"stmts": [T0, ("call", "group", {"name": "a"}), ("call", "combine", {"name": "a"})], "target": "t0", "tag": "dup-name"})
    out.append({"stmts": [T0, ("call", "group", {"name": "a"})], "target": "zz", "tag": "not-defined"})
    # a defect in another definition of the file than the one needed
    out.append({"stmts": [T0, ("call", "group", {"name": "a", "deps": ["bad"]})], "target": "t0", "tag": "defect-elsewhere"})
    out.append({"stmts": [T0, ("call", "group", {"name": "a", "deps": 5})], "target": "t0", "tag": "defect-elsewhere"})
    out.append({"stmts": [T0, ("call", "run_command", {"name": "a", "run": "x", "args": [None]})], "target": "t0", "tag": "defect-elsewhere"})
    # dependencies
    for d in DEPS_POOL:
        out.append(one("run_command", {"name": "a", "run": "true", "deps": [d]}, "dep"))
        out.append(one("group", {"name": "a", "deps": [":t0", d]}, "dep"))
    out.append(one("combine", {"name": "a", "deps": ["//other:e1", ":e1"]}, "combine-names"))
    out.append(one("group", {"name": "a", "deps": ["//other:e1", ":e1"]}, "combine-names"))
    out.append(one("combine", {"name": "a", "deps": [":t0", "//other:x", "//other:e1"]}, "combine-names"))
    # equal names that are not adjacent in the list
    out.append(one("combine", {"name": "a", "deps": ["//other:e1", ":t0", ":e1"]}, "combine-names"))
    out.append(one("combine", {"name": "a", "deps": [":e1", "//other:x", ":t0", "//other:e1"]}, "combine-names"))
    # args / options
    for a in ([None], [[1]], [{}], [Other("()")], ["x", None], [1, 2.5, "s", True]):
        out.append(one("run_experiment", {"name": "a", "run": "true", "args": a}, "args"))
    for o in ({1: "x"}, {None: 1}, {"k": None}, {"k": [1]}, {"k": {}}, {"a": 1, "b": "x", "c": 2.5, "d": False}, {"": 1}):
        out.append(one("run_command", {"name": "a", "run": "true", "options": o}, "options"))
    # unknown constructor / missing required
    out.append(one("run_cmd", {"name": "a", "run": "true"}, "unknown-ctor"))
    for ctor in DOC:
        out.append(one(ctor, {}, "missing"))
        out.append(one(ctor, {"run": "true"} if "run" in DOC[ctor] else {"deps": []}, "missing"))
        if "run" in DOC[ctor]:
            out.append(one(ctor, {"name": "a"}, "missing"))
        out.append(one(ctor, dict({"name": "a", "run": "true"} if "run" in DOC[ctor] else {"name": "a"}, bogus=1), "unknown-param"))
    out.append(one("group", {"name": "a", "run": "true"}, "unknown-param"))
    out.append(one("combine", {"name": "a", "args": []}, "unknown-param"))
    # groups inside a file
    out.append({"stmts": [T0, ("group", {"name": "g", "run": "true", "experiments": [Inst(name="a"), Inst(name="b")], "chain_experiments": True, "deps": [":t0"]})], "target": "g", "tag": "group"})
    out.append({"stmts": [T0, ("group", {"name": "g", "run": "true", "experiments": [Inst(name="a"), Inst(name="b")]})], "target": "b", "tag": "group"})
    out.append({"stmts": [T0, ("group", {"name": "g", "run": "true", "experiments": [Inst(name="a", args=[None])]})], "target": "g", "tag": "group"})
    out.append({"stmts": [T0, ("group", {"name": "g", "run": "true", "experiments": [Inst(name="a", args=[None])]})], "target": "a", "tag": "group"})
    out.append({"stmts": [T0, ("group", {"name": "g", "run": "true", "experiments": [Inst(name="a"), "x"]})], "target": "t0", "tag": "group"})
    return out


def exhaustive(pairs):
    """every documented constructor x every parameter x every value of VALUES (and, with pairs, two parameters)"""
    out = []
    for ctor, params in DOC.items():
        base = {"name": "a", "run": "true"} if "run" in params else {"name": "a"}
        plist = list(params) + ["bogus"]
        for p in plist:
            for v in VALUES:
                kw = dict(base)
                kw[p] = copy.deepcopy(v)
                out.append(one(ctor, kw, "exhaustive-1"))
        if pairs:
            for i, p in enumerate(plist):
                for q in plist[i + 1:]:
                    for v in VALUES[::2]:
                        for w in VALUES[1::3]:
                            kw = dict(base)
                            kw[p] = copy.deepcopy(v)
                            kw[q] = copy.deepcopy(w)
                            out.append(one(ctor, kw, "exhaustive-2"))
    return out


def rand_def(rng, name, defect):
    ctor = rng.choice(list(DOC))
    params = DOC[ctor]
    kw = {"name": name}
    if "run" in params:
        kw["run"] = rng.choice(["true", "./r.sh", "echo hi"])
        if rng.random() < 0.5:
            kw["args"] = [rng.choice([1, "x", True, 2.5, "", -1]) for _ in range(rng.randrange(0, 4))]
        if rng.random() < 0.5:
            kw["options"] = {rng.choice(["a", "b", "n"]): rng.choice([1, "x", False, 0.5]) for _ in range(rng.randrange(0, 3))}
        if rng.random() < 0.4:
            kw["parallelizable"] = rng.random() < 0.5
    if rng.random() < 0.7:
        kw["deps"] = rng.sample([":t0", "//other:x", "//other:e1", "//d:t0"], rng.randrange(0, 3))
        if ":t0" in kw["deps"] and "//d:t0" in kw["deps"]:
            kw["deps"].remove(":t0")
    if defect:
        kind = rng.choice(["type", "type", "name", "dep", "dep", "args", "options", "extra", "missing", "ctor", "dupdep", "combine"])
        if kind == "type":
            kw[rng.choice(list(params))] = copy.deepcopy(rng.choice(VALUES))
        elif kind == "name":
            kw["name"] = rng.choice(NAMES_BAD)
        elif kind == "dep":
            kw["deps"] = list(kw.get("deps", [])) + [rng.choice(DEPS_POOL)]
        elif kind == "args" and "run" in params:
            kw["args"] = list(kw.get("args", [])) + [rng.choice([None, [1], {}, Other("()")])]
        elif kind == "options" and "run" in params:
            kw["options"] = dict(kw.get("options", {}))
            kw["options"][rng.choice(["z", 1, None])] = rng.choice([1, None, [1]])
        elif kind == "extra":
            kw[rng.choice(["bogus", "run", "args", "Name", "dep"])] = rng.choice(VALUES[:6])
        elif kind == "missing":
            kw.pop(rng.choice(list(kw)))
        elif kind == "ctor":
            ctor = rng.choice(["run_cmd", "task", "Combine"])
        elif kind == "dupdep":
            kw["deps"] = [":t0", rng.choice([":t0", "//d:t0"])]
        elif kind == "combine":
            ctor = "combine"
            kw = {"name": name, "deps": rng.choice([["//other:e1", ":e1"], ["//other:e1", ":t0", ":e1"], [":e1", ":t0", "//other:x", "//other:e1"]])}
    return ("call", ctor, kw)


def random_case(rng):
    n = rng.choice([1, 2, 2, 3, 4])
    names = rng.sample(["a", "b", "c", "k-1", "k_2", "Z"], n)
    if rng.random() < 0.12:
        names[-1] = rng.choice(names[:-1] + ["t0"])
    bad_at = rng.randrange(n) if rng.random() < 0.45 else None
    stmts = [T0, E1]
    for i, nm in enumerate(names):
        if rng.random() < 0.12:
            members = [Inst(name=nm + "-%d" % j, **({"args": [j]} if rng.random() < 0.5 else {})) for j in range(rng.randrange(0, 3))]
            if i == bad_at:
                members.append(rng.choice([5, "x", Inst(name=nm), Inst(name="t0"), Inst(name=nm + "-0", options={1: 2})]))
            g = {"name": nm, "run": "true", "experiments": members}
            if rng.random() < 0.5:
                g["chain_experiments"] = True
            stmts.append(("group", g))
        else:
            stmts.append(rand_def(rng, nm, i == bad_at))
    r = rng.random()
    defined = [st[2].get("name") if st[0] == "call" else st[1]["name"] for st in stmts[2:]]
    defined = [d for d in defined if isinstance(d, str) and doc_name(d)]
    target = rng.choice(defined) if defined and r < 0.85 else rng.choice(["t0", "zz"])
    return {"stmts": stmts, "target": target, "tag": "random"}


# ----------------------------------------------------------------------------- in-process decision
def observe(loader, case):
    files = {DIR + "/COND": render(case), "other/COND": OTHER_COND}
    root = loader.write(files)
    return loader.load_one(root, DIR, case["target"])


def oracle_decision(chk, case, o):
    want = doc_wellformed(case)
    got = o[0] == "ok"
    if want != got:
        key = {"name": case.get("name_key")} if case.get("name_key") is not None else {"tag": case.get("tag")}
        chk.violation("impl-violation",
                      "%s although the documented schema says %s: target %r of\n%s" % ("accepted" if got else "rejected (%s)" % (o[1],), "well-formed" if want else "malformed", case["target"], render(case)[-300:]),
                      {"input": jsonable(case), "impl_observation": repr(o), "oracle_verdict": "documented schema: %s" % ("accept" if want else "reject")},
                      match_key=key, size=len(render(case)))
    if not got and o[1][0] == "<python>":
        chk.violation("impl-violation", "a definition made of documented constructors makes the loader raise a Python exception: %s" % (o[1][1],),
                      {"input": jsonable(case), "impl_observation": repr(o), "oracle_verdict": "rejections must be ConductorErrors"},
                      match_key={"tag": case.get("tag")}, size=len(render(case)))


def model_compare(chk, rows):
    if not chk.coq.model_ok:
        chk.violation("correspondence", "model does not build: " + chk.coq.log[-400:], {"theorem_or_tie": "build of Model/Schema.vo", "log": chk.coq.log[-3000:]}, found_input=False)
        return
    shard = 300
    shards = [rows[i:i + shard] for i in range(0, len(rows), shard)]

    def one_shard(rs):
        defs = DEFS % {"dir": cstr(DIR), "cases": clist(["(%s, %s)" % (cstmts(c), cstr(c["target"])) for c, _ in rs])}
        return run_packed_cases(COQ_IMPORTS, defs, ["map row cases"], [[pack(ser_outcome(o)) for _, o in rs]])[0]

    with concurrent.futures.ThreadPoolExecutor(max_workers=NCPU) as ex:
        results = list(ex.map(one_shard, shards))
    agree = 0
    for rs, (ok, bad, raw) in zip(shards, results):
        if not ok:
            chk.violation("correspondence", "model evaluation failed: %s" % raw[-400:], {"theorem_or_tie": "correspondence Model/Schema.v", "coq_output": raw}, found_input=False)
        elif bad:
            case, o = rs[bad[0]]
            chk.violation("correspondence", "Model/Schema.v and the loader disagree (decision, error class or failing parameter) on target %r of\n%s: impl=%s" % (case["target"], render(case)[-300:], o),
                          {"theorem_or_tie": "correspondence Model/Schema.v (+Group.v) vs validation.py / raw.py / task_loader.py / task_index.py",
                           "input": jsonable(case), "impl_observation": repr(o), "n_mismatches_in_shard": len(bad)}, found_input=False)
        else:
            agree += len(rs)
    chk.coverage["traces_validated_against_impl"] = agree
    chk.coverage["disagreements_checked"] = len(rows)


# ----------------------------------------------------------------------------- end to end
def spawn_guard():
    """runs in the child before main(): record every attempt to start a process"""
    import subprocess

    log = os.environ["SPAWN_LOG"]

    def note(what):
        with open(log, "a", encoding="utf-8") as f:
            f.write(what + "\n")

    real_init = subprocess.Popen.__init__

    def init(self, *a, **k):
        note("Popen %r" % (a[:1],))
        return real_init(self, *a, **k)

    subprocess.Popen.__init__ = init
    for nm in ("system", "posix_spawn", "posix_spawnp", "execv", "execve", "execvp"):
        if hasattr(os, nm):
            real = getattr(os, nm)
            setattr(os, nm, (lambda real, nm: lambda *a, **k: (note(nm), real(*a, **k))[1])(real, nm))


FILE_NAMED = re.compile(r"(Relevant file|in file): \S")
PATH_NAMED = re.compile(r"\S/COND\b|\S\.cond\b")    # a path of a COND file or of an included file, whatever words surround it


def e2e(chk, case, expect_ok, what):
    """`cond run --check //d:target`; returns the Result"""
    files = {DIR + "/COND": render(case), "other/COND": OTHER_COND}
    files.update(case.get("files", {}))
    if case.get("cond_is_dir"):
        files.pop(DIR + "/COND")
        files[DIR + "/COND/placeholder"] = ""
    root = implrun.make_project(files)
    for rel, text in case.get("outside", {}).items():
        os.makedirs(os.path.dirname(os.path.join(os.path.dirname(root), rel)), exist_ok=True)
        with open(os.path.join(os.path.dirname(root), rel), "w", encoding="utf-8") as f:
            f.write(text)
    for link, target in case.get("symlinks", {}).items():
        os.symlink(target, os.path.join(root, link))
    log = os.path.join(os.path.dirname(root), "spawn.log")
    r = implrun.run_cond(["run", "--check", "//%s:%s" % (DIR, case["target"])], cwd=root, env={"SPAWN_LOG": log}, pre=spawn_guard)
    err = implrun.strip_ansi(r.err)
    problems = []
    spawns = open(log, encoding="utf-8").read() if os.path.exists(log) else ""
    if spawns:
        problems.append("--check started a process: %s" % spawns.strip()[:200])
    snap = implrun.tree_snapshot(os.path.join(root, "cond-out")) if os.path.isdir(os.path.join(root, "cond-out")) else {}
    extra = sorted(k for k in snap if k != "version_index.sqlite")
    if extra:
        problems.append("--check created %s under cond-out" % extra[:5])
    if implrun.index_rows(root):
        problems.append("--check recorded a version")
    if "Traceback" in err:
        problems.append("a traceback instead of a diagnostic: %s" % err.strip().splitlines()[-1][:200])
    if expect_ok is True:
        if r.code != 0:
            problems.append("a well-formed definition was rejected (exit %s): %s" % (r.code, err.strip()[:200]))
    elif expect_ok is False:
        if r.code == 0:
            problems.append("a malformed definition was accepted (exit 0)")
        else:
            if "ERROR:" not in err:
                problems.append("rejected without an `ERROR:` diagnostic: %r" % err.strip()[:200])
            elif not FILE_NAMED.search(err) and not PATH_NAMED.search(err):   # (the wording around the file name is free)
                problems.append("the diagnostic names no file: %r" % err.strip()[:300])
            elif case.get("must_name") and case["must_name"] not in err:
                problems.append("the diagnostic does not name %s: %r" % (case["must_name"], err.strip()[:300]))
    for p in problems:
        key = {"name": case.get("name_key")} if case.get("name_key") is not None else {"tag": case.get("tag")}
        chk.violation("impl-violation", "%s: %s\n%s" % (what, p, render(case)[-300:]),
                      {"input": dict(jsonable(case), e2e=True, expect_ok=expect_ok, outside=case.get("outside", {}), symlinks=case.get("symlinks", {}), must_name=case.get("must_name")),
                       "impl_observation": {"exit": r.code, "stderr": err[-1500:], "cond_out": sorted(snap), "spawns": spawns},
                       "oracle_verdict": p}, match_key=key, size=len(render(case)))
    return r


def include_cases():
    """include() only of existing .cond files inside the project that define no tasks and include nothing"""
    base = [("call", "run_experiment", {"name": "a", "run": "true", "options": {"n": 3}})]

    def mk(prologue, ok, tag, files=None, outside=None, symlinks=None, must=None, stmts=None):
        return ({"stmts": [T0] + (stmts if stmts is not None else base), "target": "a", "tag": "include-" + tag, "prologue": prologue,
                 "files": files or {}, "outside": outside or {}, "symlinks": symlinks or {}, "must_name": must}, ok)

    good = {DIR + "/common.cond": "REPS = 3\nTHREADS = 2 * 8\n"}
    out = [
        mk("include('common.cond')\n", True, "relative", files=good),
        mk("include('//d/common.cond')\n", True, "root-relative", files=good),
        mk("include('../other/c.cond')\ninclude('common.cond')\ninclude('common.cond')\n", True, "several", files=dict(good, **{"other/c.cond": "X = 1\n"})),
        mk("include('missing.cond')\n", False, "missing"),
        mk("include('//nowhere/missing.cond')\n", False, "missing"),
        mk("include('common.py')\n", False, "wrong-extension", files={DIR + "/common.py": "REPS = 3\n"}),
        mk("include('common')\n", False, "wrong-extension", files={DIR + "/common": "REPS = 3\n"}),
        mk("include('common.cond.txt')\n", False, "wrong-extension", files={DIR + "/common.cond.txt": "REPS = 3\n"}),
        mk("include('../../outside.cond')\n", False, "outside-project", outside={"outside.cond": "REPS = 3\n"}),
        # a SIBLING of the project root whose name starts with the root's name (the project lives in .../p): outside the project all the same
        mk("include('../../p-shared/common.cond')\n", False, "outside-project-sibling-with-the-roots-name-as-prefix", outside={"p-shared/common.cond": "REPS = 3\n"}),
        mk("include('../../pp/common.cond')\n", False, "outside-project-sibling-pp", outside={"pp/common.cond": "REPS = 3\n"}),
        mk("include('link.cond')\n", False, "outside-project-symlink", outside={"outside.cond": "REPS = 3\n"}, symlinks={DIR + "/link.cond": "../../outside.cond"}),
        mk("include('tasks.cond')\n", False, "task-defining", files={DIR + "/tasks.cond": "run_command(name='inc', run='true')\n"}),
        mk("include('tasks.cond')\n", False, "task-defining", files={DIR + "/tasks.cond": "X = 1\ncombine(name='inc')\n"}),
        mk("include('nest.cond')\n", False, "nested-including", files=dict(good, **{DIR + "/nest.cond": "include('common.cond')\n"})),
        mk("include('boom.cond')\n", False, "raising", files={DIR + "/boom.cond": "raise ValueError('boom')\n"}, must="boom.cond"),
        mk("include('boom.cond')\n", False, "raising", files={DIR + "/boom.cond": "X = 1 / 0\n"}, must="boom.cond"),
        mk("include('boom.cond')\n", False, "raising", files={DIR + "/boom.cond": "import nosuchmodule_xyz\n"}, must="boom.cond"),
        mk("include('syn.cond')\n", False, "syntax-error", files={DIR + "/syn.cond": "X = (1,\n"}, must="syn.cond"),
        mk("include(5)\n", False, "ill-typed-path"),
        mk("include()\n", False, "ill-typed-path"),
        mk("include('" + DIR + "')\n", False, "directory"),
    ]
    # the included symbols are usable
    out.append(mk("include('common.cond')\n", True, "symbols", files=good))
    out[-1][0]["prologue"] = "include('common.cond')\nassert REPS == 3 and THREADS == 16\n"
    # ... also the functions, lambdas and classes an included file defines, which refer to the file's own symbols
    # and imports when they are called (D29: the file was executed with separate globals and locals, so such a
    # reference failed with NameError -- at the call in the COND file, or inside the included file's class body /
    # comprehension)
    fn = {DIR + "/common.cond": "import os\nBASE = 3\nSIZES = [1, 2]\ndef threads():\n    return BASE * 2\nscale = lambda s: BASE * s\n"
                                "def here():\n    return os.sep\nclass Cfg:\n    reps = BASE\n    doubled = [BASE * s for s in SIZES]\nSCALED = [BASE * s for s in SIZES]\n"}
    for tag, pro in (("function", "assert threads() == 6\n"), ("lambda", "assert scale(4) == 12\n"), ("import", "assert here() == '/'\n"),
                     ("class", "assert Cfg.reps == 3 and Cfg.doubled == [3, 6]\n"), ("comprehension", "assert SCALED == [3, 6]\n")):
        out.append(mk("include('common.cond')\n", True, "symbols-" + tag, files=fn))
        out[-1][0]["prologue"] = "include('common.cond')\n" + pro
    # the included file's builtins and scope do not leak Conductor's constructors into it, nor `__builtins__` out of it
    out.append(mk("include('common.cond')\n", False, "task-defining", files={DIR + "/common.cond": "def f():\n    return run_command\nf()\n"}, must="common.cond"))
    return out


def python_error_cases():
    pro = [
        ("X = 1 / 0\n", "zero-division"),
        ("undefined_name\n", "name-error"),
        ("raise RuntimeError('x')\n", "raise"),
        ("raise KeyError('k')\n", "raise"),
        ("raise ValueError('{k}: {0} }')\n", "raise-braces"),
        ("raise ValueError(str({'a': 1}))\n", "raise-braces"),
        ("assert False, '{x}'\n", "assert-braces"),
        ("assert False\n", "assert"),
        ("import nosuchmodule_xyz\n", "import-error"),
        ("run_command(\n", "syntax-error"),
        ("  x = 1\n", "syntax-error"),
        # syntax errors found by the COMPILER stage, or raised by the file itself: SyntaxError.text is None for them
        ("return 5\n", "syntax-error-compiler"),
        ("break\n", "syntax-error-compiler"),
        ("def f(a, a):\n    pass\n", "syntax-error-compiler"),
        ("x = 1\nglobal x\n", "syntax-error-compiler"),
        ("from __future__ import nosuchfeature_xyz\n", "syntax-error-compiler"),
        ("raise SyntaxError('made by the file')\n", "syntax-error-raised"),
        ("await f()\n", "syntax-error-compiler"),
        ("run_command('a', 'true')\n", "positional-call"),
        ("run_command(**5)\n", "type-error"),
        ("open('/nonexistent/zz')\n", "file-not-found"),
        ("[][1]\n", "index-error"),
        ("int('x')\n", "value-error"),
        ("def f():\n    return f()\nf()\n", "recursion-error"),
        ("ExperimentInstance()\n", "instance-without-name"),
        ("run_experiment_group(name='g')\n", "group-without-run"),
        ("run_experiment_group(name='g', run='true', bogus=1)\n", "group-unknown-param"),
    ]
    out = []
    for text, tag in pro:
        out.append(({"stmts": [T0, ("call", "run_command", {"name": "a", "run": "true"})], "target": "a", "tag": "python-" + tag, "prologue": text, "must_name": "COND"}, False))
        # the same error after the needed task was defined: the file is still rejected as a whole
    out.append(({"stmts": [T0], "target": "t0", "tag": "python-after", "prologue": "", "files": {}, "epilogue": "1/0\n"}, False))
    return out


def cross_file_cases():
    """defects that need two COND files in different directories, or a COND file that cannot even be read"""
    out = []
    dep = [T0, ("call", "run_command", {"name": "a", "run": "true", "deps": ["//zz:leaf"]})]
    good = {DIR + "/common.cond": "REPS = 3\n"}
    leaf = "include('common.cond')\nrun_command(name='leaf', run='true')\n"
    # the same relative include string in two directories: each must be resolved and checked on its own
    for tag, extra, ok in (
        ("second-ok", {"zz/common.cond": "REPS = 4\n"}, True),
        ("second-missing", {}, False),
        ("second-raises", {"zz/common.cond": "raise ValueError('boom')\n"}, False),
        ("second-defines-task", {"zz/common.cond": "run_command(name='inc', run='true')\n"}, False),
        ("second-includes", {"zz/common.cond": "include('x.cond')\n", "zz/x.cond": "X = 1\n"}, False),
    ):
        out.append(({"stmts": dep, "target": "a", "tag": "include-two-dirs-" + tag, "prologue": "include('common.cond')\n",
                     "files": dict(good, **dict({"zz/COND": leaf}, **extra))}, ok))
    # and the symbols are the second file's own
    out.append(({"stmts": dep, "target": "a", "tag": "include-two-dirs-own-symbols", "prologue": "include('common.cond')\n",
                 "files": dict(good, **{"zz/COND": "include('common.cond')\nassert REPS == 4\nrun_command(name='leaf', run='true')\n", "zz/common.cond": "REPS = 4\n"})}, True))
    # every COND file is evaluated in a scope of its own: what another COND file of the same invocation defined, imported or
    # included is invisible to it, and cannot shadow its constructors -- in both orders of evaluation (the loader takes the
    # last-listed dependency first).  (Seed C15/l: all COND files ran in the loader's one shared scope.)
    for order in (["//zz:leaf", "//yy:leaf"], ["//yy:leaf", "//zz:leaf"]):
        two = [T0, ("call", "run_command", {"name": "a", "run": "true", "deps": order})]
        o = "zz-first" if order[0].startswith("//zz") else "yy-first"
        out.append(({"stmts": two, "target": "a", "tag": "scope-forgotten-include-" + o, "prologue": "",
                     "files": {"yy/common.cond": "REPS = 3\n", "yy/COND": "include('common.cond')\nimport math\nrun_command(name='leaf', run='true', args=[REPS])\n",
                               "zz/COND": "run_command(name='leaf', run='true', args=[REPS])\n"}, "must_name": "zz"}, False))
        out.append(({"stmts": two, "target": "a", "tag": "scope-forgotten-import-" + o, "prologue": "",
                     "files": {"yy/COND": "import math\nrun_command(name='leaf', run='true', args=[math.floor(2.5)])\n",
                               "zz/COND": "run_command(name='leaf', run='true', args=[math.floor(2.5)])\n"}, "must_name": "zz"}, False))
        out.append(({"stmts": two, "target": "a", "tag": "scope-shadowed-constructor-" + o, "prologue": "",
                     "files": {"yy/COND": "group = 'nightly'\nrun_command = print if False else run_command\nrun_command(name='leaf', run='true')\n",
                               "zz/COND": "run_command(name='leaf', run='true')\ngroup(name='g', deps=[':leaf'])\n"}}, True))
    # COND files that cannot be read as UTF-8 text / are not files
    latin = "# caf\xe9\nrun_command(name='a', run='true')\n".encode("latin-1")
    out.append(({"stmts": [T0], "target": "a", "tag": "cond-not-utf8", "prologue": "", "files": {DIR + "/COND": latin}, "must_name": "COND"}, False))
    out.append(({"stmts": [T0], "target": "a", "tag": "cond-is-directory", "prologue": "", "cond_is_dir": True}, False))
    out.append(({"stmts": dep, "target": "a", "tag": "dep-cond-not-utf8", "prologue": "", "files": {"zz/COND": "# caf\xe9\nrun_command(name='leaf', run='true')\n".encode("latin-1")}}, False))
    out.append(({"stmts": dep, "target": "a", "tag": "dep-cond-is-directory", "prologue": "", "files": {"zz/COND/placeholder": ""}}, False))
    out.append(({"stmts": [T0, ("call", "run_command", {"name": "a", "run": "true"})], "target": "a", "tag": "include-not-utf8", "prologue": "include('l.cond')\n",
                 "files": {DIR + "/l.cond": "X = 'caf\xe9'\n".encode("latin-1")}}, False))
    return out


# ----------------------------------------------------------------------------- main
def run(tier, seed, replay=None):
    chk = Check("C15", tier, seed)
    chk.build_proofs(["Model/Group.vo", "Model/Schema.vo", "Lib/Cmp.vo"])
    chk.assumptions = [
        "PARTIAL: theorems cover the accept/reject decision; the mapping of Python exceptions to ConductorErrors and the CLI's ERROR: line are tested end to end, not proved",
        "values are abstracted to str/bool/int/float/None/list/dict/other (no subclasses of str, list, dict); kwargs have distinct keys (Python guarantees it)",
        "the undocumented `environment` constructor, positional constructor calls and SystemExit raised by a COND file are outside the documented constructors",
        "distinctness of a task's deps is read as part of 'list of task identifiers this task depends on'",
        "argument objects are not mutated between the constructor call and the loading of the task: `d = []; run_command(..., deps=d); d.append(5)` is checked at call "
        "time and used later, and the late type error escapes as a traceback; the property quantifies over constructor calls with arbitrary argument VALUES",
        "run_experiment_group's own parameters (`run`, `deps`, `chain_experiments`) are not type-checked by the group itself: acceptance of a group is acceptance of its "
        "documented expansion (C19); a truthy non-boolean `chain_experiments` chains",
        "whole-closure acceptance (`cond run --check`) composes the per-task decision proved here with the traversal of C14; that composition is exercised end to end, not proved",
    ]
    setup_impl_path()
    import conductor.__main__  # noqa: F401  pylint: disable=unused-import,import-outside-toplevel

    try:
        import conductor.envs.manager_impl  # noqa: F401  pylint: disable=unused-import,import-outside-toplevel
    except ImportError:
        pass
    loader = Loader()

    if replay is not None:
        case = unjson(replay["input"])
        inp = replay["input"]
        if inp.get("e2e"):
            case.update({"outside": inp.get("outside", {}), "symlinks": inp.get("symlinks", {}), "must_name": inp.get("must_name")})
            r = e2e(chk, case, inp.get("expect_ok"), "replay")
            print("replay (end to end): exit=%s stderr=%r" % (r.code, implrun.strip_ansi(r.err)[-600:]))
        else:
            o = observe(loader, case)
            print("replay: target %r of\n%s -> %s; documented schema says %s" % (case["target"], render(case), o, "accept" if doc_wellformed(case) else "reject"))
            oracle_decision(chk, case, o)
            model_compare(chk, [(case, o)])
        return chk.finish()

    cases = corpus() + exhaustive(pairs=(tier != "quick"))
    nrand = 500 if tier == "quick" else 8000
    for _ in range(nrand):
        cases.append(random_case(chk.rng))

    rows = []
    distinct = set()
    for case in cases:
        o = observe(loader, case)
        oracle_decision(chk, case, o)
        rows.append((case, o))
        chk.count("origin", case["tag"].split("-")[0])
        chk.count("decision", "accepted" if o[0] == "ok" else o[1][0])
        # non-trivial: the file defines the needed task, or is rejected for a reason other than "not defined"
        if o[0] == "ok" or o[1][0] != "TaskNotFound":
            distinct.add(render(case) + "\0" + case["target"])
        if case["tag"] == "random" and o[0] == "ok" and len(case["stmts"]) >= 4:
            chk.sample({"source": render(case), "target": case["target"], "loaded": o[1][0]["type"]})
    chk.coverage["evaluations"] = len(cases)
    chk.coverage["distinct_nontrivial"] = len(distinct)
    chk.coverage["exhaustive"] = False
    chk.coverage["rule"] = (
        "in-process: COND files of documented constructor calls and groups, target loaded with the real TaskIndex.load_single_task; corpus (documented examples, "
        "%d names, %d dependency strings, args/options, duplicates, unknown/missing parameters) + every constructor x parameter x %d values%s + seeded random "
        "files (mostly valid, at most one defect); non-trivial = accepted, or rejected for a reason other than the target not being defined; distinct = distinct (source, target)"
        % (len(NAMES_BAD), len(DEPS_POOL), len(VALUES), "" if tier == "quick" else " and pairs of parameters")
    )
    model_compare(chk, rows)

    # ---- end to end
    n_e2e = 0
    e2e_dist = {}
    picked = [c for c in cases if c["tag"] not in ("random", "exhaustive-1", "exhaustive-2")]
    rest = [c for c in cases if c["tag"] in ("random", "exhaustive-1", "exhaustive-2")]
    chk.rng.shuffle(rest)
    picked += rest[: (150 if tier == "quick" else 3000)]
    for case in picked:
        r = e2e(chk, case, doc_wellformed_closure(case), "cond run --check")
        n_e2e += 1
        e2e_dist["exit-%s" % r.code] = e2e_dist.get("exit-%s" % r.code, 0) + 1
    for case, ok in include_cases() + python_error_cases() + cross_file_cases():
        r = e2e(chk, case, ok, "include()" if case["tag"].startswith("include") else "Python error in a COND file")
        n_e2e += 1
        chk.count("e2e_kind", case["tag"])
    chk.coverage["distribution"]["e2e_exit"] = e2e_dist
    chk.coverage["end_to_end_runs"] = n_e2e

    # ---- outside the documented constructors (reported, not judged)
    obs = {}
    envcase = {"stmts": [T0, ("call", "environment", {"name": "e", "create": "a", "start": "b", "stop": "c", "destroy": "d"})], "target": "e", "tag": "undocumented"}
    o = observe(loader, envcase)
    obs["environment() (undocumented constructor, outside the model)"] = repr(o)[:200]
    chk.coverage["observations_outside_scope"] = obs
    if tier == "thorough":
        chk.run_coqchk()
    return chk.finish()
