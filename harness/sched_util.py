"""Shared engine of the scheduling properties (C01-C04, C07, C09a, C14): generated projects, the
fake process layer driving the REAL TaskIndex / ExecutionPlanner / Executor in-process, the
flattening of what was observed (same format as coq/Model/RunCase.v:ser_outcome), the Coq case
files, and graph helpers for the property oracles."""
import contextlib
import io
import itertools
import os
import pathlib
import shutil
import sys

from common import (HARNESS_FAULT, raised_in_harness, cbool, clist, new_dir, pack, run_packed_cases, ser_bool, ser_list, ser_n, ser_opt,
                    setup_impl_path)

KINDS = ["command", "experiment", "combine", "group"]
KIND_COQ = {"command": "KCommand", "experiment": "KExperiment", "combine": "KCombine", "group": "KGroup"}


# ----------------------------------------------------------------------------- cases
class Task:
    def __init__(self, status=2, deps=(), kind="command", par=False, sr=True, pkg=""):
        self.status = status  # 0 undefined, 1 bad, 2 good
        self.deps = list(deps)
        self.kind = kind
        self.par = par
        self.sr = sr  # False: experiment with an existing version
        self.pkg = pkg  # "" or "p0/p1"


class Case:
    def __init__(self, tasks, root=0, again=False, jobs=1, stop=False, launch_fail=(), rcs=None, picks=(), batches=()):
        self.tasks = tasks
        # batches[k]: how many FURTHER running processes exit together with the one picked at the k-th blocking wait
        # (one SIGCHLD stands for several exits: the handler reaps them all, wait() hands them out one by one)
        self.batches = list(batches)
        self.root = root
        self.again = again
        self.jobs = jobs
        self.stop = stop
        self.launch_fail = list(launch_fail)
        self.rcs = list(rcs) if rcs is not None else [0] * len(tasks)
        self.picks = list(picks)

    def key(self):
        return repr(self.to_json())

    def to_json(self):
        return {
            "tasks": [[t.status, t.deps, t.kind, t.par, t.sr, t.pkg] for t in self.tasks],
            "root": self.root, "again": self.again, "jobs": self.jobs, "stop": self.stop,
            "launch_fail": self.launch_fail, "rcs": self.rcs, "picks": self.picks, "batches": self.batches,
        }

    @staticmethod
    def from_json(j):
        tasks = [Task(s, d, k, p, sr, pkg) for s, d, k, p, sr, pkg in j["tasks"]]
        return Case(tasks, j["root"], j["again"], j["jobs"], j["stop"], j["launch_fail"], j["rcs"], j["picks"], j.get("batches", ()))

    def graph_text(self):
        return ";".join("t%d->[%s]" % (i, ",".join("t%d" % d for d in t.deps)) for i, t in enumerate(self.tasks) if t.status == 2 and t.deps)

    def coq(self, picks=None):
        tds = []
        for t in self.tasks:
            tds.append("{| td_status := %d%%nat; td_deps := %s; td_kind := %s; td_par := %s; td_sr := %s |}" % (
                t.status, clist(["%d%%nat" % d for d in t.deps]), KIND_COQ[t.kind], cbool(t.par), cbool(t.sr)))
        cfg = ("{| c_root := %d%%nat; c_again := %s; c_jobs := %d%%nat; c_stop := %s; c_launch_fail := %s; c_rcs := %s; c_picks := %s |}" % (
            self.root, cbool(self.again), self.jobs, cbool(self.stop),
            clist(["%d%%nat" % x for x in self.launch_fail]), clist(["%d%%N" % x for x in self.rcs]),
            clist(["%d%%nat" % x for x in (self.picks if picks is None else picks)])))
        return "(%s, %s)" % (clist(tds), cfg)


def ident(i, t):
    return "//%s:t%d" % (t.pkg, i)


def spelled(i, pos, d, tasks):
    """a dependency can be written in several ways that denote the same task: //pkg:t, //pkg/:t and,
    inside the same COND file, :t -- vary them deterministically"""
    t, td = tasks[i], tasks[d]
    forms = [ident(d, td)]
    if t.pkg == td.pkg and td.status != 0:
        forms.append(":t%d" % d)
    if td.pkg:
        forms.append("//%s/:t%d" % (td.pkg, d))
    # a task listed twice is spelled differently each time whenever that is possible
    earlier = t.deps[:pos].count(d)
    return forms[(i * 7 + d * 3 + earlier) % len(forms)] if earlier == 0 else forms[((i * 7 + d * 3) % len(forms) + earlier) % len(forms)]


# ----------------------------------------------------------------------------- project on disk
def write_project(case):
    root = os.path.join(new_dir("sched"), "p")
    os.makedirs(root)
    with open(os.path.join(root, "cond_config.toml"), "w", encoding="utf-8") as f:
        f.write("disable_git = true\n")
    by_pkg = {}
    for i, t in enumerate(case.tasks):
        if t.status == 0:
            continue
        by_pkg.setdefault(t.pkg, []).append((i, t))
    # every package mentioned gets a COND file (an undefined task lives in an existing file or not: both occur)
    for pkg, items in by_pkg.items():
        lines = []
        for i, t in items:
            deps = ", ".join('"%s"' % spelled(i, pos, d, case.tasks) for pos, d in enumerate(t.deps))
            bad = ", args=[[1]]" if t.status == 1 and t.kind in ("command", "experiment") else ""
            if t.status == 1 and t.kind in ("combine", "group"):
                deps = deps + (", " if deps else "") + '"not an identifier"'
            if t.kind == "command":
                lines.append('run_command(name="t%d", run="true", parallelizable=%s, deps=[%s]%s)' % (i, t.par, deps, bad))
            elif t.kind == "experiment":
                lines.append('run_experiment(name="t%d", run="true", parallelizable=%s, deps=[%s]%s)' % (i, t.par, deps, bad))
            elif t.kind == "combine":
                lines.append('combine(name="t%d", deps=[%s])' % (i, deps))
            else:
                lines.append('group(name="t%d", deps=[%s])' % (i, deps))
        d = os.path.join(root, pkg)
        os.makedirs(d, exist_ok=True)
        with open(os.path.join(d, "COND"), "w", encoding="utf-8") as f:
            f.write("\n".join(lines) + "\n")
    return root


# ----------------------------------------------------------------------------- fake process layer
class Observed:
    def __init__(self):
        self.load = None          # ("ok", loaded set) | ("cycle",) | ("notfound", x) | ("bad", x) | ("dup", x)
        self.plan = None          # dict
        self.events = None        # list of tuples (oldest first)
        self.spawns = []          # dicts: task, slot, cwd, argv, env
        self.crash = None         # unexpected exception text
        self.stdout = ""
        self.deadlock = False
        self.raised = None        # class name of the error leaving run_plan


class Deadlock(Exception):
    pass


TRACED = ("/conductor/execution/", "/conductor/utils/sigchld.py", "/conductor/task_types/run.py")


def run_with_injection(m, ctx, tid, case, obs, inject, inj_state, inflight, pid_task, kills, trace, vanished, close_pipes=lambda pid: None):
    import signal as _signal
    from conductor.errors.signal import register_signal_handlers

    old_int = _signal.getsignal(_signal.SIGINT)
    old_term = _signal.getsignal(_signal.SIGTERM)
    k = inject.get("k")
    sig = inject.get("sig", _signal.SIGINT)

    def local(frame, event, arg):  # pylint: disable=unused-argument
        if event == "line":
            inj_state["count"] += 1
            if k is None:
                inj_state.setdefault("funcs", []).append(frame.f_code.co_name)
                inj_state.setdefault("lines", []).append(frame.f_lineno)
            if k is not None and inj_state["count"] == k and inj_state["fired"] is None:
                inj_state["fired"] = {"live": [pid_task[p] for p in inflight], "where": os.path.basename(frame.f_code.co_filename),
                                      "line": frame.f_lineno, "func": frame.f_code.co_name, "vanished": []}
                if inject.get("vanish_first") and len(inflight) >= 2:
                    # the first registered process has just exited and been reaped (its exit and the interrupt arrive together)
                    vanished.add(inflight[0])
                    close_pipes(inflight[0])
                    inj_state["fired"]["vanished"] = [pid_task[inflight[0]]]
                if inject.get("vanish_last") and inflight and frame.f_code.co_name == "start_execution":
                    # the process that was just spawned is short-lived: it has already exited and been reaped by the SIGCHLD
                    # handler when the interrupt is handled inside start_execution
                    vanished.add(inflight[-1])
                    close_pipes(inflight[-1])         # a process that has exited has closed its ends of the pipes
                    inj_state["fired"]["vanished"] = inj_state["fired"]["vanished"] + [pid_task[inflight[-1]]]
                _signal.raise_signal(sig)
        return local

    def tracer(frame, event, arg):  # pylint: disable=unused-argument
        fn = frame.f_code.co_filename
        if any(t in fn for t in TRACED):
            return local
        return None

    register_signal_handlers()
    obs.abort = {"raised": None, "fired": None}
    try:
        sys.settrace(tracer)
        try:
            plan = m["Planner"](ctx).create_plan_for(tid, run_again=case.again)
            ex = m["executor"].Executor(execution_slots=case.jobs)
            ex.run_plan(plan, ctx, stop_on_first_error=case.stop)
        finally:
            sys.settrace(None)
    except BaseException as e:  # pylint: disable=broad-except
        obs.abort["raised"] = type(e).__name__
        obs.abort["message"] = str(e)[:200]
    finally:
        _signal.signal(_signal.SIGINT, old_int)
        _signal.signal(_signal.SIGTERM, old_term)
        # an injection may land inside SigchldHelper.track()'s own clean-up: undo what it left behind
        _signal.signal(_signal.SIGCHLD, _signal.SIG_DFL)
        try:
            _signal.set_wakeup_fd(-1)
        except ValueError:
            pass
        m["sigchld"].SigchldHelper._Instance = None  # pylint: disable=protected-access
    obs.abort["fired"] = inj_state["fired"]
    obs.abort["events"] = inj_state["count"]
    obs.abort["funcs"] = inj_state.get("funcs")
    obs.abort["lines"] = inj_state.get("lines")
    obs.abort["kills"] = list(kills)
    obs.abort["finished_ok"] = [r[1] for r in trace if r[0] == "finish" and r[2] == 0]
    obs.plan = None


class Timeout(BaseException):
    pass


def _on_alarm(signum, frame):  # pylint: disable=unused-argument
    raise Timeout("the implementation did not finish within %d s" % IMPL_TIMEOUT)


IMPL_TIMEOUT = 10


_IMPL = {}


def impl():
    if not _IMPL:
        setup_impl_path()
        import conductor.errors as errors
        import conductor.execution.executor as executor
        import conductor.execution.ops.combine_outputs as co
        import conductor.execution.ops.noop as noop
        import conductor.execution.ops.operation as operation
        import conductor.execution.ops.run_task_executable as rte
        import conductor.utils.sigchld as sigchld
        import conductor.task_types.base as ttbase
        import conductor.task_types.run as ttrun
        import conductor.parsing.task_index as tindex
        from conductor.context import Context
        from conductor.execution.planning.planner import ExecutionPlanner
        from conductor.execution.version_index import Version, VersionIndex
        from conductor.task_identifier import TaskIdentifier

        _IMPL.update(ttbase=ttbase, ttrun=ttrun, tindex=tindex, errors=errors, executor=executor, co=co, noop=noop, operation=operation, rte=rte, sigchld=sigchld,
                     Context=Context, Planner=ExecutionPlanner, Version=Version, VersionIndex=VersionIndex, TaskIdentifier=TaskIdentifier)
    return _IMPL


def task_of_ident(identifier):
    return int(identifier.name[1:])


def run_impl(case, keep_root=False, inject=None):
    """drive the real code on the case; returns Observed.
    inject = {"k": n | None, "sig": signal number, "popen_end": bool}: count line events of the main
    thread inside conductor/execution, conductor/utils/sigchld.py, conductor/task_types/run.py and
    conductor/execution/version_index.py from the start of planning; at the k-th raise the signal
    (the Python-level handler installed by register_signal_handlers() then raises ConductorAbort
    before that line executes).  popen_end: raise it at the end of the (fake) Popen() instead, i.e.
    after the child exists and before Popen returns.  obs.abort describes what happened."""
    m = impl()
    obs = Observed()
    root = write_project(case)
    # cache state: experiments with sr=False get a recorded version
    vi_path = pathlib.Path(root, "cond-out", "version_index.sqlite")
    pre = [(i, t) for i, t in enumerate(case.tasks) if t.status == 2 and t.kind == "experiment" and not t.sr]
    if pre:
        vi = m["VersionIndex"].create_or_load(vi_path)
        for i, t in pre:
            vi.insert_output_version(m["TaskIdentifier"].from_str(ident(i, t)), m["Version"](1000 + i, None, False))
        vi.commit_changes()
        del vi
    # launch failures come in two kinds: Popen() raising (all tasks) and, for run_command tasks with an odd number, an
    # output directory that cannot be created because a regular file has its name (the real mkdir fails)
    blocked = set()
    for t_ in case.launch_fail:
        if t_ < len(case.tasks) and case.tasks[t_].status == 2 and case.tasks[t_].kind == "command" and t_ % 2 == 1:
            d_ = os.path.join(root, "cond-out", case.tasks[t_].pkg)
            os.makedirs(d_, exist_ok=True)
            with open(os.path.join(d_, "t%d.task" % t_), "w", encoding="utf-8") as f_:
                f_.write("in the way\n")
            blocked.add(t_)
    # left-overs of earlier failed runs: unrecorded output directories of some experiments carrying the version
    # numbers that are about to be generated (a new version must not reuse or be confused with them)
    import time as _time
    now_ = int(_time.time())
    for i_, t_ in enumerate(case.tasks):
        if t_.status == 2 and t_.kind == "experiment" and i_ % 3 == 2:
            for j_ in range(0, len(case.tasks) + 3):
                d_ = os.path.join(root, "cond-out", t_.pkg, "t%d.task.%d" % (i_, now_ + j_))
                os.makedirs(d_, exist_ok=True)
                with open(os.path.join(d_, "stale.txt"), "w", encoding="utf-8") as f_:
                    f_.write("left over\n")
    import signal as _signal
    trace = []          # raw records
    started = set()
    inflight = []       # fake pids in spawn order
    pid_task = {}
    waits = [0]
    next_pid = [500000]
    write_ends = {}
    kills = []
    vanished = set()   # pids that have "exited and been reaped" although they are still registered
    exited = set()     # reaped by the (fake) handler, not yet handed out by wait()
    rte, co, noop, operation, sigchld, errors = m["rte"], m["co"], m["noop"], m["operation"], m["sigchld"], m["errors"]

    class FakeProc:
        def __init__(self, args, **kw):
            env = kw.get("env") or {}
            name = env.get("COND_NAME")
            t = int(name[1:])
            if t in case.launch_fail:
                if inject is not None and inject.get("at_failed_launch") and inj_state["fired"] is None:
                    # the signal arrives while THIS launch is failing (the block is left by the launch error)
                    inj_state["fired"] = {"live": [pid_task[p] for p in inflight], "where": "inside-a-failing-launch", "line": 0, "func": "Popen"}
                    _signal.raise_signal(inject.get("sig", _signal.SIGINT))
                raise OSError(13, "injected launch failure")
            self.pid = next_pid[0]
            next_pid[0] += 1
            # a teed stream is a real pipe whose write end stays open while the fake process "runs"
            self.stdout = self.stderr = None
            self._wfds = []
            for attr in ("stdout", "stderr"):
                if kw.get(attr) == -1:
                    r, w = os.pipe()
                    setattr(self, attr, os.fdopen(r, "rb"))
                    self._wfds.append(w)
            write_ends[self.pid] = self._wfds
            self.returncode = None
            slot = env.get("COND_SLOT")
            obs.spawns.append({"task": t, "slot": None if slot is None else int(slot), "cwd": str(kw.get("cwd")), "argv": list(args),
                               "env": {k: env.get(k) for k in ("COND_OUT", "COND_DEPS", "COND_NAME", "COND_SLOT")},
                               "shell": kw.get("shell"), "executable": kw.get("executable"), "out_exists": os.path.isdir(env.get("COND_OUT", "")),
                               "out_listing": sorted(os.listdir(env.get("COND_OUT"))) if os.path.isdir(env.get("COND_OUT", "")) else None})
            inflight.append(self.pid)
            pid_task[self.pid] = t
            started.add(t)
            trace.append(("start", t, None if slot is None else int(slot)))
            if inject is not None and inject.get("popen_end") and inj_state["fired"] is None and len(obs.spawns) == inject.get("spawn_index", 1):
                inj_state["fired"] = {"live": [pid_task[p] for p in inflight], "where": "inside-Popen-after-fork", "line": 0, "func": "Popen"}
                _signal.raise_signal(inject.get("sig", _signal.SIGINT))

    class Shim:
        PIPE = -1
        Popen = FakeProc

    def close_pipes(pid):
        for w in write_ends.pop(pid, []):
            try:
                os.close(w)
            except OSError:
                pass

    def fake_getpgid(pid):
        if pid in vanished:
            raise ProcessLookupError(3, "No such process")
        if pid in exited:
            # exited and reaped by the handler, not yet handed out by wait(): terminating it is attempted (recorded) and
            # fails with ESRCH, which the executor has to tolerate
            kills.append(pid_task.get(pid, -1))
            raise ProcessLookupError(3, "No such process")
        return pid

    def fake_killpg(pg, sig):  # pylint: disable=unused-argument
        kills.append(pid_task.get(pg, -1))
        close_pipes(pg)

    eff_picks = []     # index (in the list of not yet returned processes) of the process each wait() returned
    nbatch = [0]

    def fake_wait(self):
        rcs_list = self._returncodes  # pylint: disable=protected-access
        if len(rcs_list) == 0:
            live = [p for p in inflight if p not in exited]
            if not live:
                raise Deadlock("SigchldHelper.wait() with no process in flight")
            k = (case.picks[waits[0]] if waits[0] < len(case.picks) else 0) % len(live)
            waits[0] += 1
            nb = case.batches[nbatch[0]] if nbatch[0] < len(case.batches) else 0
            nbatch[0] += 1
            primary = live[k]
            extras = [p for p in live if p != primary][:nb]
            for p in extras + [primary]:      # the handler appends in reaping order; wait() pops the last one
                exited.add(p)
                close_pipes(p)
                tk = pid_task[p]
                rcs_list.append((p, case.rcs[tk] if tk < len(case.rcs) else 0))
        pid, rc = self._extract_any()  # pylint: disable=protected-access
        if pid in inflight:
            eff_picks.append(inflight.index(pid))
            inflight.remove(pid)
        exited.discard(pid)
        t = pid_task.get(pid, -1)
        trace.append(("finish", t, rc))
        return pid, rc

    orig = {}

    def patch(obj, name, val):
        orig[(obj, name)] = getattr(obj, name)
        setattr(obj, name, val)

    def wrap_sync(cls):
        real = cls.start_execution

        def start_execution(self, ctx, slot):
            t = task_of_ident(self._identifier)  # pylint: disable=protected-access
            if t in case.launch_fail:
                raise errors.CombineOutputFileConflict(output_file="injected")
            h = real(self, ctx, slot)
            started.add(t)
            trace.append(("start", t, slot))
            return h

        patch(cls, "start_execution", start_execution)

    real_set_state = operation.Operation.set_state

    def set_state(self, state):
        t = task_of_ident(self.main_task.identifier)
        trace.append(("state", t, state.name, self.__class__.__name__))
        return real_set_state(self, state)

    sr_calls, nv_calls, last_loading = [], [], [None]

    def wrap_method(cls, name, before):
        real = getattr(cls, name)

        def wrapper(self, *a, **kw):
            before(self, *a, **kw)
            return real(self, *a, **kw)

        patch(cls, name, wrapper)

    cwd0 = os.getcwd()
    out = io.StringIO()
    import signal as _signal

    inj_state = {"count": 0, "fired": None}
    timed_out = [False]

    def on_alarm(signum, frame):  # pylint: disable=unused-argument
        # unblock whatever waits for a fake process (tee threads read real pipes), then give up on the case
        timed_out[0] = True
        for _pid in list(write_ends):
            close_pipes(_pid)
        raise Timeout("the implementation did not finish within %d s" % IMPL_TIMEOUT)

    old_alarm = _signal.signal(_signal.SIGALRM, on_alarm)
    _signal.alarm(IMPL_TIMEOUT)
    try:
        patch(rte, "subprocess", Shim)
        patch(sigchld.SigchldHelper, "wait", fake_wait)
        wrap_sync(co.CombineOutputs)
        wrap_sync(noop.NoOp)
        patch(operation.Operation, "set_state", set_state)
        wrap_method(m["ttbase"].TaskType, "should_run", lambda self, *a, **k: sr_calls.append(task_of_ident(self.identifier)))
        wrap_method(m["ttrun"].RunExperiment, "should_run", lambda self, *a, **k: sr_calls.append(task_of_ident(self.identifier)))
        wrap_method(m["ttrun"].RunExperiment, "create_new_version", lambda self, *a, **k: nv_calls.append(task_of_ident(self.identifier)))
        wrap_method(m["tindex"].TaskIndex, "load_single_task", lambda self, identifier: last_loading.__setitem__(0, task_of_ident(identifier)))
        patch(m["executor"].os, "getpgid", fake_getpgid)
        patch(m["executor"].os, "killpg", fake_killpg)
        with contextlib.redirect_stdout(out), contextlib.redirect_stderr(out):
            ctx = m["Context"](pathlib.Path(root))
            tid = m["TaskIdentifier"].from_str(ident(case.root, case.tasks[case.root]))
            try:
                ctx.task_index.load_transitive_closure(tid)
                loaded = sorted(task_of_ident(k) for k in ctx.task_index.get_all_loaded_tasks().keys())
                obs.load = ("ok", loaded)
            except errors.CyclicDependency:
                obs.load = ("cycle",)
            except errors.TaskNotFound as ex:
                obs.load = ("notfound", int(str(ex.task_identifier).rsplit(":t", 1)[1]))
            except errors.MissingCondFile:
                obs.load = ("notfound", last_loading[0])
            except errors.DuplicateDependency as ex:
                obs.load = ("dup", task_of_ident(ex.task_identifier))
            except errors.ConductorError as ex:
                obs.load = ("bad", last_loading[0], type(ex).__name__)
            if obs.load[0] == "ok" and inject is not None:
                run_with_injection(m, ctx, tid, case, obs, inject, inj_state, inflight, pid_task, kills, trace, vanished, close_pipes)
            elif obs.load[0] == "ok":
                plan = m["Planner"](ctx).create_plan_for(tid, run_again=case.again)
                tk = lambda op: task_of_ident(op.main_task.identifier)  # noqa: E731
                obs.plan = {
                    "ops": [(tk(op), [tk(d) for d in op.exe_deps], bool(op.parallelizable), not isinstance(op, rte.RunTaskExecutable)) for op in plan.all_ops],
                    "deps_of": [[tk(d) for d in op.deps_of] for op in plan.all_ops],
                    "initial": [tk(op) for op in plan.initial_ops],
                    "cached": [task_of_ident(t.identifier) for t in plan.cached_tasks],
                    "num": plan.num_tasks_to_run,
                    "versions": {tk(op): str(op._version_to_record) for op in plan.all_ops if isinstance(op, rte.RunTaskExecutable) and op._version_to_record is not None},  # pylint: disable=protected-access
                    "deps_paths": {tk(op): [str(x) for x in op._deps_output_paths] for op in plan.all_ops if isinstance(op, rte.RunTaskExecutable)},  # pylint: disable=protected-access
                    "combine_paths": {tk(op): [(task_of_ident(a), str(b)) for a, b in op._deps_output_paths] for op in plan.all_ops if isinstance(op, co.CombineOutputs)},  # pylint: disable=protected-access
                }
                ex = m["executor"].Executor(execution_slots=case.jobs)
                try:
                    ex.run_plan(plan, ctx, stop_on_first_error=case.stop)
                    obs.raised = None
                except errors.ConductorError as e:
                    obs.raised = type(e).__name__
                obs.final_states = {tk(op): op.state.name for op in plan.all_ops}
                if hasattr(ex, "_completed_ops"):
                    obs.completed = [tk(op) for op in ex._completed_ops]  # pylint: disable=protected-access
                else:
                    # the private list was renamed: an operation is completed when it is given its final state
                    obs.completed = [rec[1] for rec in trace if rec[0] == "state" and rec[2] in ("SUCCEEDED", "FAILED", "SKIPPED")]
            try:
                ctx.tee_processor.shutdown()
            except Exception:  # pylint: disable=broad-except
                pass
    except Deadlock as e:
        obs.deadlock = True
        obs.crash = "Deadlock: %s" % e
    except Timeout as e:
        obs.crash = "Timeout: %s" % e
    except BaseException as e:  # pylint: disable=broad-except
        import traceback

        obs.crash = "%s%s: %s\n%s" % (HARNESS_FAULT + " " if raised_in_harness(e) else "", type(e).__name__, e, traceback.format_exc()[-1500:])
    finally:
        _signal.alarm(0)
        _signal.signal(_signal.SIGALRM, old_alarm)
        for _pid in list(write_ends):
            close_pipes(_pid)
        for (o, name), val in orig.items():
            setattr(o, name, val)
        os.chdir(cwd0)
    if timed_out[0] and obs.crash is None:
        obs.crash = "Timeout: the implementation blocked for more than %d s (it was waiting for a task process that nothing was going to end)" % IMPL_TIMEOUT
    obs.stdout = out.getvalue()
    obs.sr_calls, obs.nv_calls = sr_calls, nv_calls
    obs.eff_picks = list(eff_picks)
    obs.kills = kills
    obs.root = root
    obs.index_rows = None
    # derive the event list
    from implrun import strip_ansi, index_rows

    try:
        obs.index_rows = index_rows(root)
    except Exception:  # pylint: disable=broad-except
        pass
    text = strip_ansi(obs.stdout)
    obs.text = text
    events = []
    # a cached task is announced by a line that names it (a cached task is neither started, skipped nor reported as
    # failed, so it is named nowhere else); the wording of the announcement is not relied on
    import re as _re0

    plan_cached = set((obs.plan or {}).get("cached", []))
    announced = set()
    for line in text.splitlines():
        for mt in _re0.finditer(r":t(\d+)\b", line):
            t = int(mt.group(1))
            if t in plan_cached and t not in announced:
                announced.add(t)
                events.append(("cached", t))
    n_cached = len(events)
    for rec in trace:
        if rec[0] == "start":
            events.append(("start", rec[1], rec[2]))
        elif rec[0] == "finish":
            events.append(("finish", rec[1], rec[2]))
        elif rec[0] == "state":
            _, t, st, cls = rec
            if st == "SKIPPED":
                events.append(("skip", t))
            elif st == "FAILED" and t not in started:
                events.append(("launchfail", t))
            elif st == "SUCCEEDED" and cls != "RunTaskExecutable":
                events.append(("finish", t, 0))
    if obs.load and obs.load[0] == "ok" and obs.crash is None:
        events.append(("kill", list(kills)))
        if obs.raised is None:
            events.append(("done",))
        else:
            # the final report lists the failed tasks and then the skipped ones, each list under a heading, one indented
            # identifier per line (details of a failure are indented further).  Only this STRUCTURE is relied on, not the
            # wording of the headings.
            blocks, cur = [], None
            for line in text.splitlines():
                mt = _re0.match(r"^  //\S*:t(\d+)\s*$", line)
                if mt:
                    if cur is None:
                        cur = []
                        blocks.append(cur)
                    cur.append(int(mt.group(1)))
                elif line.startswith("    ") or not line.strip():
                    continue
                else:
                    cur = None
            failed = blocks[0] if blocks else []
            skipped = blocks[1] if len(blocks) > 1 else []
            events.append(("failed", failed, skipped))
    obs.events = events
    obs.n_cached = n_cached
    # progress counters "(k/N)"
    import re

    obs.progress = [(int(a), int(b)) for a, b in re.findall(r"\((\d+)/(\d+)\)", text)]
    if not keep_root:
        shutil.rmtree(os.path.dirname(root), ignore_errors=True)
    return obs


# ----------------------------------------------------------------------------- flattening (mirror of RunCase.v)
def ser_event(e):
    k = e[0]
    if k == "cached":
        return [1, e[1]]
    if k == "start":
        return [2, e[1]] + ser_opt(ser_n, e[2])
    if k == "skip":
        return [3, e[1]]
    if k == "launchfail":
        return [4, e[1]]
    if k == "finish":
        return [5, e[1], e[2]]
    if k == "kill":
        return [6] + ser_list(ser_n, e[1])
    if k == "done":
        return [7]
    if k == "failed":
        return [8] + ser_list(ser_n, e[1]) + ser_list(ser_n, e[2])
    raise ValueError(e)


def ser_observed(case, obs):
    ld = obs.load
    if ld[0] == "cycle":
        return [1]
    if ld[0] == "notfound":
        return [2, ld[1]]
    if ld[0] == "bad":
        return [3, ld[1]]
    if ld[0] == "dup":
        return [4, ld[1]]
    n = len(case.tasks)
    out = [0] + [1 if i in ld[1] else 0 for i in range(n)]
    p = obs.plan
    out += ser_list(lambda o: [o[0]] + ser_list(ser_n, o[1]) + ser_bool(o[2]) + ser_bool(o[3]), p["ops"])
    out += ser_list(lambda l: ser_list(ser_n, l), p["deps_of"])
    out += ser_list(ser_n, p["initial"])
    out += ser_list(ser_n, p["cached"])
    out += ser_list(ser_n, obs.sr_calls)
    out += ser_list(ser_n, obs.nv_calls)
    out += ser_list(lambda sn: [sn[0]] + ser_list(lambda db: [db[0]] + ser_bool(db[1]), sn[1]), snapshot_of(case, obs))
    out += [12] + ser_list(ser_event, obs.events)
    return out


def snapshot_of(case, obs):
    """per planned op (in all_ops order): (task, [(dependency, is-the-version-created-now)]) from the paths the
    real planner put into the operation (COND_DEPS / combine links); groups get no paths"""
    import re as _re

    p = obs.plan
    out = []
    for (t, _deps, _par, _sync) in p["ops"]:
        if case.tasks[t].kind == "group":
            out.append((t, []))
            continue
        if t in p["deps_paths"]:
            paths = p["deps_paths"][t]
        else:
            paths = [b for _a, b in p["combine_paths"].get(t, [])]
        lst = []
        for path in paths:
            m = _re.search(r"/t(\d+)\.task(?:\.(\d+))?$", path)
            d = int(m.group(1))
            ver = m.group(2)
            lst.append((d, ver is not None and p["versions"].get(d) == ver))
        out.append((t, lst))
    return out


IMPORTS = "From Conductor Require Import Lib.Str Lib.Cmp Model.Loader Model.Planner Model.Exec Model.RunCase."


def model_hashes(cases, fuel=4000, shard=250):
    """returns list of per-case status: True (agree) / False (disagree) / None (model failed), given want hashes"""
    raise NotImplementedError


def compare_with_model(cases, wants, fuel=4000, shard=200, picks=None):
    """cases: list of Case; wants: list of packed numbers computed from the implementation.
    Returns (list of indices that disagree, list of (shard, raw) failures)."""
    exprs, wl, offs = [], [], []
    for a in range(0, len(cases), shard):
        chunk = cases[a:a + shard]
        pk = picks[a:a + shard] if picks is not None else [None] * len(chunk)
        exprs.append("map (fun tc => case_hash %d%%nat (fst tc) (snd tc)) %s" % (fuel, "[" + ";\n ".join(c.coq(q) for c, q in zip(chunk, pk)) + "]"))
        wl.append(wants[a:a + shard])
        offs.append(a)
    res = run_packed_cases(IMPORTS, "", exprs, wl)
    bad, fails = [], []
    for off, (ok, idx, raw) in zip(offs, res):
        if not ok:
            fails.append((off, raw))
        else:
            bad.extend(off + i for i in idx)
    return bad, fails


def model_dump(case, fuel=4000, picks=None):
    """raw flattened outcome of the model for one case (for replays / diagnostics)"""
    from common import coq_eval, parse_eval

    text = ("From Coq Require Import List NArith Bool.\n" + IMPORTS + "\nImport ListNotations.\n"
            "Definition tc := %s.\nEval vm_compute in (ser_outcome (fst tc) (cond_run %d%%nat (fst tc) (snd tc))).\n" % (case.coq(picks), fuel))
    (rc, out), = coq_eval([("dump", text)])
    vals = parse_eval(out)
    if rc != 0 or not vals:
        return None
    import re

    return [int(x) for x in re.findall(r"\d+", vals[-1].split(":")[0] if False else vals[-1])]


# ----------------------------------------------------------------------------- graph helpers for oracles
def closure(case, start, through=lambda t: True):
    """tasks reachable from start (inclusive) following deps of good tasks for which through(t) holds"""
    seen, stack = set(), [start]
    while stack:
        x = stack.pop()
        if x in seen:
            continue
        seen.add(x)
        t = case.tasks[x]
        if t.status == 2 and through(x):
            stack.extend(t.deps)
    return seen


def analyse_graph(case):
    """independent classification of what is reachable from the root: (has_cycle, undefined set, bad set, dup set)"""
    reach = closure(case, case.root)
    undefined = {x for x in reach if case.tasks[x].status == 0}
    bad = {x for x in reach if case.tasks[x].status == 1}
    dup = {x for x in reach if case.tasks[x].status == 2 and len(set(case.tasks[x].deps)) != len(case.tasks[x].deps)}
    # cycle among reachable good tasks
    color = {}
    cyc = [False]

    def dfs(x):
        color[x] = 1
        if case.tasks[x].status == 2:
            for d in case.tasks[x].deps:
                if color.get(d) == 1:
                    cyc[0] = True
                elif d not in color:
                    dfs(d)
        color[x] = 2

    sys.setrecursionlimit(10000)
    dfs(case.root)
    return cyc[0], undefined, bad, dup


def needed_sets(case):
    """(Needed, Frontier) of DESIGN 5/C02 computed independently of the planner"""
    runs = lambda x: case.again or case.tasks[x].kind != "experiment" or case.tasks[x].sr  # noqa: E731
    needed, frontier = set(), set()
    stack = [case.root]
    seen = set()
    while stack:
        x = stack.pop()
        if x in seen:
            continue
        seen.add(x)
        if runs(x):
            needed.add(x)
            stack.extend(case.tasks[x].deps)
        else:
            frontier.add(x)
    return needed, frontier
