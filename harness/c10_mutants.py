#!/venv/bin/python
"""Self-validation of ./check C10: every mutant below must turn the check red
(except those marked harmless, which must stay green).  Usage: harness/c10_mutants.py [names...]
Works on scratch copies of /repo/src under /dev/shm; nothing under /repo is touched."""
import os
import shutil
import subprocess
import sys
import tempfile

VERIF = os.path.dirname(os.path.dirname(os.path.abspath(__file__)))

T = "utils/tee.py"
R = "execution/ops/run_task_executable.py"
# name -> (expected colour, file under src/conductor, [(old, new), ...])
MUTANTS = {
    "tee-stops-at-short-read": ("red", T, [("if len(data) == 0:", "if len(data) < 4096:\n                    file.write(data)\n                    stream.buffer.write(data)")]),
    "tee-does-not-forward": ("red", T, [("                stream.buffer.write(data)\n", "")]),
    "tee-translates-crlf": ("red", T, [("file.write(data)", "file.write(data.replace(b'\\r\\n', b'\\n'))")]),
    "tee-decodes-utf8": ("red", T, [("stream.buffer.write(data)", "stream.buffer.write(data.decode('utf-8', 'replace').encode('utf-8'))")]),
    "tee-reads-4095-drops-rest": ("red", T, [("data = pipe.read1(4096)", "data = pipe.read1(4096)[:4095]")]),
    "stderr-forwarded-to-stdout": ("red", R, [("stderr_output.maybe_tee(process.stderr, sys.stderr, ctx)", "stderr_output.maybe_tee(process.stderr, sys.stdout, ctx)")]),
    "always-only-logged": ("red", R, [("                if slot is None:\n                    record_type = RecordType.Teed", "                if False:\n                    record_type = RecordType.Teed")]),
    "always-teed": ("red", R, [("                if slot is None:\n                    record_type = RecordType.Teed", "                if True:\n                    record_type = RecordType.Teed")]),
    "args-json-even-if-empty": ("red", R, [("if not self._args.empty():", "if True:")]),
    "options-json-never": ("red", R, [("if not self._options.empty():", "if False:")]),
    "records-written-before-exit-check": ("red", R, [("        assert handle.returncode is not None\n", "        assert handle.returncode is not None\n        if not self._args.empty():\n            self._args.serialize_json(self._output_path / EXP_ARGS_JSON_FILE_NAME)\n")]),
    "args-json-stringified": ("red", "utils/run_arguments.py", [("json.dump(self._args, file, indent=2)", "json.dump([str(a) for a in self._args], file, indent=2)")]),
    "options-json-ascii-replaced": ("red", "utils/run_options.py", [("json.dump(self._options, file, indent=2, sort_keys=True)", "json.dump({k.encode('ascii', 'replace').decode(): v for k, v in self._options.items()}, file, indent=2, sort_keys=True)")]),
    "one-tee-worker-deadlock": ("red", T, [("ThreadPoolExecutor(max_workers=2)", "ThreadPoolExecutor(max_workers=1)")]),
    "harmless-read-size-8192": ("green", T, [("pipe.read1(4096)", "pipe.read1(8192)")]),
    "harmless-no-sort-keys": ("green", "utils/run_options.py", [("indent=2, sort_keys=True", "indent=2")]),
}


def main():
    names = sys.argv[1:] or list(MUTANTS)
    results = []
    for name in names:
        colour, rel, edits = MUTANTS[name]
        d = tempfile.mkdtemp(prefix="mut-c10-", dir="/dev/shm")
        try:
            shutil.copytree("/repo/src", os.path.join(d, "src"), symlinks=True)
            p = os.path.join(d, "src", "conductor", rel)
            text = open(p, encoding="utf-8").read()
            for old, new in edits:
                if old not in text:
                    raise SystemExit("mutant %s: pattern %r not found in %s" % (name, old, rel))
                text = text.replace(old, new)
            with open(p, "w", encoding="utf-8") as f:
                f.write(text)
            env = dict(os.environ, VERIF_REPO=d)
            r = subprocess.run([os.path.join(VERIF, "check"), "C10", "--tier", "quick"], env=env, stdout=subprocess.PIPE, stderr=subprocess.STDOUT, check=False)
            out = r.stdout.decode("utf-8", "replace")
            got = "green" if r.returncode == 0 else "red"
            first = next((ln for ln in out.splitlines() if ln.startswith("  ! ")), "")
            results.append((name, colour, got, first[:200]))
            print("%-36s expected %-5s got %-5s %s" % (name, colour, got, first[:160]), flush=True)
        finally:
            shutil.rmtree(d, ignore_errors=True)
    bad = [r for r in results if r[1] != r[2]]
    print("%d mutants, %d as expected" % (len(results), len(results) - len(bad)))
    return 1 if bad else 0


if __name__ == "__main__":
    sys.exit(main())
