"""Helpers shared by c17.py and c18.py: path enumerations mirrored in Coq, Coq literals for paths,
project generation (nested packages, every task kind, tasks that record $COND_OUT/$COND_DEPS),
combine-directory inspection, canonical snapshots of cond-out."""
import os
import re
import shutil

from common import cstr, clist

TASK_SUFFIX = ".task"


# ----------------------------------------------------------------------------- paths
def abs_str(parts):
    return "/" + "/".join(parts)


def parts_of(s):
    """components of an absolute or relative path string, empty components dropped"""
    return [x for x in s.split("/") if x != ""]


def lists_upto(alpha, n):
    """all lists over alpha of length <= n, in the order of the Coq function lists_upto below"""
    if n == 0:
        return [[]]
    sub = lists_upto(alpha, n - 1)
    return [[]] + [[c] + s for c in alpha for s in sub]


COQ_LISTS_UPTO = """Fixpoint lists_upto (alpha : list str) (n : nat) : list (list str) :=
  match n with
  | O => [[]]
  | S k => [] :: flat_map (fun c => map (cons c) (lists_upto alpha k)) alpha
  end.
Definition mem_path (p : list str) (l : list (list str)) : bool := existsb (strs_eqb p) l.
"""


def cpath(parts):
    return clist([cstr(c) for c in parts])


def cpaths(paths):
    return clist([cpath(p) for p in paths])


def chunks(l, n):
    return [l[i:i + n] for i in range(0, len(l), n)]


# ----------------------------------------------------------------------------- combine directories
def combine_entries(d):
    """{name: ('l', link text, realpath) | ('o',)} for the entries of directory d ({} if absent)"""
    out = {}
    if not os.path.isdir(d):
        return out
    for n in sorted(os.listdir(d)):
        p = os.path.join(d, n)
        if os.path.islink(p):
            out[n] = ("l", os.readlink(p), os.path.realpath(p))
        else:
            out[n] = ("o",)
    return out


def is_nonempty_dir(p):
    return os.path.isdir(p) and len(os.listdir(p)) > 0


def existing_paths(top):
    """every path below top (relative components) for which os.path.exists holds, plus top"""
    res = [[]]
    for root, dirs, files in os.walk(top):
        rel = os.path.relpath(root, top)
        base = [] if rel == "." else rel.split("/")
        for n in dirs + files:
            if os.path.exists(os.path.join(root, n)):
                res.append(base + [n])
    return res


# ----------------------------------------------------------------------------- project generation
PKGS = ["", "p", "p/q", "p/q/s", "r", "r/t"]


def ident(pkg, name):
    return "//%s:%s" % (pkg, name)


def out_rel(pkg, name, ts=None):
    """path of a task output directory relative to the project root"""
    d = name + TASK_SUFFIX + ("" if ts is None else ".%d" % ts)
    return os.path.join("cond-out", pkg, d) if pkg else os.path.join("cond-out", d)


def trace_name(pkg, name):
    return (pkg.replace("/", "__") + "__" if pkg else "__") + name


class Task:
    def __init__(self, kind, pkg, name, deps=(), empty=False, fail=False):
        self.kind = kind  # rc | exp | group | combine
        self.pkg = pkg
        self.name = name
        self.deps = list(deps)  # Task objects
        self.empty = empty  # run_command that writes nothing into its output directory
        self.fail = fail

    @property
    def id(self):
        return ident(self.pkg, self.name)

    def meta(self):
        return {"kind": self.kind, "id": self.id, "deps": [d.id for d in self.deps], "empty": self.empty, "fail": self.fail}


def _dep_str(task, dep):
    return ":" + dep.name if dep.pkg == task.pkg else dep.id


def render_cond(tasks):
    """{relative file path: text} for the COND files of the given tasks.
    Every run_command/run_experiment appends $COND_OUT and $COND_DEPS to $TRACE_DIR/<task> (the
    harness passes TRACE_DIR in the environment) and leaves a marker file in its output."""
    by_pkg = {}
    for t in tasks:
        by_pkg.setdefault(t.pkg, []).append(t)
    files = {}
    for pkg, ts in by_pkg.items():
        lines = []
        for t in ts:
            deps = "[%s]" % ", ".join('"%s"' % _dep_str(t, d) for d in t.deps)
            if t.kind in ("rc", "exp"):
                tn = trace_name(t.pkg, t.name)
                cmd = 'echo "OUT $COND_OUT" >> "$TRACE_DIR/%s"; echo "PWD $(pwd) NAME $COND_NAME" >> "$TRACE_DIR/%s"; echo "DEPS $COND_DEPS" >> "$TRACE_DIR/%s"' % (tn, tn, tn)
                if not t.empty:
                    cmd += '; echo "$COND_OUT" > "$COND_OUT/where"'
                if t.fail:
                    cmd += "; exit 3"
                fn = "run_command" if t.kind == "rc" else "run_experiment"
                lines.append("%s(name=%r, run=%r, deps=%s)" % (fn, t.name, cmd, deps))
            elif t.kind == "group":
                lines.append("group(name=%r, deps=%s)" % (t.name, deps))
            elif t.kind == "combine":
                lines.append("combine(name=%r, deps=%s)" % (t.name, deps))
        path = os.path.join(pkg, "COND") if pkg else "COND"
        files[path] = "\n".join(lines) + "\n"
    return files


def read_trace(trace_dir):
    """{trace name: [(OUT path, DEPS string), ...]} in order of execution"""
    res = {}
    if not os.path.isdir(trace_dir):
        return res
    for n in os.listdir(trace_dir):
        lines = open(os.path.join(trace_dir, n), encoding="utf-8").read().splitlines()
        recs = []
        cur = None
        for ln in lines:
            if ln.startswith("OUT "):
                cur = ln[4:]
            elif ln.startswith("DEPS "):
                recs.append((cur, ln[5:]))
        res[n] = recs
    return res


# ----------------------------------------------------------------------------- snapshots
_TS_RE = re.compile(r"([A-Za-z0-9_-]+)\.task\.(\d+)")
_ARCH_RE = re.compile(r"cond-archive\+\d{4}-\d{2}-\d{2}\+\d{2}-\d{2}-\d{2}")


def canon_timestamps(text, known):
    """replace version timestamps that are not in `known` (the (task name, timestamp) pairs of the
    prepared state) by <NEW>; archive names by <TIME>"""

    def f(m):
        return m.group(1) + ".task." + (m.group(2) if (m.group(1), int(m.group(2))) in known else "<NEW>")

    return _ARCH_RE.sub("cond-archive+<TIME>", _TS_RE.sub(f, text))


def copy_tree(src, dst):
    if os.path.lexists(dst):
        shutil.rmtree(dst)
    shutil.copytree(src, dst, symlinks=True)


# ----------------------------------------------------------------------------- running cond
HANG_TIMEOUT = 10


def run_cond_at(argv, cwd, env=None, stdin_data=None, timeout=120):
    """implrun.run_cond with the capture files kept in the scratch area instead of two levels above the
    working directory (which lies inside the project -- even inside cond-out -- when the command is issued
    from a nested directory: `cond clean` then deletes the captured stdout and gc/archive see a stray
    directory).  Same child protocol: fork, import conductor from VERIF_REPO, run main(), os._exit."""
    import sys  # pylint: disable=import-outside-toplevel
    import tempfile  # pylint: disable=import-outside-toplevel
    import time  # pylint: disable=import-outside-toplevel
    import implrun  # pylint: disable=import-outside-toplevel
    from common import scratch, setup_impl_path  # pylint: disable=import-outside-toplevel

    setup_impl_path()
    d = tempfile.mkdtemp(prefix="run-", dir=scratch())
    outp, errp = os.path.join(d, "out"), os.path.join(d, "err")
    sys.stdout.flush()
    sys.stderr.flush()
    pid = os.fork()
    if pid == 0:
        code = 70
        try:
            os.setpgid(0, 0)
            fo = os.open(outp, os.O_WRONLY | os.O_CREAT | os.O_TRUNC)
            fe = os.open(errp, os.O_WRONLY | os.O_CREAT | os.O_TRUNC)
            os.dup2(fo, 1)
            os.dup2(fe, 2)
            if stdin_data is None:
                fi = os.open("/dev/null", os.O_RDONLY)
            else:
                r, w = os.pipe()
                os.write(w, stdin_data)
                os.close(w)
                fi = r
            os.dup2(fi, 0)
            sys.stdout = os.fdopen(1, "w", buffering=1, encoding="utf-8", errors="surrogateescape")
            sys.stderr = os.fdopen(2, "w", buffering=1, encoding="utf-8", errors="surrogateescape")
            sys.stdin = os.fdopen(0, "r")
            os.chdir(cwd)
            if env:
                os.environ.update(env)
            sys.argv = ["cond"] + list(argv)
            import conductor.__main__ as m  # pylint: disable=import-outside-toplevel

            try:
                m.main()
                code = 0
            except SystemExit as ex:
                code = ex.code if isinstance(ex.code, int) else (0 if ex.code is None else 1)
            except BaseException:  # pylint: disable=broad-except
                import traceback  # pylint: disable=import-outside-toplevel

                traceback.print_exc()
                code = 1
            sys.stdout.flush()
            sys.stderr.flush()
        finally:
            os._exit(code & 0xFF)
    t0 = time.time()
    while True:
        wpid, st = os.waitpid(pid, os.WNOHANG)
        if wpid == pid:
            status = st
            break
        if time.time() - t0 > timeout:
            try:
                os.killpg(pid, 9)
            except OSError:
                pass
            _, status = os.waitpid(pid, 0)
            break
        time.sleep(0.002)
    out = open(outp, encoding="utf-8", errors="surrogateescape").read() if os.path.exists(outp) else ""
    err = open(errp, encoding="utf-8", errors="surrogateescape").read() if os.path.exists(errp) else ""
    shutil.rmtree(d, ignore_errors=True)
    if os.WIFSIGNALED(status):
        return implrun.Result(-os.WTERMSIG(status), out, err, signaled=os.WTERMSIG(status))
    return implrun.Result(os.WEXITSTATUS(status), out, err)


def run_cond_retry(chk, argv, cwd, env=None, restore=None, stdin_data=None, tries=4):
    """run_cond_at with a short timeout.  Before /repo commit 2ba821d `cond run` could block forever on a
    lost SIGCHLD wake-up (a C09 matter, found while building this check and fixed since); the guard stays:
    a run that exceeds the timeout is killed, counted in the evidence (hangs_retried) and repeated (after
    `restore()` when the caller needs the state put back first)."""
    for _ in range(tries):
        res = run_cond_at(argv, cwd, env=env, stdin_data=stdin_data, timeout=HANG_TIMEOUT)
        if res.signaled != 9:
            return res
        chk.count("hangs_retried", " ".join(argv[:1]))
        chk.coverage["hangs_retried"] = chk.coverage.get("hangs_retried", 0) + 1
        if restore is not None:
            restore()
    return res


def preimport():
    """import in the parent everything the forked `cond` children would import lazily (the remote-environment
    support pulls in fabric/paramiko: ~0.25 s per child otherwise)"""
    from common import setup_impl_path  # pylint: disable=import-outside-toplevel

    setup_impl_path()
    import conductor.__main__  # noqa: F401  pylint: disable=import-outside-toplevel,unused-import

    try:
        import conductor.envs.manager_impl  # noqa: F401  pylint: disable=import-outside-toplevel,unused-import
    except ImportError:
        pass
