#!/bin/bash
# import7.sh Cxx: copy the round-7 seeds k/l of a property from /tmp/wt8-Cxx into seeded/ and print the eval list lines
p=$1
for v in k l; do s=/tmp/wt8-$p/seeded/$v; [ -f $s/patch.diff ] || continue; mkdir -p /verif/seeded/$p/$v; cp $s/patch.diff $s/demo.py $s/README.md /verif/seeded/$p/$v/; (cd /repo && git apply --check /verif/seeded/$p/$v/patch.diff) || echo "PATCH DOES NOT APPLY $p/$v" >&2; echo "r7-$p-$v seed seeded/$p/$v $p"; done
