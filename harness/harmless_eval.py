#!/venv/bin/python
"""Evaluate a behaviour-preserving change: harmless_eval.py <prop> <dir> [check ids...]
 - copies /repo (without .git) to /dev/shm/harmrun-<pid>, applies <dir>/patch.diff
 - runs the pinned suite on the copy
 - runs the listed checks (default: the property's own) with VERIF_REPO=<copy>
 - writes <dir>/meta.json: a VIOLATION here is an alarm on code where the property holds (with a concrete input: a
   false alarm of the check; `no-failing-input-found`: a proof obligation / the harness no longer fits the rewritten code)"""
import json
import os
import shutil
import subprocess
import sys
import time

VERIF = os.path.dirname(os.path.dirname(os.path.abspath(__file__)))


def sh(cmd, **kw):
    p = subprocess.run(cmd, capture_output=True, text=True, **kw)
    return p.returncode, (p.stdout + p.stderr)


def main():
    prop, sdir = sys.argv[1], os.path.abspath(sys.argv[2])
    checks = sys.argv[3:] or [prop]
    copy = "/dev/shm/harmrun-%d" % os.getpid()
    shutil.rmtree(copy, ignore_errors=True)
    shutil.copytree("/repo", copy, symlinks=True, ignore=shutil.ignore_patterns(".git", "__pycache__", "node_modules"))
    meta = {"property": prop, "change": os.path.relpath(sdir, VERIF), "kind": "behaviour-preserving", "checks": {}}
    rc, out = sh(["patch", "-p1", "-i", os.path.join(sdir, "patch.diff")], cwd=copy)
    meta["patch_applies"] = rc == 0
    env = dict(os.environ, PYTHONPATH=os.path.join(copy, "src"), PYTHONDONTWRITEBYTECODE="1")
    rc, out = sh(["/venv/bin/python", "-m", "pytest", "-q", "-p", "no:cacheprovider", "--timeout=900", "--continue-on-collection-errors"], cwd=copy, env=env)
    meta["suite_with_change"] = out.strip().splitlines()[-1] if out.strip() else ""
    for chk in checks:
        t0 = time.time()
        p = subprocess.run([os.path.join(VERIF, "check"), chk, "--tier", "quick"], env=dict(os.environ, VERIF_REPO=copy), capture_output=True, text=True)
        viol = [l for l in p.stdout.splitlines() if l.startswith("VIOLATION")]
        firsts = [l.strip() for l in p.stdout.splitlines() if l.strip().startswith("!")][:3]
        meta["checks"][chk] = {"exit": p.returncode, "alarm": p.returncode != 0 or bool(viol), "first": [f[:400] for f in firsts], "n_violation_lines": len(viol),
                               "all_without_input": bool(viol) and all(l.endswith("no-failing-input-found") for l in viol), "wall_s": round(time.time() - t0, 1),
                               "stderr_tail": p.stderr[-600:] if p.returncode not in (0, 1) else ""}
    shutil.rmtree(copy, ignore_errors=True)
    meta["what_i_ran"] = "harness/harmless_eval.py %s %s %s" % (prop, os.path.relpath(sdir, VERIF), " ".join(checks))
    json.dump(meta, open(os.path.join(sdir, "meta.json"), "w"), indent=1)
    print(json.dumps({"change": meta["change"], "suite": meta["suite_with_change"], "applies": meta["patch_applies"],
                      "checks": {k: (v["alarm"], v["all_without_input"], (v["first"] or [""])[0][:140]) for k, v in meta["checks"].items()}}))


if __name__ == "__main__":
    main()
