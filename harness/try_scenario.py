#!/venv/bin/python
"""Development helper: run ONE scenario function against the tree in VERIF_REPO (default /repo) without building proofs
or writing evidence.   usage: try_scenario.py <prop> <module> <function> [args as python literals]"""
import ast
import importlib
import os
import sys

sys.path.insert(0, os.path.dirname(os.path.abspath(__file__)))
import common  # noqa: E402


def main():
    prop, mod, fn = sys.argv[1:4]
    args = [ast.literal_eval(a) for a in sys.argv[4:]]
    common.setup_impl_path()
    chk = common.Check(prop, "quick", 1)
    out = getattr(importlib.import_module(mod), fn)(chk, *args)
    print("returned:", out)
    print("evaluations:", chk.coverage.get("evaluations"), "validated:", chk.coverage.get("traces_validated_against_impl"))
    for v in chk.violations:
        print("VIOLATION-WOULD-BE:", (v.get("summary") if isinstance(v, dict) else str(v))[:600])
    print("n_violations:", len(chk.violations))


if __name__ == "__main__":
    main()
