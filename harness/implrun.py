"""Running the real implementation: scratch projects, `cond` invocations in forked children
(in-process import of /repo/src, os._exit at the end so no interpreter shutdown cost), sqlite
inspection, tree snapshots."""
import hashlib
import os
import sqlite3
import sys
import tempfile

from common import new_dir, setup_impl_path, SRC


def make_project(files, name="proj", git=False):
    """files: {relative path: text}.  cond_config.toml is added if absent.  Returns the root path."""
    root = os.path.join(new_dir(name), "p")
    os.makedirs(root)
    if "cond_config.toml" not in files:
        files = dict(files, **{"cond_config.toml": "" if git else "disable_git = true\n"})
    for rel, text in files.items():
        p = os.path.join(root, rel)
        os.makedirs(os.path.dirname(p), exist_ok=True)
        mode = "wb" if isinstance(text, bytes) else "w"
        with open(p, mode) as f:
            f.write(text)
    return root


_PREIMPORTED = []


def preimport():
    """import in the parent what every `cond` invocation imports lazily (fabric/paramiko via
    conductor.envs.manager_impl: ~0.25 s per forked child otherwise)"""
    if _PREIMPORTED:
        return
    _PREIMPORTED.append(True)
    try:
        import conductor.__main__  # noqa: F401  pylint: disable=unused-import,import-outside-toplevel
        import conductor.envs.manager_impl  # noqa: F401  pylint: disable=unused-import,import-outside-toplevel
    except ImportError:
        pass


class HarnessHookFailed(RuntimeError):
    """the `pre` hook of run_cond raised inside the forked child (e.g. a private name it patches was renamed)"""


class Result:
    def __init__(self, code, out, err, signaled=None):
        self.code = code
        self.out = out
        self.err = err
        self.signaled = signaled

    def __repr__(self):
        return "Result(code=%r, out=%r, err=%r)" % (self.code, self.out[-300:], self.err[-300:])


def run_cond(argv, cwd, env=None, stdin_data=None, pre=None, timeout=120, inherit_ignored=()):
    """Run `cond <argv>` from directory cwd in a forked child that imports conductor from /repo/src.
    pre: optional callable run in the child before main() (monkey-patching, tracing).
    inherit_ignored: signals whose disposition is SIG_IGN when the tool starts (a background job of a non-interactive shell,
    nohup); SIGINT and SIGTERM otherwise start with their default disposition, whatever the harness itself inherited.
    Returns Result(exit code, stdout text, stderr text)."""
    setup_impl_path()
    preimport()
    d = new_dir("run")  # capture files live in scratch, never inside the project under test
    outp, errp = os.path.join(d, "out"), os.path.join(d, "err")
    sys.stdout.flush()
    sys.stderr.flush()
    pid = os.fork()
    if pid == 0:
        code = 70
        try:
            os.setpgid(0, 0)
            fo = os.open(outp, os.O_WRONLY | os.O_CREAT | os.O_TRUNC)
            fe = os.open(errp, os.O_WRONLY | os.O_CREAT | os.O_TRUNC)
            os.dup2(fo, 1)
            os.dup2(fe, 2)
            if stdin_data is None:
                fi = os.open("/dev/null", os.O_RDONLY)
            else:
                r, w = os.pipe()
                os.write(w, stdin_data)
                os.close(w)
                fi = r
            os.dup2(fi, 0)
            sys.stdout = os.fdopen(1, "w", buffering=1, encoding="utf-8", errors="surrogateescape")
            sys.stderr = os.fdopen(2, "w", buffering=1, encoding="utf-8", errors="surrogateescape")
            sys.stdin = os.fdopen(0, "r")
            os.chdir(cwd)
            if env:
                os.environ.update(env)
            sys.argv = ["cond"] + list(argv)
            import signal as _signal  # pylint: disable=import-outside-toplevel

            for _sig in (_signal.SIGINT, _signal.SIGTERM):
                _signal.signal(_sig, _signal.SIG_IGN if _sig in inherit_ignored else _signal.SIG_DFL)
            if pre is not None:
                try:
                    pre()
                except BaseException:  # pylint: disable=broad-except
                    # the harness's own hook (monkey-patching of private names, tracing) could not be installed: this is
                    # not behaviour of the tool -- reserved exit code, recognised by the parent
                    import traceback

                    sys.stderr.write("HARNESS-PRE-HOOK-FAILED\n" + traceback.format_exc())
                    sys.stderr.flush()
                    code = 71
                    os._exit(71)
            import conductor.__main__ as m  # pylint: disable=import-outside-toplevel

            try:
                m.main()
                code = 0
            except SystemExit as ex:
                code = ex.code if isinstance(ex.code, int) else (0 if ex.code is None else 1)
            except BaseException:  # pylint: disable=broad-except
                import traceback

                traceback.print_exc()
                code = 1
            sys.stdout.flush()
            sys.stderr.flush()
        finally:
            os._exit(code & 0xFF)
    # parent
    import time

    t0 = time.time()
    status = None
    while True:
        wpid, st = os.waitpid(pid, os.WNOHANG)
        if wpid == pid:
            status = st
            break
        if time.time() - t0 > timeout:
            try:
                os.killpg(pid, 9)
            except OSError:
                pass
            _, status = os.waitpid(pid, 0)
            break
        time.sleep(0.002)
    out = open(outp, encoding="utf-8", errors="surrogateescape").read() if os.path.exists(outp) else ""
    err = open(errp, encoding="utf-8", errors="surrogateescape").read() if os.path.exists(errp) else ""
    import shutil

    shutil.rmtree(d, ignore_errors=True)
    if os.WIFSIGNALED(status):
        return Result(-os.WTERMSIG(status), out, err, signaled=os.WTERMSIG(status))
    if os.WEXITSTATUS(status) == 71 and "HARNESS-PRE-HOOK-FAILED" in err:
        # escapes the check: reported as `check-aborted ... no-failing-input-found` (a broken tie, not a failing input)
        raise HarnessHookFailed(err[-1500:])
    return Result(os.WEXITSTATUS(status), out, err)


def index_rows(root, while_running=False):
    """rows of cond-out/version_index.sqlite read through a fresh connection (committed state only).
    while_running: the caller polls while a `cond` process may be creating the index right now -- a file without its
    table yet (or briefly locked) then simply has no rows to show"""
    p = os.path.join(root, "cond-out", "version_index.sqlite")
    if not os.path.exists(p):
        return []
    conn = sqlite3.connect("file:%s?mode=ro" % p, uri=True)
    try:
        if while_running:
            try:
                return sorted(conn.execute("SELECT task_identifier, timestamp, git_commit_hash, has_uncommitted_changes FROM version_index").fetchall(), key=lambda r: (r[0], r[1]))
            except sqlite3.OperationalError:
                return []
        return sorted(conn.execute("SELECT task_identifier, timestamp, git_commit_hash, has_uncommitted_changes FROM version_index").fetchall(), key=lambda r: (r[0], r[1]))
    finally:
        conn.close()


def tree_snapshot(path, skip=()):
    """{relative path: ('d',) | ('f', sha1, mode) | ('l', target)} for everything under path"""
    snap = {}
    for root, dirs, files in os.walk(path):
        rel = os.path.relpath(root, path)
        for dn in list(dirs):
            p = os.path.join(root, dn)
            r = os.path.normpath(os.path.join(rel, dn))
            if r in skip:
                dirs.remove(dn)
                continue
            if os.path.islink(p):
                snap[r] = ("l", os.readlink(p))
                dirs.remove(dn)
            else:
                snap[r] = ("d",)
        for fn in files:
            p = os.path.join(root, fn)
            r = os.path.normpath(os.path.join(rel, fn))
            if r in skip:
                continue
            if os.path.islink(p):
                snap[r] = ("l", os.readlink(p))
            else:
                with open(p, "rb") as f:
                    h = hashlib.sha1(f.read()).hexdigest()
                snap[r] = ("f", h, os.stat(p).st_mode & 0o777)
    return snap


def strip_ansi(s):
    import re

    return re.sub(r"\x1b\[[0-9;]*m", "", s)


_IMPL_TEXT = {}


def impl_text(key, expr, default):
    """A piece of wording of the code under test, asked of the code itself (so that a reworded message is not taken for
    a changed behaviour); `default` (the wording of the pinned tree) when the code cannot be asked that way."""
    if key not in _IMPL_TEXT:
        import subprocess
        from common import PY

        try:
            r = subprocess.run([PY, "-c", "import sys\n" + expr], env=dict(os.environ, PYTHONPATH=SRC, PYTHONHASHSEED="0"),
                               capture_output=True, text=True, timeout=60)
            val = r.stdout if r.returncode == 0 and r.stdout.strip() else default
        except Exception:
            val = default
        _IMPL_TEXT[key] = val
    return _IMPL_TEXT[key]


def cached_wording():
    """(before, after): what `cond run` prints around the identifier of a task whose cached result it uses, learnt from the
    code under test (a one-task project run twice); the pinned tree's wording when the second run prints something else."""
    default = ("Using cached results for ", ".")
    if "cached" not in _IMPL_TEXT:
        val = default
        try:
            import shutil

            root = make_project({"COND": 'run_experiment(name="zq", run="true")\n'})
            r1 = run_cond(["run", "//:zq"], root)
            r2 = run_cond(["run", "//:zq"], root)
            lines = [ln.strip() for ln in strip_ansi(r2.out + r2.err).splitlines() if "//:zq" in ln]
            if r1.code == 0 and r2.code == 0 and len(index_rows(root)) == 1 and len(lines) == 1 and lines[0].count("//:zq") == 1:
                before, after = lines[0].split("//:zq")
                if before.strip() or after.strip():
                    val = (before, after)
            shutil.rmtree(os.path.dirname(root), ignore_errors=True)
        except Exception:  # pylint: disable=broad-except
            val = default
        _IMPL_TEXT["cached"] = val
    return _IMPL_TEXT["cached"]


def abort_message():
    """what `cond` prints when it ends because of an interrupt: ConductorAbort's own message"""
    return impl_text("abort", "from conductor.errors import ConductorAbort\nsys.stdout.write(ConductorAbort().printable_message())", "aborted").strip()


def abort_reported(text):
    return abort_message() in text and "Traceback" not in text
